"""C20 - Voronoi neighbour output is in the library's neighbour-file format; the volume matrix uses the requested frame.

What is decided (structure of the output and of the matrix assembly):
R-PROTO   cal_neighbors (2D and 3D): per frame one neighbour header carrying the token `neighborlist` and one bond header
          that does not; per particle a line `id cn` followed by exactly cn entries (inner loop bound = the count written) and a
          newline, in both files; one `id cn volume` line in the overall file; files opened once before / closed after the loop.
R-IDX     ids are shifted to 1-based before writing; rows are in id order (explicit sortedness guard that raises); the entry
          cursor advances once per written entry and restarts per frame; frame n uses box n and points n.
R-ALG     convert_configuration centres coordinates on the box centre (lower bound + L/2) out of place, pads z = 0 in 2D,
          builds the box from the box lengths; VolumeMatrix: central difference (V+ - V-)/(2 delta) with the displaced
          coordinate restored, off-diagonal blocks by `atomids != i`, self block = - sum of the row's other blocks (rows sum to
          zero), written after the off-diagonal loop, normalisation by the unperturbed volumes.
R-SAVE    the file holds the returned matrix.
NOT decided (out of static reach, stated in DESIGN.md): symmetry of the neighbour relation, positivity / reciprocity of the
weights, volume sum = box volume - properties of freud's tessellation on data.
"""
from __future__ import annotations

import sympy as sp

from .common import *  # noqa
from .boolib import FULL, NEWAX, col_bcast, row_bcast
from .c05 import segments, file_writes, header_verdict
from ..vg import Interp

MOD = "neighbors.freud_neighbors"
SN = ("sym", "snapshots")


def run(run: Run, pkg: Package) -> None:
    run.explanation = (
        "cal_neighbors is interpreted for 2D and 3D; the text written to the three files is reconstructed as line templates and "
        "matched with the neighbour-file protocol decided under C05 (header token, id cn entries... newline); id shift, row "
        "order guard, entry cursor and per-frame inputs are checked on the value graph. convert_configuration and VolumeMatrix "
        "are compared with their definitions. Tessellation invariants themselves are not decided.")
    check_convert(run, pkg)
    for ndim in (2, 3):
        check_cal_neighbors(run, pkg, ndim)
    check_volume_matrix(run, pkg)
    run.minimum("R-PROTO", 20)
    run.minimum("R-ALG", 10)


def check_convert(run, pkg):
    for ndim in (2, 3):
        for centred in (False, True):
            def assume(c, ndim=ndim, centred=centred):
                if c[0] == "cmp" and c[1] in ("!=", "==") and c[3] == C(0) and c[2][0] == "call" and c[2][1] == ".sum":
                    return (not centred) if c[1] == "!=" else centred
                if c[0] == "cmp" and c[1] == "==" and c[3] == C(2) and c[2][0] == "sub" and c[2][2] == C(1):
                    return ndim == 2
                return None
            it = Interp(pkg, pkg.func(f"{MOD}.convert_configuration"), assume=assume)
            fi = it.fi
            fq = short(fi.qual)
            tag = f"{ndim}D/{'origin-centred' if centred else 'shifted'}"
            ap = [e for e in it.events if e.kind == "call" and e.data["call"][1] == ".append"]
            if len(ap) != 2:
                raise AnalysisError(f"{fq}: expected two appends per frame")
            L = it.loops[ap[0].loops[0]]
            snap = L.target
            okl = eqv(L.iter, ("attr", SN, "snapshots"))
            run.ob("R-LOOPDOM", fq, f"{tag}:frames", okl, "every frame is converted, in order", show(L.iter)[:40], witness=None if okl else "frames skipped", loc=fi.loc(L.node), sound=True)
            pts = box = None
            for e in ap:
                v = e.data["call"][2][1]
                if any(x[0] == "call" and isinstance(x[1], str) and "Box" in x[1] for x in walk(v)):
                    box = v
                else:
                    pts = v
            # every way the appended box can be produced (arms of conditionals, values carried over from an earlier iteration)
            arms = []

            def collect(x, invariant_test=True):
                if x[0] == "phi":
                    # a refresh test against a loop-invariant reference cannot tell "same as the previous frame" from "same as
                    # the reference"; one that involves a carried value (the previous frame's lengths) may be a correct cache
                    inv = not any(y[0] == "mu" for y in walk(x[1]))
                    collect(x[2], inv)
                    collect(x[3], inv)
                elif x[0] == "mu":
                    arms.append(("carried" if invariant_test else "carried?", x))
                    if len(x) > 2 and isinstance(x[2], tuple) and x[2] and isinstance(x[2][0], str):
                        collect(x[2])       # its value on entry to the loop
                else:
                    arms.append(("value", x))
            if box is not None:
                collect(box)
            verdicts = []
            box_wit = None
            for kind_, x in arms:
                if kind_ == "carried":
                    verdicts.append(False)
                elif kind_ == "carried?":
                    verdicts.append(None)
                elif x[0] == "call" and isinstance(x[1], str) and x[1].endswith("from_box") and len(x[2]) == 1:
                    verdicts.append(eqv(x[2][0], ("attr", snap, "boxlength")))
                elif x[0] == "call" and isinstance(x[1], str) and x[1] in ("freud.box.Box", "freud.Box") and not x[2]:
                    # explicit constructor: each edge keyword takes the box length of its own axis
                    kws_ = dict(x[3])
                    v_ = []
                    for kname, axis in (("Lx", 0), ("Ly", 1), ("Lz", 2)):
                        if kname in kws_:
                            got_ = kws_[kname]
                            okk = eqv(got_, ("sub", ("attr", snap, "boxlength"), C(axis)))
                            if okk is not True and got_[0] == "sub" and got_[1] == ("attr", snap, "boxlength") and is_const(got_[2]) and got_[2][1] != axis:
                                okk = False
                                box_wit = f"{kname} is set to the box length of axis {got_[2][1]}: a rectangular box {{'Lx': 12, 'Ly': 17}} is tessellated as 12 x 12 (cell areas sum to 144, not 204)"
                            v_.append(okk)
                    verdicts.append(tri(*v_) if v_ else None)
                else:
                    verdicts.append(None)
            okb = tri(*verdicts) if verdicts else None
            carried = any(k_ == "carried" for k_, _ in arms) or any(v_ is False for v_ in verdicts)
            run.ob("R-ALG", fq, f"{tag}:box", okb, "the tessellation box of every frame is built from that frame's own box lengths, on every path", show(box)[:90] if box else "?",
                   witness=None if okb else ("a box built for another frame is reused: cells L0, L1, L0 - the third frame keeps the box of the second (areas / volumes no longer sum to the frame's cell)"
                                             if carried and box_wit is None else (box_wit or "box of another frame / wrong lengths")), loc=fi.loc(), sound=True)
            core = pts
            padded = False
            if core is not None and core[0] == "call" and core[1] == "numpy.hstack" and core[2][0][0] == "tuple" and len(core[2][0][1]) == 2:
                z = core[2][0][1][1]
                padded = z == ("call", "numpy.zeros", (("tuple", (("attr", snap, "nparticle"), C(1))),), ())
                core = core[2][0][1][0]
            run.ob("R-ALG", fq, f"{tag}:pad", True if padded == (ndim == 2) else None, "in 2D a zero z column is appended (and only then)", f"padded={padded}", witness=None if padded == (ndim == 2) else "2D points without z / 3D points padded", loc=fi.loc())
            P = ("attr", snap, "positions")
            if centred:
                ok = True if core == P else None
                run.ob("R-ALG", fq, f"{tag}:points", ok, "a box already centred on the origin needs no shift", show(core)[:60], witness=None if ok else "shifted twice", loc=fi.loc())
            else:
                okp = core is not None and core[0] == "bin" and core[1] == "-" and core[2] == P
                sh = row_bcast(core[3]) if okp else None
                lo, Ls = sp.symbols("lo L")

                def at(t):
                    if t == ("sub", ("attr", snap, "boxbounds"), ("tuple", (FULL, C(0)))):
                        return lo
                    if t == ("attr", snap, "boxlength"):
                        return Ls
                    return None
                oksh = None
                if sh is not None:
                    tr = S.Translator(at)
                    try:
                        # an affine expression in the lower bounds and box lengths only: exact comparison
                        g_ = sp.expand(tr.tr(sh) - (lo + Ls / 2))
                        oksh = bool(g_ == 0) if not tr.atoms else None
                    except Exception:  # noqa
                        oksh = None
                run.ob("R-ALG", fq, f"{tag}:points", tri(True if okp else None, oksh), "points = positions - (lower bound + L/2): centred on the box centre, computed out of place", show(core)[:90] if core else "?",
                       witness=None if okp and oksh else "box with origin (1, 2): particles are placed outside freud's centred box and wrapped to wrong images", loc=fi.loc(), sound=True)
            ret = it.returns[0].data["value"]
            okr = ret[0] == "tuple" and len(ret[1]) == 2 and ret[1][0][0] == "appended" and ret[1][0][2] == box and ret[1][1][0] == "appended" and ret[1][1][2] == pts
            run.ob("R-ALG", fq, f"{tag}:return", True if okr else None, "returns (boxes, points), one entry per frame", show(ret)[:60], witness=None if okr else "order swapped", loc=fi.loc())


def check_cal_neighbors(run, pkg, ndim):
    def assume(c):
        if c[0] == "cmp" and c[1] == "==" and c[3] == C(2) and c[2] == ("sub", ("attr", ("attr", ("sub", ("attr", SN, "snapshots"), C(0)), "positions"), "shape"), C(1)):
            return ndim == 2
        return None
    it = Interp(pkg, pkg.func(f"{MOD}.cal_neighbors"), assume=assume)
    fi = it.fi
    fq = short(fi.qual)
    tag = f"{ndim}D"
    opens = [e for e in it.events if e.kind == "call" and e.data["call"][1] == "builtins.open"]
    files = {}
    for e in opens:
        p = e.data["call"][2][0]
        suffix = p[3][1] if p[0] == "bin" and p[1] == "+" and is_const(p[3]) else show(p)
        files[suffix] = e
    want_bond = ".edgelength.dat" if ndim == 2 else ".facearea.dat"
    okfiles = set(files) == {".overall.dat", ".neighbor.dat", want_bond} and all(not e.loops and kw(e.data["call"], "mode", 1) == C("w") for e in opens)
    run.ob("R-HANDLE", fq, f"{tag}:files", True if okfiles else None, f"three files (.overall.dat, .neighbor.dat, {want_bond}) are opened once for writing before the frame loop", str(sorted(files)),
           witness=None if okfiles else "file set / mode / placement changed", loc=fi.loc())
    if not okfiles:
        return
    fn, fb, fo = files[".neighbor.dat"].data["result"], files[want_bond].data["result"], files[".overall.dat"].data["result"]
    for nm, h in ((".neighbor.dat", fn), (want_bond, fb), (".overall.dat", fo)):
        cl = [e for e in it.events if e.kind == "call" and e.data["call"][1] == ".close" and e.data["call"][2][0] == h]
        okc = True if (len(cl) == 1 and not cl[0].loops) else (False if any(c_.loops for c_ in cl) else None)
        run.ob("R-HANDLE", fq, f"{tag}:close{nm}", okc, f"{nm} is closed once after the frame loop", f"{len(cl)} closes", witness=None if okc else "closed inside the frame loop: the next frame cannot be written", loc=fi.loc(), sound=True)
    wn, wb, wo = file_writes(it, fn), file_writes(it, fb), file_writes(it, fo)
    rows = [w for w in wn if len(w.loops) == 2]
    if not rows:
        raise AnalysisError(f"{fq}: per-particle writes to the neighbour file not found")
    Lf, Li = it.loops[rows[0].loops[0]], it.loops[rows[0].loops[1]]
    n, i = Lf.target, Li.target
    okf = eqv(Lf.iter, ("call", "builtins.range", (("attr", SN, "nsnapshots"),), ()))
    run.ob("R-LOOPDOM", fq, f"{tag}:frames", okf, "every frame is tessellated", show(Lf.iter)[:50], witness=None if okf else "frames skipped", loc=fi.loc(Lf.node), sound=True)
    # headers
    for nm, ws, token in ((".neighbor.dat", wn, True), (want_bond, wb, False)):
        ok1, htext, _, _ = header_verdict(it, ws, Lf, min(w.seq for w in ws if len(w.loops) >= 2))
        lit = [htext]
        run.ob("R-PROTO", fq, f"{tag}:header{nm}", ok1, f"{nm}: exactly one header line per frame, before the rows", str(lit)[:60], witness=None if ok1 else "multi-frame file: reader loses / gains a line per frame", loc=fi.loc(), sound=True)
        if ok1:
            has = "neighborlist" in lit[0].split()
            run.ob("R-PROTO", fq, f"{tag}:token{nm}", has == token, ("the neighbour header carries the token `neighborlist` (ids are shifted back by the reader)" if token else
                   "the bond-weight header does not carry `neighborlist` (weights are read as floats, unshifted)"), repr(lit[0]),
                   witness=None if has == token else ("neighbour ids are read as weights: no -1 shift" if token else "weights are shifted by -1 and truncated to integers"), loc=fi.loc(), sound=True)
    oh = [w for w in wo if not w.loops]
    okoh = len(oh) == 1 and segments(oh[0].data["call"][2][1]) == [("lit", "id cn area_or_volume\n")]
    run.ob("R-PROTO", fq, f"{tag}:header.overall.dat", True if okoh else None, "the overall file has one header line", "", witness=None if okoh else "overall header changed", loc=fi.loc())
    # tessellation inputs
    vc = [e for e in it.events if e.kind == "call" and e.data["call"][1] == ".compute" and set(e.loops) == {Lf.id}]
    CONV = ("call", pkg.func(f"{MOD}.convert_configuration").qual, (SN,), ())
    okin = tri_lazy(lambda: (True if (len(vc) == 1) else None), lambda: eqv(vc[0].data["call"][2][1], ("tuple", (("sub", ("elem", CONV, 0), n), ("sub", ("elem", CONV, 1), n)))))
    run.ob("R-IDX", fq, f"{tag}:inputs", okin, "frame n is tessellated with box n and points n of the converted configuration", show(vc[0].data["call"][2][1])[:90] if vc else "?",
           witness=None if okin else "box / points of another frame", loc=fi.loc(), sound=True)
    voro = vc[0].data["call"][2][0] if vc else None
    NLIST = ("bin", "+", ("call", "numpy.array", (("attr", voro, "nlist"),), ()), C(1))
    # rows
    def rowsegs(ws, depth):
        out = []
        for w in ws:
            if len(w.loops) == depth:
                out.append((w, segments(w.data["call"][2][1])))
        return out
    UNIQ = ("call", "numpy.unique", (("sub", NLIST, ("tuple", (FULL, C(0)))),), (("return_counts", C(True)),))
    atomid = ("sub", ("elem", UNIQ, 0), i)
    cn = ("sub", ("elem", UNIQ, 1), i)
    okd = eqv(Li.iter, ("call", "builtins.range", (("sub", ("attr", ("elem", UNIQ, 0), "shape"), C(0)),), ()))
    run.ob("R-LOOPDOM", fq, f"{tag}:particles", okd, "one row per distinct centre id of the (1-based) bond list", show(Li.iter)[:80], witness=None if okd else "rows skipped / ids not shifted", loc=fi.loc(Li.node), sound=True)
    for nm, ws, fmt in ((".neighbor.dat", wn, "int"), (want_bond, wb, "float")):
        r2 = rowsegs(ws, 2)
        r3 = rowsegs(ws, 3)
        ok_lead = len(r2) == 2 and [s_[0] for s_ in r2[0][1]] == ["int", "lit", "int", "lit"] and r2[0][1][0][1] == atomid and r2[0][1][2][1] == cn and \
            r2[0][1][1][1].strip() == "" and r2[0][1][3][1].strip() == "" and r2[0][1][3][1] != ""
        run.ob("R-PROTO", fq, f"{tag}:lead{nm}", True if ok_lead else None, f"{nm}: a row starts with `id cn ` (1-based centre id, number of entries that follow)", str([s_[0] for s_ in r2[0][1]]) if r2 else "?",
               witness=None if ok_lead else "cn field differs from the number of entries / id not the centre id", loc=fi.loc())
        ok_end = len(r2) == 2 and r2[1][1] == [("lit", "\n")] and r2[1][0].seq > max((w.seq for w, _ in r3), default=-1)
        run.ob("R-PROTO", fq, f"{tag}:newline{nm}", True if ok_end else None, f"{nm}: each row is terminated by one newline after its entries", "", witness=None if ok_end else "rows glued together", loc=fi.loc())
        ok_ent = None
        detail = ""
        if len(r3) == 1:
            w3, s3 = r3[0]
            Lk = it.loops[w3.loops[2]]
            okb = eqv(Lk.iter, ("call", "builtins.range", (cn,), ()))
            kinds = [s_[0] for s_ in s3]
            val = s3[0][1] if s3 and s3[0][0] == "int" else None
            sep = len(s3) == 2 and s3[1][0] == "lit" and s3[1][1].strip() == "" and s3[1][1] != ""
            cursor = None
            okcol_ = True
            if val is not None and val[0] == "sub":
                if fmt == "int" and val[1] == NLIST and val[2][0] == "tuple" and len(val[2][1]) == 2:
                    cursor = val[2][1][0]
                    okcol_ = eqv(val[2][1][1], C(1))       # column 1 of the bond list = the neighbour of the bond
                if fmt == "float" and val[1] == ("attr", ("attr", voro, "nlist"), "weights"):
                    cursor = val[2]
            okcur = cursor is not None and cursor[0] == "mu" and cursor[1] == Lk.id
            ok_ent = tri(okb, True if sep else None, True if okcur else None, okcol_)
            if val is not None and any(x[0] == "undef" for x in walk(val)):
                ok_ent = False         # the entry index reads a local that has no value yet in the first frame (UnboundLocalError)
                detail += " ; index read before assignment"
            detail = f"inner loop {show(Lk.iter)[:60]}, entry {show(val)[:60] if val else None}"
            if okcur:
                # the cursor: initialised to 0 per frame, +1 per entry
                incs = [e for e in it.events if e.kind == "aug" and e.data["name"] == cursor[2] and e.loops == w3.loops]
                init = [e for e in it.events if e.kind == "assign" and e.data["name"] == cursor[2] and e.loops == (Lf.id,)]
                okinc = tri_lazy(lambda: (True if (len(incs) == 1) else None), lambda: (True if (incs[0].data["op"] == "+") else None), lambda: eqv(incs[0].data["value"], C(1)), lambda: (True if (len(init) == 1) else None), lambda: eqv(init[0].data["value"], C(0)), lambda: (True if (incs[0].seq > w3.seq) else None))
                if not [e for e in it.events if e.kind == "assign" and e.data["name"] == cursor[2] and Lf.id in e.loops]:
                    okinc = False      # the cursor into this frame's bond list is never reset inside the frame loop
                run.ob("R-IDX", fq, f"{tag}:cursor{nm}", okinc, "the bond cursor starts at 0 in every frame and advances by one per written entry", f"{len(incs)} increments, {len(init)} initialisations",
                       witness=None if okinc else "entries repeated / skipped; second frame starts mid-list", loc=fi.loc(), sound=True) if nm == ".neighbor.dat" else None
        run.ob("R-PROTO", fq, f"{tag}:entries{nm}", ok_ent, f"{nm}: exactly cn blank-separated entries follow, taken from consecutive bonds " + ("(neighbour id, 1-based)" if fmt == "int" else "(bond weight)"), detail,
               witness=None if ok_ent else "number of entries differs from cn / wrong column / wrong bond", loc=fi.loc(), sound=True)
    ro = rowsegs(wo, 2)
    okov = tri_lazy(lambda: (True if (len(ro) == 1) else None), lambda: (True if ([s_[0] for s_ in ro[0][1]] == ["int", "lit", "int", "lit", "int", "lit"]) else None), lambda: (True if (ro[0][1][0][1] == atomid) else None), lambda: (True if (ro[0][1][2][1] == cn) else None), lambda: _vol_index(ro[0][1][4][1], voro, i), lambda: (True if (ro[0][1][5][1] == "\n") else None))
    run.ob("R-PROTO", fq, f"{tag}:overall-row", okov, "overall file: one `id cn volume` line per particle (volume of that particle)", str([s_[0] for s_ in ro[0][1]]) if ro else "?",
           witness=None if okov else "volume of another particle / fields permuted", loc=fi.loc(), sound=True)
    # order guard
    rs = [e for e in it.events if e.kind == "raise" and e.loops == (Lf.id, Li.id)]
    okg = None
    if len(rs) == 1 and rs[0].guards:
        g = rs[0].guards[-1][0]
        conds = set(g[2]) if g[0] == "bool" and g[1] == "or" else {g}
        c1 = any(c[0] == "cmp" and c[1] == "!=" and {c[2], c[3]} == {atomid, ("sub", NLIST, ("tuple", (("sym", "?"), C(0))))} for c in conds)
        c_sorted = any(c[0] == "cmp" and c[1] == "!=" and atomid in (c[2], c[3]) and any(x[0] == "mu" for x in walk(c)) for c in conds)
        c_dense = any(c[0] == "cmp" and c[1] == "!=" and atomid in (c[2], c[3]) and (("bin", "+", i, C(1)) in (c[2], c[3]) or ("bin", "+", C(1), i) in (c[2], c[3])) for c in conds)
        okg = True if (c_sorted and c_dense) else None
    run.ob("R-IDX", fq, f"{tag}:order-guard", okg, "rows are in id order with no id missing: row i must be id i+1 and the bond cursor must sit on that id, else the call raises", f"{len(rs)} raise",
           witness=None if okg else "a particle without neighbours shifts all later rows; reader places rows by id but volumes are indexed by row", loc=fi.loc())


def _vol_index(t, voro, i):
    """volumes[i] of the row's particle; an index carried by the bond cursor (a loop-carried counter) is another quantity"""
    r = eqv(t, ("sub", ("attr", voro, "volumes"), i))
    if r is None and t[0] == "sub" and t[1] == ("attr", voro, "volumes") and t[2][0] == "mu":
        return False
    return r


def check_volume_matrix(run, pkg):
    for tm in (True, False):
        def assume(c, tm=tm):
            if c == ("sym", "transform_matrix"):
                return tm
            return None
        it = Interp(pkg, pkg.func(f"{MOD}.VolumeMatrix"), assume=assume)
        fi = it.fi
        fq = short(fi.qual)
        tag = "transformed" if tm else "raw"
        CONV = ("call", pkg.func(f"{MOD}.convert_configuration").qual, (SN,), ())
        nc, nd, dr = ("sym", "nconfig"), ("sym", "ndim"), ("sym", "deltar")
        if tm:
            # frame selection, sizes, finite differences: checked once
            pts = None
            for e in it.events:
                if e.kind == "assign" and e.data["name"] == "points":
                    pts = e.data["value"]
            okp = eqv(pts, ("call", "numpy.array", (("sub", ("elem", CONV, 1), nc),), ()), ("call", "numpy.copy", (("sub", ("elem", CONV, 1), nc),), ()), ("call", ".copy", (("sub", ("elem", CONV, 1), nc),), ()), same=True)
            alias = pts == ("sub", ("elem", CONV, 1), nc)
            if alias:
                okp = False
            run.ob("R-IDX", fq, "frame:points", okp, "points = a copy of the converted coordinates of frame nconfig", show(pts)[:80] if pts else "?",
                   witness=None if okp else ("the caller's positions are displaced in place (alias of snapshot.positions for origin-centred boxes)" if alias else "coordinates of another frame"), loc=fi.loc(), sound=True)
            mats = [e for e in it.events if e.kind == "assign" and e.data["value"][0] == "call" and e.data["value"][1] == "numpy.zeros"]
            Np = ("sub", ("attr", pts, "shape"), C(0)) if pts else None
            okm = tri_lazy(lambda: (True if (bool(mats)) else None), lambda: eqv(mats[0].data["value"][2][0], ("tuple", (Np, ("bin", "*", Np, nd)))))
            badax = bool(mats) and any(x == ("sub", ("attr", pts, "shape"), nc) for x in walk(mats[0].data["value"]))
            if badax:
                okm = False
            run.ob("R-IDX", fq, "frame:size", okm, "the matrix is N x (N ndim) with N = number of points (axis 0 of the coordinates)", show(mats[0].data["value"])[:80] if mats else "?",
                   witness=None if okm else ("the frame index is used as an axis number: nconfig = 1 gives N = 3" if badax else "matrix shape wrong"), loc=fi.loc(), sound=True)
            voc = [e for e in it.events if e.kind == "call" and e.data["call"][1] == ".compute"]
            okbox = tri(*[tri(eqv(e.data["call"][2][1][1][0], ("sub", ("elem", CONV, 0), nc)), eqv(e.data["call"][2][1][1][1], pts)) if (e.data["call"][2][1][0] == "tuple" and len(e.data["call"][2][1][1]) == 2) else None for e in voc]) if voc else None
            run.ob("R-IDX", fq, "frame:box", okbox, "every tessellation uses the box of frame nconfig and the working copy of its points", f"{len(voc)} tessellations",
                   witness=None if okbox else "box of frame 0 used for frame nconfig", loc=fi.loc(), sound=True)
            # perturbation sequence on points[i, j]
            pst = [e for e in stores(it) if e.data["target"][1] == pts and len(e.loops) == 2]
            okseq = None
            if pst:
                Li, Lj = it.loops[pst[0].loops[0]], it.loops[pst[0].loops[1]]
                i, j = Li.target, Lj.target
                d = sp.Symbol("d")
                tot = 0
                steps = []
                for e in pst:
                    if e.data["target"][2] != ("tuple", (i, j)) or e.data["op"] not in ("+", "-"):
                        steps = None
                        break
                    v = S.Translator(lambda t: d if t == dr else None).tr(e.data["value"])
                    steps.append(v if e.data["op"] == "+" else -v)
                if steps and all(x.free_symbols <= {d} for x in steps):
                    # in-place steps that are multiples of delta only: positions visited = partial sums (exact)
                    visited = [sp.expand(sum(steps[:k_ + 1])) for k_ in range(len(steps))]
                    okseq = bool(len(steps) == 3 and sp.expand(steps[0] - d) == 0 and sp.expand(steps[0] + steps[1] + d) == 0 and sp.expand(sum(steps)) == 0)
                    if not okseq and visited[-1] == 0 and set(visited[:-1]) == {d, -d}:
                        okseq = True
                okdom = tri_lazy(lambda: eqv(Li.iter, ("call", "builtins.range", (Np,), ())), lambda: eqv(Lj.iter, ("call", "builtins.range", (nd,), ())))
                run.ob("R-LOOPDOM", fq, "perturbation:domain", okdom, "every coordinate of every particle is displaced", f"{show(Li.iter)[:40]} x {show(Lj.iter)[:30]}", witness=None if okdom else "coordinates skipped", loc=fi.loc(), sound=True)
            run.ob("R-ALG", fq, "perturbation:sequence", okseq, "coordinate (i, j) is moved to +delta, then to -delta, then restored (net displacement 0)", f"{len(pst)} in-place steps",
                   witness=None if okseq else "the particle is not restored / not displaced to +delta and -delta: derivatives are taken around a drifting configuration or one-sided", loc=fi.loc(), sound=True)
            blk = [e for e in stores(it) if len(e.loops) == 2 and e.data["target"][2][0] == "tuple" and e.data["target"][1] != pts]
            okblk = None
            if len(blk) == 1 and len(pst) == 3:
                e = blk[0]
                row, col = e.data["target"][2][1]
                v = e.data["value"]
                V = sp.Symbol("V1"), sp.Symbol("V2")
                vols = [x for x in walk(v) if x[0] == "attr" and x[2] == "volumes"]
                okcol = eqv(col, ("bin", "+", ("bin", "*", nd, i), j))
                cond = row
                okrow = cond[0] == "cmp" and cond[1] == "!=" and i in (cond[2], cond[3]) and any(x[0] == "call" and x[1] == "numpy.arange" for x in walk(cond))
                okval = v[0] == "sub" and v[2] == cond
                core = v[1] if okval else v
                dS = sp.Symbol("d", positive=True)
                uniq = []
                for x in vols:
                    if x not in uniq:
                        uniq.append(x)
                okfd = False
                if len(uniq) >= 2:
                    # with untracked allocations both computes look alike; compare the form (A - B)/2/d structurally
                    pass
                form = core[0] == "bin" and core[1] == "/" and core[3] == dr and core[2][0] == "bin" and core[2][1] == "/" and core[2][3] == C(2) and core[2][2][0] == "bin" and core[2][2][1] == "-"
                form2 = core[0] == "bin" and core[1] == "/" and core[2][0] == "bin" and core[2][1] == "-" and core[3] in (("bin", "*", C(2), dr), ("bin", "*", dr, C(2)))
                okblk = tri(okcol, True if (okrow and okval and (form or form2)) else None)
            run.ob("R-ALG", fq, "off-diagonal", okblk, "column ndim*i + j of every other particle's row receives (V+ - V-)/(2 delta) of that particle", key_of(blk[0])[:100] if blk else "?",
                   witness=None if okblk else "derivative stored in the wrong column / includes the displaced particle / not a central difference", loc=fi.loc(), sound=True)
            selfb = [e for e in stores(it) if len(e.loops) == 1 and e.data["target"][2][0] == "tuple" and e.data["target"][1] != pts]
            oks = None
            if len(selfb) == 1 and blk:
                e = selfb[0]
                L = it.loops[e.loops[0]]
                ii = L.target
                A = e.data["target"][1]
                row, col = e.data["target"][2][1]
                lo = ("bin", "*", nd, ii)
                okslice = tri_lazy(lambda: (True if (row == ii) else None), lambda: (True if (col[0] == "slice") else None), lambda: (True if (col[1] in (lo, ("bin", "*", ii, nd))) else None), lambda: eqv(col[2], ("bin", "+", lo, nd), ("bin", "+", ("bin", "*", ii, nd), nd)))
                want = ("un", "-", ("call", ".sum", (("call", ".reshape", (("sub", A, ii), Np, nd), ()),), (("axis", C(0)),)))
                lxe = [x for x in it.events if x.kind == "loop_exit" and x.data["loop"] == blk[0].loops[0]]
                oks = tri_lazy(lambda: (True if (okslice) else None), lambda: eqv(e.data["value"], want), lambda: eqv(L.iter, ("call", "builtins.range", (Np,), ())), lambda: (True if (lxe) else None), lambda: (True if (e.seq > lxe[0].seq) else None), lambda: (True if (A == blk[0].data["target"][1]) else None))
            wit_self = "rows do not sum to zero: a rigid translation changes the cell volumes"
            if oks is not True:
                # a literal stride / block width where the dimension belongs: right for one dimension only
                for e_ in stores(it):
                    if e_.data["target"][1] != pts and any(x[0] == "slice" and is_const(x[3]) and isinstance(x[3][1], int) and x[3][1] in (2, 3) for x in walk(e_.data["value"])) \
                            and any(x == nd for x in walk(e_.data["target"][2])):
                        k_ = [x[3][1] for x in walk(e_.data["value"]) if x[0] == "slice" and is_const(x[3]) and isinstance(x[3][1], int) and x[3][1] in (2, 3)][0]
                        oks = False
                        wit_self = (f"the self term sums columns with the literal stride {k_} while the blocks are ndim wide: for ndim = {5 - k_} the sum runs over the wrong columns "
                                    f"and the rows no longer sum to zero")
                        break
            run.ob("R-ALG", fq, "self-block", oks, "after all off-diagonal blocks are filled, block (i, i) = - sum over particles of row i's blocks (the row then sums to zero per displaced coordinate)", key_of(selfb[0])[:100] if selfb else "?",
                   witness=None if oks else wit_self, loc=fi.loc(), sound=True)
            nrm = [e for e in it.events if e.kind == "aug" and e.data["op"] == "/" and not e.loops]
            orig = [e.data["value"] for e in it.events if e.kind == "assign" and e.data["name"] == "original"]
            okn = True if (len(nrm) == 1 and orig and col_bcast(nrm[0].data["value"]) == orig[0] and nrm[0].data["value"] != orig[0] and selfb and nrm[0].seq > selfb[0].seq) else None
            if okn is None and len(nrm) == 1 and nrm[0].data["value"][0] == "sub" and nrm[0].data["value"][2] == ("tuple", (NEWAX, FULL)):
                okn = False        # a row vector divides the columns, not the rows
            run.ob("R-ALG", fq, "normalisation", okn, "each row is divided by the unperturbed volume of its particle, after the self block", key_of(nrm[0])[:60] if nrm else "?", witness=None if okn else "normalised by column / before the self block", loc=fi.loc(), sound=True)
        # save = return
        rets = [r for r in it.returns]
        sv = [e for e in it.events if e.kind == "call" and e.data["call"][1] == "numpy.save"]
        okr = len(rets) == 1
        oks = okr and all(e.data["call"][2][0] == ("sym", "outputfile") and e.data["call"][2][1] == rets[0].data["value"] for e in sv) and len(sv) >= 1
        run.ob("R-SAVE", fq, f"{tag}:file", oks, f"with transform_matrix={tm} the file holds the returned matrix (path first, array second)", f"{len(sv)} saves, {len(rets)} returns",
               witness=None if oks else "np.save arguments swapped / file holds another matrix than the one returned", loc=fi.loc(), sound=True)
        if tm and okr:
            A = sp.Symbol("A", commutative=False)
            ret = rets[0].data["value"]
            # A^T (A A^T)^-1 A
            want = None
            nrm_new = [e.data["new"] for e in it.events if e.kind == "aug" and e.data["op"] == "/" and not e.loops]
            if nrm_new:
                M = nrm_new[0]
                MT = ("attr", M, "T")
                want = ("call", "numpy.matmul", (("call", "numpy.matmul", (MT, ("call", "numpy.linalg.inv", (("call", "numpy.matmul", (M, MT), ()),), ())), ()), M), ())
            okt = True if (want is not None and ret == want) else None
            run.ob("R-ALG", fq, "transform", okt, "transformed matrix = A^T (A A^T)^-1 A", show(ret)[:60], witness=None if okt else "projector formula changed", loc=fi.loc())
