"""C09 - 3D bond-orientational order equals Steinhardt's definitions.

R-ANGLE   bond angles: polar = arccos(z/|r|), azimuth = arctan2(y, x) of the *imaged* neighbour - centre vectors; the harmonics
          routine is called as (l, polar[j], azimuth[j]) matching its parameter roles.
R-PBC     bond vectors = remove_pbc(positions[neighbours of i] - positions[i], the frame's cell, the instance mask).
R-IDX     neighbours of i are columns 1..cn_i of its row; m -> index shift + l for the Wigner table.
R-ALG     single normalisation (unweighted: / cn once; weighted: weights / row sum, no further division), coarse graining
          (q_i + sum_j q_j)/(1 + cn_i) from the local vectors, q_l, s_ij and its thresholded count, w_l and w-hat_l,
          correlation normalisations.
R-ALIGN   weight k belongs to neighbour k; s_ij pairs particle i with its own neighbours in the same frame.
R-LOOPDOM all frames / particles / neighbours; Wigner table over the full cube with m1 + m2 + m3 = 0.
R-API     imported third-party names resolve (spherical-harmonics module and wigner_3j).
"""
from __future__ import annotations

import sympy as sp

from .common import *  # noqa
from .boolib import *  # noqa
from .grlib import is_rowwise_norm, no_wrap_possible, find_inline_image
from ..vg import Interp

CLS = "static.boo.boo_3d"
SELF = ("sym", "self")
SNAPS = ("attr", ("attr", SELF, "snapshots"), "snapshots")
LDEG = ("attr", SELF, "l")
WF = ("attr", SELF, "weightsfile")
SPH = "PyMatterSim.utils.spherical_harmonics.sph_harm_l"


def run(run: Run, pkg: Package) -> None:
    run.explanation = (
        "boo_3d.qlm_Qlm is interpreted for the unweighted and the weighted configuration; bond vectors, angles, the harmonics "
        "call, the accumulation, its single normalisation, the weight/neighbour alignment and the coarse-graining step are "
        "matched against the definition. ql_Ql, sij_ql_Ql, w_W_cap, spatial_corr and time_corr are compared as formulas over "
        "the stored vectors (local or coarse-grained by the flag); the Wigner index table is checked as a loop-domain rule.")
    for weighted in (False, True):
        check_qlm(run, pkg, weighted)
    check_init(run, pkg)
    for coarse in (False, True):
        check_ql(run, pkg, coarse)
        check_sij(run, pkg, coarse)
        check_w(run, pkg, coarse)
        check_corr(run, pkg, coarse)
    check_wigner(run, pkg)
    check_api(run, pkg)
    run.minimum("R-ANGLE", 6)
    run.minimum("R-ALG", 28)
    run.minimum("R-PBC", 6)


def qlm_interp(pkg, weighted):
    def assume(c):
        if c == WF:
            return weighted
        if c == ("un", "not", WF):
            return not weighted
        return None
    return Interp(pkg, pkg.func(f"{CLS}.qlm_Qlm"), assume=assume)


def check_qlm(run, pkg, weighted):
    it = qlm_interp(pkg, weighted)
    fi = it.fi
    fq = short(fi.qual)
    v = "weighted" if weighted else "plain"
    acc = [e for e in stores(it) if e.data["op"] == "+" and any(x[0] == "call" and x[1] == SPH for x in walk(e.data["value"]))]
    if len(acc) != 1 or len(acc[0].loops) != 3:
        raise AnalysisError(f"{fq}[{v}]: expected one accumulation of sph_harm_l inside frame/particle/neighbour loops, found {len(acc)}")
    ev = acc[0]
    loc = loc_of(it, ev)
    Lf, Li, Lj = (it.loops[l] for l in ev.loops)
    snap, i, j = Lf.target, Li.target, Lj.target
    Z = ev.data["target"][1]
    # neighbour table of the frame
    rd = [e for e in calls(it, READER) if set(e.loops) == {Lf.id}]
    NL = None
    Wsrc = None
    for e in rd:
        h = kw(e.data["call"], "f", 0)
        fn = h[2][0] if h is not None and h[0] == "call" and h[1] == "builtins.open" and h[2] else None
        if fn == ("attr", SELF, "neighborfile"):
            NL = e.data["result"]
        elif fn == WF:
            Wsrc = e.data["result"]
    if NL is None:
        raise AnalysisError(f"{fq}[{v}]: neighbour table not read from self.neighborfile in the frame loop")
    okf = eqv(Lf.iter, SNAPS)
    run.ob("R-LOOPDOM", fq, f"{v}:frames", okf, "every frame is processed", show(Lf.iter)[:50], witness=None if okf else "frames skipped", loc=fi.loc(Lf.node), sound=True)
    okp = eqv(Li.iter, ("call", "builtins.range", (("attr", snap, "nparticle"),), ()))
    run.ob("R-LOOPDOM", fq, f"{v}:particles", okp, "every particle gets a vector", show(Li.iter)[:50], witness=None if okp else "particles skipped", loc=fi.loc(Li.node), sound=True)
    okj = eqv(Lj.iter, ("call", "builtins.range", (nbr_count(NL, i),), ()))
    run.ob("R-LOOPDOM", fq, f"{v}:neighbours", okj, "the sum runs over all cn_i neighbours of particle i", show(Lj.iter)[:80],
           witness=None if okj else "neighbours skipped / padding zeros (particle 0) counted as neighbours", loc=fi.loc(Lj.node), sound=True)
    okrow = eqv(ev.data["target"][2], i)
    run.ob("R-IDX", fq, f"{v}:row", okrow, "contributions of particle i's bonds are added to row i", show(ev.data["target"][2]), witness=None if okrow else "stored at another particle's row", loc=loc, sound=True)
    shp = Z[2][0] if Z[0] == "call" and Z[1] == "numpy.zeros" and Z[2] else None
    oksh = tri_lazy(lambda: (True if (shp is not None) else None), lambda: (True if (shp[0] == "tuple") else None), lambda: (True if (len(shp[1]) == 2) else None), lambda: eqv(shp[1][0], ("attr", snap, "nparticle")), lambda: (True if (S.decide_equal(S.to_sympy(shp[1][1], lambda t: sp.Symbol("l") if t == LDEG else None), 2 * sp.Symbol("l") + 1)[0] is True) else None), lambda: eqv(kw(Z, "dtype"), ("mod", "numpy.complex128"), ("builtin", "complex")))
    run.ob("R-ALG", fq, f"{v}:shape", oksh, "per-frame array is complex zeros of shape (nparticle, 2l+1)", show(Z)[:80], witness=None if oksh else "m = -l..l does not fit / real dtype drops phases", loc=loc, sound=True)
    # ---- the harmonic call and its optional weight factor
    val = ev.data["value"]
    call, wfac = val, None
    if val[0] == "bin" and val[1] == "*":
        a, b = val[2], val[3]
        call, wfac = (a, b) if (a[0] == "call" and a[1] == SPH) else (b, a)
    if not (call[0] == "call" and call[1] == SPH):
        run.ob("R-ANGLE", fq, f"{v}:call", None, "summand is sph_harm_l(...) [* weight]", show(val)[:100], loc=loc)
        return
    params = pkg.func(SPH).params
    args = list(call[2]) + [None] * 3
    bound = {params[k]: call[2][k] for k in range(min(len(params), len(call[2])))}
    bound.update(dict(call[3]))
    okl = eqv(bound.get("l"), LDEG)
    run.ob("R-ANGLE", fq, f"{v}:degree", okl, "the harmonics are evaluated at the instance's degree l", show(bound.get("l"))[:30] if bound.get("l") else "?", witness=None if okl else "another degree", loc=loc, sound=True)
    th, ph = bound.get("theta"), bound.get("phi")
    if th is None or ph is None or not (th[0] == "sub" and ph[0] == "sub"):
        run.ob("R-ANGLE", fq, f"{v}:call", None, "harmonics called with per-bond (theta, phi)", show(call)[:100], loc=loc)
        return
    okidx = tri(eqv(th[2], j), eqv(ph[2], j))
    run.ob("R-ALIGN", fq, f"{v}:bond-index", okidx, "both angles belong to bond j of the neighbour loop", f"theta[{show(th[2])}], phi[{show(ph[2])}]",
           witness=None if okidx else "polar and azimuth angles of different bonds combined", loc=loc, sound=True)
    TH, PH = th[1], ph[1]
    # locate the bond-vector term: operand of arccos / arctan2
    B = None
    for x in walk(TH):
        if x[0] == "call" and x[1] == "PyMatterSim.utils.pbc.remove_pbc":
            B = x
            break
    if B is None:
        raw = [x for x in walk(TH) if x[0] == "bin" and x[1] == "-" and any(y[0] == "attr" and y[2] == "positions" for y in walk(x))]
        # definite only when nothing in the angle's value could wrap the raw displacement
        unwrapped = bool(raw) and no_wrap_possible(TH) and no_wrap_possible(PH)
        run.ob("R-PBC", fq, f"{v}:image", False if unwrapped else None, "bond vectors are minimum-image vectors", show(TH)[:100],
               witness="a bond across the periodic boundary points the wrong way: its Y_lm is that of a box-length vector" if unwrapped else None, loc=loc, sound=True)
        return
    pol = polar_angle(TH, B)
    azi = azimuth_angle(PH, B)
    swapped = polar_angle(PH, B) == "ok" and azimuth_angle(TH, B) == "ok"
    if pol is None and not swapped:
        pol = angle_by_evaluation(TH, B, "polar")          # a differing sample direction, or None
    if azi is None and not swapped:
        azi = angle_by_evaluation(PH, B, "azimuth")
    run.ob("R-ANGLE", fq, f"{v}:polar", (pol == "ok") if pol is not None else (False if swapped else None), "theta passed to sph_harm_l is the polar angle arccos(z/|r|) of the imaged bond vector",
           show(TH)[:80] if pol in (None, "ok") else pol, witness=None if pol == "ok" else ("azimuth passed as theta and polar as phi" if swapped else pol), loc=loc, sound=True)
    run.ob("R-ANGLE", fq, f"{v}:azimuth", (azi == "ok") if azi is not None else (False if swapped else None), "phi passed to sph_harm_l is the azimuth arctan2(y, x) of the imaged bond vector",
           show(PH)[:80] if azi in (None, "ok") else azi, witness=None if azi == "ok" else ("arguments swapped" if swapped else azi), loc=loc, sound=True)
    bv = bond_vectors(B)
    if bv is None:
        run.ob("R-PBC", fq, f"{v}:bond", None, "bond vector form recognised", show(B)[:100], loc=loc)
    else:
        okb = tri(eqv(bv["snap"], snap), nbr_slice_tri(bv["left"], NL, i), eqv(bv["right"], i))
        rev = bv["snap"] == snap and is_nbr_slice_gather(bv["right"], NL, i) and bv["left"] == i
        if rev:
            okb = False
        run.ob("R-PBC", fq, f"{v}:bond", okb, "bond vectors are positions[neighbours of i] - positions[i] within the frame", f"[{show(bv['left'])[:60]}] - [{show(bv['right'])[:30]}]",
               witness=None if okb else ("centre - neighbour: every bond reversed, odd-l harmonics change sign (w_l for odd l flips)" if rev else "bond vectors do not join i to its listed neighbours"), loc=loc, sound=True)
        okh = eqv(bv["H"], ("attr", snap, "hmatrix"))
        run.ob("R-PBC", fq, f"{v}:cell", okh, "minimum image uses the frame's cell", show(bv["H"])[:50], witness=None if okh else "cell of another frame", loc=loc, sound=True)
        okm = eqv(bv["ppp"], ("attr", SELF, "ppp")) if bv["ppp"] is not None else False
        run.ob("R-PBC", fq, f"{v}:mask", okm, "the instance's periodicity mask is forwarded", show(bv["ppp"])[:40] if bv["ppp"] else "default", witness=None if okm else "mask dropped", loc=loc, sound=True)
    # ---- normalisation
    lx = [e for e in it.events if e.kind == "loop_exit" and e.data["loop"] == Li.id]
    divs = [e for e in it.events if e.kind == "aug" and e.data["op"] == "/" and e.data["old"] == Z] + \
           [e for e in stores(it) if e.data["op"] == "/" and e.data["target"][1] == Z]
    cn_col = ("sub", NL, ("tuple", (FULL, C(0))))
    if not weighted:
        run.ob("R-ALG", fq, "plain:no-weight", True if wfac is None else None, "unweighted bonds contribute with weight 1", show(wfac)[:60] if wfac else "none", loc=loc)
        ok = len(divs) == 1 and divs[0].kind == "aug" and set(divs[0].loops) == {Lf.id} and lx and divs[0].seq > lx[0].seq and col_bcast(divs[0].data["value"]) == cn_col \
            and divs[0].data["value"] != cn_col
        if not ok:
            by_cn = [d for d in divs if eqv(col_bcast(d.data["value"]), cn_col) is True]
            # definite: the pure bond sum is what leaves the routine (no division anywhere, summand is the bare harmonic), or
            # the sum is divided by cn more than once
            if not divs and wfac is None and _returned_local(it) == Z:
                ok = False
            elif len(by_cn) >= 2 and len(by_cn) == len(divs):
                ok = False
            else:
                ok = None
        run.ob("R-ALG", fq, "plain:mean", ok, "the sum over bonds is divided by cn_i exactly once per frame, after the particle loop (mean over neighbours)",
               f"{len(divs)} divisions" + (f": {key_of(divs[0])[:80]}" if divs else ""),
               witness=None if ok else ("q_lm is the bond sum, not the bond average: q_l grows with cn" if not divs else "divided more than once / by another quantity: q_l is not in [0, 1]"), loc=loc, sound=True)
        q_final = divs[0].data["new"] if ok else Z
        if ok is not True and not divs:
            # the mean is formed out of place where the frame is appended (`list.append(Z / cn)`): the local vector of the frame is
            # that quotient; the coarse-graining step must then start from it too - reading the accumulator Z itself means raw sums
            app = [e for e in it.events if e.kind == "call" and e.data["call"][1] == ".append" and len(e.data["call"][2]) == 2 and Lf.id in e.loops]
            quot = [e.data["call"][2][1] for e in app if e.data["call"][2][1][0] == "bin" and e.data["call"][2][1][1] == "/" and e.data["call"][2][1][2] == Z
                    and eqv(col_bcast(e.data["call"][2][1][3]), cn_col) is True]
            if len(quot) == 1:
                copies = [e.data["value"] for e in it.events if e.kind == "assign" and e.data["value"][0] == "call" and e.data["value"][1] in ("numpy.copy", ".copy", "numpy.array")
                          and e.data["value"][2] and Lf.id in e.loops]
                reads_raw = any(c[2][0] == Z for c in copies)
                reads_mean = any(c[2][0] == quot[0] for c in copies)
                if reads_raw and not reads_mean:
                    run.ob("R-ALG", fq, "plain:coarse:operand", False, "coarse graining averages the NORMALISED local vectors q_lm(i) (the values appended for the frame)",
                           f"the frame appends {show(quot[0])[:60]} but the coarse-graining step copies and sums {show(Z)[:40]}, the raw bond sums",
                           witness="cn = 12 for every particle: Q_lm comes out 12 times too large (Q_l > 1)", loc=loc, sound=True)
    else:
        by_cn = [d for d in divs if eqv(col_bcast(d.data["value"]), cn_col) is True]
        run.ob("R-ALG", fq, "weighted:no-second-division", True if not divs else (False if by_cn else None), "weighted sums are not divided by cn again (weights already sum to 1)", f"{len(divs)} divisions",
               witness=None if not divs else "equal weights would give q_lm / cn instead of the unweighted q_lm", loc=loc, sound=True)
        okw = None
        detail = show(wfac)[:100] if wfac else "no weight factor"
        if wfac is not None and wfac[0] == "sub" and wfac[2][0] == "tuple" and len(wfac[2][1]) == 2:
            frac = wfac[1]
            wi, wj = wfac[2][1]
            Wt = None
            if frac[0] == "bin" and frac[1] == "/":
                Wt, den = frac[2], col_bcast(frac[3])
                okden = tri_lazy(lambda: eqv(den, ("call", ".sum", (Wt,), (("axis", C(1)),)), ("call", "numpy.sum", (Wt,), (("axis", C(1)),))), lambda: (True if (frac[3] != den) else None))
                run.ob("R-ALG", fq, "weighted:normalised", okden, "weights of a particle are divided by their row sum", show(frac[3])[:80],
                       witness=None if okden else "weights 2, 2 (equal): the result differs from the unweighted mean", loc=loc, sound=True)
            # column offset of the weight table relative to the neighbour index
            off = None
            base = Wt
            if Wt is not None and Wt[0] == "sub" and Wt[1] == Wsrc and Wt[2] == ("tuple", (FULL, ("slice", C(1), NONE, NONE))):
                off = 1
            elif Wt is not None and Wt == Wsrc:
                off = 0
            jj = _const_offset(wj, j)
            # integer offsets of recognised column slices / index expressions: a definite verdict either way
            okw = tri(eqv(wi, i), None if (off is None or jj is None) else (off + jj == 1))
            detail = f"weights table column offset {off}, index {show(wj)}"
            if off == 1 and Wsrc is not None:
                # the row sum must then exclude the count column - it does, being taken of the sliced table
                pass
            if off == 0 and Wt is not None:
                run.ob("R-ALG", fq, "weighted:count-column", False, "the row sum of the weights excludes column 0 (the coordination number)", show(Wt)[:60],
                       witness="cn = 12 is added to the weight sum", loc=loc, sound=True)
        run.ob("R-ALIGN", fq, "weighted:alignment", okw, "bond j of particle i is weighted with entry j of its weight row (column j + 1 of the file table)", detail,
               witness=None if okw else "weights shifted by one bond: the count column weights the first bond / last weight unused", loc=loc, sound=True)
        okW = True if Wsrc is not None else None
        run.ob("R-HANDLE", fq, "weighted:source", okW, "weights of the frame are read from self.weightsfile in the frame loop", show(Wsrc)[:60] if Wsrc else "?", witness=None if okW else "weights not read per frame", loc=loc)
        q_final = Z
    # ---- coarse graining
    cg = [e for e in stores(it) if e.data["op"] == "+" and e is not ev and len(e.loops) == 3 and e.loops[0] == Lf.id]
    cg2 = [e for e in stores(it) if e.data["op"] == "+" and e is not ev and len(e.loops) == 2 and e.loops[0] == Lf.id]
    if not cg and len(cg2) == 1:
        # vectorised over the neighbours of particle i
        ce = cg2[0]
        ci = it.loops[ce.loops[1]].target
        Q = ce.data["target"][1]
        tgt, src = ce.data["target"][2], ce.data["value"]
        gather = tgt == ci and src in (("call", ".sum", (("sub", q_final, ("sub", NL, ("tuple", (ci, ("slice", C(1), ("bin", "+", nbr_count(NL, ci), C(1)), NONE))))),), (("axis", C(0)),)),
                                       ("call", ".sum", (("sub", q_final, ("sub", NL, ("tuple", (ci, ("slice", C(1), ("bin", "+", C(1), nbr_count(NL, ci)), NONE))))),), (("axis", C(0)),)))
        src_core = src
        while src_core[0] == "sub" and (src_core[2] in (NEWAX, FULL, NONE) or (src_core[2][0] == "tuple" and all(x in (NEWAX, FULL, NONE) for x in src_core[2][1]))):
            src_core = src_core[1]          # row_i[np.newaxis, :] and the like only add broadcast axes
        scatter = is_nbr_slice(tgt, NL, ci) and src_core == ("sub", q_final, ci)
        run.ob("R-ALG", fq, f"{v}:coarse:sum", True if gather else (False if scatter else None), "particle i gathers the local vectors of its listed neighbours (row i receives, columns 1..cn_i give)",
               key_of(ce)[:100], witness=None if gather else ("q_i is scattered onto i's neighbours: equals the gather only for symmetric neighbour relations (not for N-nearest lists)" if scatter else None),
               loc=loc_of(it, ce), sound=True)
        return
    if len(cg) != 1:
        run.ob("R-ALG", fq, f"{v}:coarse", None, "coarse-graining accumulation found", f"{len(cg)} candidates", loc=fi.loc())
        return
    ce = cg[0]
    Lci, Lcj = it.loops[ce.loops[1]], it.loops[ce.loops[2]]
    ci, cj = Lci.target, Lcj.target
    Q = ce.data["target"][1]
    okstart = True if (Q[0] == "call" and Q[1] in ("numpy.copy", ".copy", "numpy.array") and Q[2] and Q[2][0] == q_final) else (False if Q == q_final else None)
    run.ob("R-ALG", fq, f"{v}:coarse:start", okstart, "the coarse-grained vector starts as a copy of the (normalised) local vectors: the particle itself counts once", show(Q)[:70],
           witness=None if okstart else "the local array is aliased and modified while it is still being read: the result depends on particle order", loc=loc_of(it, ce), sound=True)
    src = ce.data["value"]
    nb = ("sub", NL, ("tuple", (ci, ("bin", "+", cj, C(1)))))
    nb2 = ("sub", NL, ("tuple", (ci, ("bin", "+", C(1), cj))))
    fromQ = src[0] == "sub" and src[1] == Q
    # the neighbour column and the inner loop's range are judged together: column = j + off for j in range(lo, hi) must sweep
    # exactly columns 1 .. cn_i
    okcol = None
    if src[0] == "sub" and src[2][0] == "sub" and src[2][1] == NL and src[2][2][0] == "tuple" and len(src[2][2][1]) == 2 and \
            Lcj.iter[0] == "call" and Lcj.iter[1] == "builtins.range" and 1 <= len(Lcj.iter[2]) <= 2:
        rowi, colj = src[2][2][1]
        lo_t, hi_t = (C(0), Lcj.iter[2][0]) if len(Lcj.iter[2]) == 1 else Lcj.iter[2]
        try:
            jS, cnS = sp.Symbol("j", integer=True), sp.Symbol("cn", integer=True, nonnegative=True)
            cnt = nbr_count(NL, ci)
            tr_ = S.Translator(lambda y: jS if y == cj else (cnS if y == cnt else None))
            tr_.ufuncs = False
            col_e, lo_e, hi_e = tr_.tr(colj), tr_.tr(lo_t), tr_.tr(hi_t)
            if not tr_.atoms and sp.expand(col_e - jS).free_symbols == set():
                off = sp.expand(col_e - jS)
                okcol = tri(eqv(rowi, ci), bool(sp.expand(lo_e + off - 1) == 0 and sp.expand(hi_e + off - (cnS + 1)) == 0))
        except Exception:  # noqa
            okcol = None
    if okcol is None and src[0] == "sub":
        okcol = True if eqv(src[2], nb) is True else None
    oksrc = tri(eqv(ce.data["target"][2], ci), True if (src[0] == "sub" and src[1] == q_final) else (False if fromQ else None), okcol)
    run.ob("R-ALG", fq, f"{v}:coarse:sum", oksrc, "adds the *local* vector of neighbour j (column j + 1 of row i) to particle i", key_of(ce)[:100],
           witness=None if oksrc else ("neighbours' partially coarse-grained vectors are added: the result depends on particle order" if fromQ else "wrong neighbour column / wrong source"), loc=loc_of(it, ce), sound=True)
    okdom = tri_lazy(lambda: eqv(Lci.iter, ("call", "builtins.range", (("attr", snap, "nparticle"),), ())),
                     lambda: (True if okcol is True else eqv(Lcj.iter, ("call", "builtins.range", (nbr_count(NL, ci),), ()))))
    run.ob("R-LOOPDOM", fq, f"{v}:coarse:domain", okdom, "all particles and all their cn_i neighbours enter the coarse-graining sum", f"{show(Lci.iter)[:40]} x {show(Lcj.iter)[:60]}",
           witness=None if okdom else "neighbours skipped", loc=loc_of(it, ce), sound=True)
    lxc = [e for e in it.events if e.kind == "loop_exit" and e.data["loop"] == Lci.id]
    fin = [e for e in it.events if e.kind == "assign" and e.data["value"][0] == "bin" and e.data["value"][1] == "/" and e.data["value"][2] == Q and set(e.loops) == {Lf.id}] + \
          [e for e in it.events if e.kind == "aug" and e.data["op"] == "/" and e.data["old"] == Q and set(e.loops) == {Lf.id}]
    okdiv = None          # a division in another form (helper return, expression in place) is not known to be wrong
    if len(fin) == 1 and lxc and fin[0].seq > lxc[0].seq:
        den = fin[0].data["value"][3] if fin[0].kind == "assign" else fin[0].data["value"]
        okdiv = tri_lazy(lambda: eqv(col_bcast(den), ("bin", "+", C(1), cn_col), ("bin", "+", cn_col, C(1))), lambda: (True if (den != col_bcast(den)) else None))
    run.ob("R-ALG", fq, f"{v}:coarse:mean", okdiv, "the coarse-grained sum is divided by 1 + cn_i once, after the loops", f"{len(fin)} divisions" + (f": {key_of(fin[0])[:70]}" if fin else ""),
           witness=None if okdiv else "normalisation is not 1 + coordination number", loc=loc_of(it, fin[0]) if fin else fi.loc(), sound=True)
    # ---- returned pair
    ret = it.returns[0].data["value"] if len(it.returns) == 1 else None
    okret = None
    if ret is not None and ret[0] == "tuple" and len(ret[1]) == 2:
        a, b = ret[1]

        def appended_of(t):
            if t[0] == "call" and t[1] == "numpy.array" and t[2] and t[2][0][0] == "appended":
                return t[2][0][2]
            return None
        Qfin = fin[0].data["value"] if (fin and fin[0].kind == "assign") else (fin[0].data["new"] if fin else None)
        if appended_of(a) == q_final and appended_of(b) == Qfin:
            okret = True
        elif Qfin is not None and appended_of(a) == Qfin and appended_of(b) == q_final:
            okret = False
    run.ob("R-ALG", fq, f"{v}:return", okret, "returns (local vectors, coarse-grained vectors), one array per frame in order", show(ret)[:80] if ret else "?",
           witness=None if okret else "local and coarse-grained arrays swapped", loc=fi.loc(), sound=True)


def _returned_local(it):
    """the per-frame array appended to the first returned list"""
    ret = it.returns[0].data["value"] if len(it.returns) == 1 else None
    if ret is not None and ret[0] == "tuple" and len(ret[1]) == 2:
        t = ret[1][0]
        if t[0] == "call" and t[1] == "numpy.array" and t[2] and t[2][0][0] == "appended":
            return t[2][0][2]
    return None


def _const_offset(a, b):
    """integer c with a = b + c, or None"""
    try:
        lv = {}

        def at(t):
            if t[0] in ("loopvar", "elem", "sym"):
                return lv.setdefault(t, sp.Symbol(f"i{len(lv)}", integer=True))
            return None
        tr = S.Translator(at)
        d = sp.expand(tr.tr(a) - tr.tr(b))
        return int(d) if (d.is_Integer and not tr.atoms) else None
    except Exception:  # noqa
        return None


def _shift_ok(gi, idx):
    """m -> storage index: compare with `table + l` as integer expressions in the table entry and the degree l >= 1."""
    try:
        lv = {}

        def at(t):
            if t == LDEG:
                return sp.Symbol("l", integer=True, positive=True)
            if t[0] == "call" and t[1] == ".astype" and t[2]:
                t = t[2][0]
            if t[0] == "sub" and t[1][0] == "call" and t[1][1].endswith("Wignerindex"):
                return lv.setdefault(t, sp.Symbol(f"m{len(lv)}", integer=True))
            return None
        tr = S.Translator(at)
        tr.ufuncs = False
        d = sp.expand(tr.tr(gi) - tr.tr(idx))
        if tr.atoms:
            return None
        return True if d == 0 else False
    except Exception:  # noqa
        return None


def is_nbr_slice_gather(idx, NL, i):
    return is_nbr_slice(idx, NL, i)


def check_init(run, pkg):
    attrs = init_attrs(pkg, CLS)
    fq = short(pkg.cls(CLS).methods["__init__"].qual)
    call = ("call", pkg.cls(CLS).methods["qlm_Qlm"].qual, (SELF,), ())
    a, b = attrs.get("smallqlm"), attrs.get("largeQlm")
    ok = tri_lazy(lambda: eqv(a, ("elem", call, 0)), lambda: eqv(b, ("elem", call, 1)))
    if not ok and a is not None and b is not None:
        ok = tri_lazy(lambda: eqv(a, ("elem", ("call", pkg.cls(CLS).methods["qlm_Qlm"].qual, (), ()), 0)), lambda: (True if (b[2] == 1) else None))
    run.ob("R-ALG", fq, "stored-vectors", ok, "self.smallqlm / self.largeQlm are the (local, coarse-grained) pair returned by qlm_Qlm, in that order", f"{show(a)[:50] if a else None}, {show(b)[:50] if b else None}",
           witness=None if ok else "local and coarse-grained vectors exchanged for every derived quantity", loc=pkg.cls(CLS).methods["__init__"].loc(), sound=True)


def method_interp(pkg, name, coarse):
    def assume(c):
        if c == ("sym", "coarse_graining"):
            return coarse
        if c == ("un", "not", ("sym", "coarse_graining")):
            return not coarse
        return None
    return Interp(pkg, pkg.func(f"{CLS}.{name}"), assume=assume)


def want_vec(coarse):
    return ("attr", SELF, "largeQlm" if coarse else "smallqlm")


SUM2 = sp.Function(".sum|axis")


def vec_atom(X):
    Xs = sp.Symbol("X")
    ls = sp.Symbol("l", positive=True)

    def atom_of(t):
        if t == X:
            return Xs
        if t == LDEG:
            return ls
        return None
    return atom_of, Xs, ls


def check_ql(run, pkg, coarse):
    it = method_interp(pkg, "ql_Ql", coarse)
    fq = short(it.fi.qual)
    tag = "coarse" if coarse else "local"
    X = want_vec(coarse)
    ret = it.returns[0].data["value"]
    uses = {x for x in walk(ret) if x[0] == "attr" and x[1] == SELF and x[2] in ("smallqlm", "largeQlm")}
    other = want_vec(not coarse)
    okx = True if uses == {X} else (False if uses == {other} else None)
    run.ob("R-DISPATCH", fq, f"{tag}:vector", okx, f"coarse_graining={coarse} selects the {'coarse-grained' if coarse else 'local'} vectors", str(sorted(u[2] for u in uses)),
           witness=None if okx else "flag selects the other set of vectors", loc=it.fi.loc(), sound=True)
    atom_of, Xs, ls = vec_atom(X)
    check_algebra(run, "R-ALG", it, f"{tag}:ql", "q_l = sqrt(4 pi/(2l+1) sum_m |q_lm|^2) (sum over axis 2 = m)", ret,
                  sp.sqrt(4 * sp.pi / (2 * ls + 1) * SUM2(sp.Abs(Xs) ** 2, 2)), atom_of, it.fi.loc())


def check_sij(run, pkg, coarse):
    it = method_interp(pkg, "sij_ql_Ql", coarse)
    fi = it.fi
    fq = short(fi.qual)
    tag = "coarse" if coarse else "local"
    X = want_vec(coarse)
    st = [e for e in stores(it) if len(e.loops) == 2 and e.data["target"][2][0] == "tuple" and e.data["value"][0] == "bin" and e.data["value"][1] == "/"]
    if len(st) != 1:
        raise AnalysisError(f"{fq}: expected one per-particle store of s_ij")
    ev = st[0]
    loc = loc_of(it, ev)
    Lf, Li = it.loops[ev.loops[0]], it.loops[ev.loops[1]]
    okf = eqv(Lf.iter, ("call", "builtins.enumerate", (SNAPS,), ()))
    n, snap, i = ("elem", Lf.target, 0), ("elem", Lf.target, 1), Li.target
    run.ob("R-LOOPDOM", fq, f"{tag}:frames", okf, "every frame is processed with its index", show(Lf.iter)[:60], witness=None if okf else "frame index / frame mismatch", loc=fi.loc(Lf.node), sound=True)
    rd = [e for e in calls(it, READER) if set(e.loops) == {Lf.id}]
    if len(rd) != 1:
        raise AnalysisError(f"{fq}: neighbour table not read once per frame")
    NL = rd[0].data["result"]
    cn = nbr_count(NL, i)
    # the bond table is filled only up to each particle's coordination number, and counted / written out as a whole per frame: it
    # must start from zeros in every frame (allocated or cleared inside the frame loop)
    table = ev.data["target"][1]
    born = [e for e in it.events if e.kind == "assign" and e.data["value"] == table]
    cleared = [e for e in it.events if Lf.id in e.loops and ((e.kind == "call" and e.data["call"][1] in (".fill",) and e.data["call"][2] and e.data["call"][2][0] == table) or
                                                            (e.kind == "store" and e.data["target"][1] == table and e.data["target"][2] in (("slice", NONE, NONE, NONE), ("mod", "builtins.Ellipsis"))))]
    if born:
        inside = all(Lf.id in e.loops for e in born) or bool(cleared)
        run.ob("R-ALG", fq, f"{tag}:table-reset", True if inside else False, "the per-frame bond table starts from zeros in every frame", f"allocated in loops {born[0].loops}",
               witness=None if inside else "frame 0 with CN = 7, frame 1 with CN = 4 for the same particle: columns 4..6 of frame 1 keep frame 0's s_ij - the thresholded bond count "
               "and the written table of frame 1 contain bonds that do not exist", loc=loc_of(it, born[0]), sound=True)
    up, down = ev.data["value"][2], ev.data["value"][3]
    real = False
    if up[0] == "attr" and up[2] == "real":
        up, real = up[1], True
    elif up[0] == "call" and up[1] == "numpy.real":
        up, real = up[2][0], True
    run.ob("R-ALG", fq, f"{tag}:real", True if real else None, "s_ij uses the real part of q_i . conj q_j", show(ev.data["value"][2])[:60], loc=loc)
    okup = None
    detail = show(up)[:120]
    if up[0] == "call" and up[1] == ".sum" and kw(up, "axis", 1) in (C(1), C(-1)) and up[2][0][0] == "bin" and up[2][0][1] == "*":
        a, b = up[2][0][2], up[2][0][3]

        def unconj(t):
            if t[0] == "call" and t[1] in ("numpy.conj", "numpy.conjugate", ".conj") and len(t[2]) == 1:
                return t[2][0], True
            return t, False
        a0, ca = unconj(a)
        b0, cb = unconj(b)
        a0, b0 = row_bcast(a0), row_bcast(b0)
        centre = ("sub", X, ("tuple", (n, i)))

        def is_nb(t):
            if not (t[0] == "sub" and t[2][0] == "tuple" and len(t[2][1]) == 2):
                return None
            return tri(eqv(t[1], X), eqv(t[2][1][0], n), nbr_slice_tri(t[2][1][1], NL, i))

        def is_centre(t):
            return eqv(t, centre)
        # which operand is the centre particle's vector: the one indexed by a scalar particle index
        def scalar_idx(t):
            return t[0] == "sub" and t[2][0] == "tuple" and len(t[2][1]) == 2 and t[2][1][1][0] != "sub"
        if scalar_idx(a0) != scalar_idx(b0):
            cen, nbv = (a0, b0) if scalar_idx(a0) else (b0, a0)
            okpair = tri(is_centre(cen), is_nb(nbv))
        else:
            okpair = None
        okup = tri(okpair, ca != cb) if okpair is not None else None
        if okpair and ca == cb:
            detail = "no factor (or both) conjugated"
    run.ob("R-ALIGN", fq, f"{tag}:numerator", okup, "numerator = sum_m q_lm(i) conj(q_lm(j)) for j over the neighbours (columns 1..cn_i) of i in the same frame", detail,
           witness=None if okup else "pairs another frame / other particles, or the conjugate is missing (|s_ij| can exceed 1)", loc=loc, sound=True)
    # denominator |q_i||q_j| with |q| = sqrt(sum |q_lm|^2)
    okdn = False
    if down[0] == "bin" and down[1] == "*":
        norms = set()
        okidx = True
        for f in (down[2], down[3]):
            if f[0] == "sub":
                norms.add(f[1])
        if len(norms) == 1:
            Nq = norms.pop()
            atom_of, Xs, ls = vec_atom(X)
            try:
                g = S.Translator(atom_of).tr(Nq)
                oknorm = S.decide_equal(g, sp.sqrt(SUM2(sp.Abs(Xs) ** 2, 2)))[0] is True
            except Exception:  # noqa
                oknorm = False
            idxs = [f[2] for f in (down[2], down[3])]
            want = [("tuple", (n, i))]
            okidx = any(x == ("tuple", (n, i)) for x in idxs) and any(x[0] == "tuple" and x[1][0] == n and is_nbr_slice(x[1][1], NL, i) for x in idxs)
            okdn = oknorm and okidx
    run.ob("R-ALG", fq, f"{tag}:denominator", okdn, "denominator = |q_i| |q_j| with |q| = sqrt(sum_m |q_lm|^2) of the same vectors, same particles", show(down)[:120],
           witness=None if okdn else "s_ij is not normalised by the two vector norms: |s_ij| <= 1 fails", loc=loc)
    tgt = ev.data["target"][2][1]
    okt = tri_lazy(lambda: (True if (tgt[0] == i) else None), lambda: eqv(tgt[1], ("slice", NONE, cn, NONE)))
    run.ob("R-IDX", fq, f"{tag}:slots", okt, "the cn_i values fill slots [0, cn_i) of row i (rest stays 0)", show(ev.data["target"][2])[:60], witness=None if okt else "values shifted / truncated", loc=loc, sound=True)
    # thresholded count
    cnt = [e for e in stores(it) if e.data["target"][2] == ("tuple", (FULL, C(1)))]
    okc = False
    if len(cnt) == 1:
        v = cnt[0].data["value"]
        S_arr = ev.data["target"][1]
        forms = [("call", ".sum", (("call", "numpy.where", (("cmp", ">", S_arr, ("sym", "c")), C(1), C(0)), ()),), (("axis", C(1)),)),
                 ("call", ".sum", (("cmp", ">", S_arr, ("sym", "c")),), (("axis", C(1)),))]
        okc = eqv(v, *forms, same=True)
        ge = any(x[0] == "cmp" and x[1] in (">=", "<", "<=") for x in walk(v))
        if okc is not True:
            # the thresholded array is a column slice of the s_ij table that does not start at column 0: the table has no count
            # column (slot k is bond k), so the first bond(s) are left out
            for x in walk(v):
                if x[0] == "cmp" and x[1] == ">" and x[2][0] == "sub" and x[2][1] == S_arr and x[2][2][0] == "tuple" and len(x[2][2][1]) == 2:
                    col = x[2][2][1][1]
                    if col[0] == "slice" and is_const(col[1]) and isinstance(col[1][1], int) and col[1][1] > 0:
                        okc = False
                        ge = None
                        break
        run.ob("R-CMP", fq, f"{tag}:count", okc, "column 1 counts the bonds with s_ij > c (strict)", show(v)[:90],
               witness=None if okc else ("boundary/direction of the threshold changed" if ge else ("the count skips the first column(s) of the s_ij table: the first listed bond is never counted" if ge is None else "count is not over s_ij > c")), loc=loc_of(it, cnt[0]), sound=True)
    else:
        run.ob("R-CMP", fq, f"{tag}:count", None, "thresholded count found", f"{len(cnt)} stores", loc=fi.loc())
    ids = [e for e in stores(it) if e.data["target"][2] == ("tuple", (FULL, C(0)))]
    okid = len(ids) == 1 and ids[0].data["value"][0] == "bin" and ids[0].data["value"][1] == "+" and C(1) in ids[0].data["value"][2:]
    run.ob("R-IDX", fq, f"{tag}:ids", okid, "column 0 holds 1-based particle ids", key_of(ids[0])[:60] if ids else "?", witness=None if okid else "ids 0-based in the output file", loc=fi.loc())


def check_w(run, pkg, coarse):
    it = method_interp(pkg, "w_W_cap", coarse)
    fi = it.fi
    fq = short(fi.qual)
    tag = "coarse" if coarse else "local"
    X = want_vec(coarse)
    st = [e for e in stores(it) if len(e.loops) == 2 and e.data["target"][2][0] == "tuple"]
    if len(st) != 1:
        raise AnalysisError(f"{fq}: expected one store of w")
    ev = st[0]
    loc = loc_of(it, ev)
    Ln, Li = it.loops[ev.loops[0]], it.loops[ev.loops[1]]
    n, i = Ln.target, Li.target
    okd = tri_lazy(lambda: eqv(Ln.iter, ("call", "builtins.range", (("sub", ("attr", X, "shape"), C(0)),), ())), lambda: eqv(Li.iter, ("call", "builtins.range", (("sub", ("attr", X, "shape"), C(1)),), ())))
    run.ob("R-LOOPDOM", fq, f"{tag}:domain", okd, "w is computed for every frame and particle of the selected vectors", f"{show(Ln.iter)[:50]} x {show(Li.iter)[:50]}", witness=None if okd else "entries skipped / other array's extent", loc=loc, sound=True)
    WI = ("call", "PyMatterSim.utils.funcs.Wignerindex", (LDEG,), ())
    idx = ("bin", "+", ("call", ".astype", (("sub", WI, ("tuple", (FULL, ("slice", NONE, C(3), NONE)))), ("mod", "numpy.int64")), ()), LDEG)
    w3 = ("sub", WI, ("tuple", (FULL, C(3))))
    v = ev.data["value"]
    ok = None
    detail = show(v)[:140]
    if v[0] == "call" and v[1] == ".sum" and len(v[2]) == 1 and v[2][0][0] == "bin" and v[2][0][1] == "*":
        a, b = v[2][0][2], v[2][0][3]
        pr, wt = (a, b) if b == w3 else (b, a)
        if wt == w3 and pr[0] == "call" and pr[1] == "numpy.real" and pr[2][0][0] == "call" and pr[2][0][1] == "numpy.prod" and kw(pr[2][0], "axis", 1) == C(1):
            g = pr[2][0][2][0]
            if g[0] == "sub" and g[1] == X and g[2][0] == "tuple" and len(g[2][1]) == 3 and g[2][1][0] == n and g[2][1][1] == i:
                gi = g[2][1][2]
                ok = True if (gi == idx or (gi[0] == "bin" and gi[1] == "+" and LDEG in gi[2:] and any(x == ("sub", WI, ("tuple", (FULL, ("slice", NONE, C(3), NONE)))) for x in walk(gi)))) else _shift_ok(gi, idx)
                if not ok:
                    detail = f"m -> index map {show(gi)[:80]}"
    run.ob("R-IDX", fq, f"{tag}:w", ok, "w_l(n, i) = sum over the table of w3j(m1,m2,m3) Re[q_{l,m1} q_{l,m2} q_{l,m3}] with m stored at index m + l", detail,
           witness=None if ok else "m = -l..l indexes the vector without the + l shift (negative m wraps to the wrong component) / wrong table column", loc=loc, sound=True)
    ret = it.returns[0].data["value"]
    okr = ret[0] == "tuple" and len(ret[1]) == 2 and ret[1][0] == ev.data["target"][1]
    run.ob("R-ALG", fq, f"{tag}:return", True if okr else None, "returns (w, w-hat)", show(ret)[:60], loc=fi.loc())
    if okr:
        atom_of, Xs, ls = vec_atom(X)
        Ws = sp.Symbol("W")

        def at(t):
            if t == ev.data["target"][1]:
                return Ws
            return atom_of(t)
        check_algebra(run, "R-ALG", it, f"{tag}:wcap", "w-hat_l = w_l / (sum_m |q_lm|^2)^(3/2)", ret[1][1], Ws / SUM2(sp.Abs(Xs) ** 2, 2) ** sp.Rational(3, 2), at, fi.loc())


def check_corr(run, pkg, coarse):
    tag = "coarse" if coarse else "local"
    X = want_vec(coarse)
    # spatial
    it = method_interp(pkg, "spatial_corr", coarse)
    fi = it.fi
    fq = short(fi.qual)
    cg = calls(it, "PyMatterSim.static.gr.conditional_gr")
    if len(cg) != 1 or len(cg[0].loops) != 1:
        raise AnalysisError(f"{fq}: expected one conditional_gr call per frame")
    c = cg[0].data["call"]
    L = it.loops[cg[0].loops[0]]
    okf = eqv(L.iter, ("call", "builtins.enumerate", (SNAPS,), ()))
    n, snap = ("elem", L.target, 0), ("elem", L.target, 1)
    k = dict(c[3])
    params = pkg.func("static.gr.conditional_gr").params
    for p_, a_ in zip(params, c[2]):
        k[p_] = a_
    ok = tri_lazy(lambda: (True if (okf) else None), lambda: (True if (k.get("snapshot") == snap) else None), lambda: eqv(k.get("condition"), ("sub", X, n)), lambda: eqv(k.get("conditiontype"), C("vector")), lambda: eqv(k.get("ppp"), ("attr", SELF, "ppp")), lambda: eqv(k.get("rdelta"), ("sym", "rdelta")))
    run.ob("R-ALIGN", fq, f"{tag}:spatial", ok, "G_l(r) of frame n = conditional_gr(frame n, vectors of frame n, kind 'vector', instance mask, rdelta)",
           ", ".join(f"{a}={show(b)[:30]}" for a, b in k.items()), witness=None if ok else "vectors of another frame / scalar kind (components not summed) / mask dropped", loc=loc_of(it, cg[0]), sound=True)
    aug = [e for e in it.events if e.kind == "aug" and e.data["op"] == "+" and e.data["value"] == cg[0].data["result"]]
    div = [e for e in it.events if e.kind == "aug" and e.data["op"] == "/" and not e.loops]
    oka = tri_lazy(lambda: (True if (len(aug) == 1) else None), lambda: (True if (aug[0].data["old"][0] == "mu") else None), lambda: eqv(aug[0].data["old"][3], C(0)), lambda: (True if (len(div) == 1) else None), lambda: eqv(div[0].data["value"], ("attr", ("attr", SELF, "snapshots"), "nsnapshots")))
    run.ob("R-ALG", fq, f"{tag}:spatial-average", oka, "frames are summed from 0 and divided by the number of frames", f"{len(aug)} sums, {len(div)} divisions", witness=None if oka else "not a frame average", loc=fi.loc(), sound=True)
    # time
    it = method_interp(pkg, "time_corr", coarse)
    fi = it.fi
    fq = short(fi.qual)
    tc = calls(it, "PyMatterSim.dynamic.time_corr.time_correlation")
    if len(tc) != 1:
        raise AnalysisError(f"{fq}: expected one time_correlation call")
    k = dict(tc[0].data["call"][3])
    ok = tri_lazy(lambda: eqv(k.get("snapshots"), ("attr", SELF, "snapshots")), lambda: (True if (k.get("condition") == X) else None), lambda: eqv(k.get("dt"), ("sym", "dt")))
    run.ob("R-ALIGN", fq, f"{tag}:time", ok, "time correlation of the selected vectors over the instance's trajectory with the caller's dt", ", ".join(f"{a}={show(b)[:30]}" for a, b in k.items()),
           witness=None if ok else "other vectors / dt ignored", loc=loc_of(it, tc[0]), sound=True)
    res = tc[0].data["result"]
    sts = [e for e in stores(it) if e.data["target"] == ("sub", res, C("time_corr"))]
    ls = sp.Symbol("l", positive=True)
    ok1 = S.decide_equal(S.to_sympy(sts[0].data["value"], lambda t: ls if t == LDEG else None), 4 * sp.pi / (2 * ls + 1))[0] if (len(sts) >= 2 and sts[0].data["op"] == "*") else None
    ok2 = tri_lazy(lambda: (True if (len(sts) >= 2) else None), lambda: (True if (sts[-1].data["op"] == "/") else None), lambda: eqv(sts[-1].data["value"], ("sub", ("attr", res, "loc"), ("tuple", (C(0), C("time_corr"))))))
    if len(sts) == 1 and sts[0].data["op"] == "*" and S.decide_equal(S.to_sympy(sts[0].data["value"], lambda t: ls if t == LDEG else None), 4 * sp.pi / (2 * ls + 1))[0] is True \
            and not [e for e in it.events if e.kind in ("aug", "store", "assign") and e.seq > sts[0].seq and any(x[0] == "bin" and x[1] == "/" for x in walk(e.data.get("value") or NONE))]:
        ok1, ok2 = True, False        # scaled but never divided by the lag-zero value
    run.ob("R-ALG", fq, f"{tag}:time-norm", tri(ok1, ok2), "the correlation is scaled by 4 pi/(2l+1) and then divided by its lag-0 value", "; ".join(key_of(e)[:60] for e in sts),
           witness=None if ok1 and ok2 else "C(0) != 1 / scaling changed", loc=fi.loc(), sound=True)
    sv = calls(it, ".to_csv")
    oks = all(e.data["call"][2][0] == res and e.seq > max(s.seq for s in sts) for e in sv) if sts else False
    run.ob("R-SAVE", fq, f"{tag}:time-csv", oks, "the CSV is written from the returned table after normalisation", f"{len(sv)} saves", witness=None if oks else "file holds unnormalised values", loc=fi.loc())


def check_wigner(run, pkg):
    it = interp(pkg, "utils.funcs.Wignerindex")
    fi = it.fi
    fq = short(fi.qual)
    l = ("sym", "l")
    ap = [e for e in it.events if e.kind == "call" and e.data["call"][1] == ".append"]
    if len(ap) != 1 or len(ap[0].loops) != 3:
        raise AnalysisError(f"{fq}: expected one append inside three nested m loops")
    e = ap[0]
    Ls = [it.loops[x] for x in e.loops]
    rng = ("call", "builtins.range", (("un", "-", l), ("bin", "+", l, C(1))), ())
    okd = tri(*[eqv(L.iter, rng) for L in Ls])
    run.ob("R-LOOPDOM", fq, "cube", okd, "m1, m2, m3 each run over -l..l", " x ".join(show(L.iter)[:30] for L in Ls), witness=None if okd else "m values missing from the table", loc=fi.loc(), sound=True)
    m = [L.target for L in Ls]
    g = [c for c, pol in e.guards if pol]
    okg = None
    if not g and not [c for c, pol in e.guards]:
        okg = True          # unguarded: the extra triples carry a vanishing 3-j symbol
    if len(g) == 1 and g[0][0] == "cmp" and g[0][1] == "==" and g[0][3] == C(0):
        try:
            sm = S.to_sympy(g[0][2], lambda t: sp.Symbol(f"m{m.index(t) + 1}") if t in m else None)
            okg = bool(sp.expand(sm - sum(sp.Symbol(f"m{k}") for k in (1, 2, 3))) == 0) if sm.free_symbols <= {sp.Symbol("m1"), sp.Symbol("m2"), sp.Symbol("m3")} else None
        except Exception:  # noqa
            okg = None
    run.ob("R-LOOPDOM", fq, "selection", okg, "all triples with m1 + m2 + m3 = 0 are tabulated", show(g[0])[:60] if g else "no guard", witness=None if okg else "terms with non-vanishing 3-j symbol missing", loc=loc_of(it, e), sound=True)
    row = e.data["call"][2][1]
    w3 = None
    okr = False
    if row[0] == "call" and row[1] == "numpy.array" and row[2][0][0] == "list" and len(row[2][0][1]) == 4:
        els = row[2][0][1]
        w3 = els[3]
        okr = True if sorted(map(show, els[:3])) == sorted(map(show, m)) else (False if any(x in m for x in els[3:]) else None)
    run.ob("R-IDX", fq, "row", okr, "a table row holds m1, m2, m3 in its first three columns and the value in the fourth", show(row)[:80], witness=None if okr else "an m index sits in the value column", loc=loc_of(it, e), sound=True)
    okw = None
    if w3 is not None:
        core = w3
        if core[0] == "call" and core[1] == ".evalf":
            core = core[2][0]
        if core[0] == "call" and isinstance(core[1], str) and core[1].endswith("wigner_3j") and len(core[2]) == 6:
            ms = list(core[2][3:])
            # the sum over the full cube is invariant under permuting (m1, m2, m3): only the multiset of arguments matters
            okw = tri(*[eqv(x, l) for x in core[2][:3]], True if sorted(map(show, ms)) == sorted(map(show, m)) else (False if all(x in m for x in ms) else None))
    run.ob("R-ALG", fq, "symbol", okw, "the value is the Wigner 3-j symbol (l l l; m1 m2 m3)", show(w3)[:80] if w3 else "?", witness=None if okw else "an m argument of wigner_3j repeated / other degrees", loc=loc_of(it, e), sound=True)
    ret = it.returns[0].data["value"]
    okrs = any(x[0] == "call" and x[1] == ".reshape" and x[2][1:] == (C(-1), C(4)) for x in walk(ret))
    run.ob("R-IDX", fq, "shape", True if okrs else None, "the table is returned with 4 columns", show(ret)[:60], loc=fi.loc())


def check_api(run, pkg):
    """Third-party names used by the BOO modules must exist in the installed distributions."""
    import importlib
    for modname in ("utils.spherical_harmonics", "utils.funcs", "static.boo"):
        mi = pkg.module(modname)
        import ast as _ast
        for node in mi.tree.body:
            nodes = [node]
            guarded = False
            if isinstance(node, _ast.Try):
                nodes = [n for n in node.body]
                guarded = True
            for nd in nodes:
                if isinstance(nd, _ast.ImportFrom) and nd.level == 0 and nd.module and nd.module.split(".")[0] in ("scipy", "sympy", "numpy", "pandas"):
                    try:
                        m = importlib.import_module(nd.module)
                    except Exception as ex:  # noqa
                        run.ob("R-API", short(mi.name), f"import {nd.module}", False if not guarded else True, f"module {nd.module} importable", str(ex)[:80], witness=f"import {nd.module} fails", loc=f"{mi.relpath}:{nd.lineno}")
                        continue
                    for a in nd.names:
                        ok = hasattr(m, a.name)
                        run.ob("R-API", short(mi.name), f"from {nd.module} import {a.name}", ok or guarded, f"{nd.module}.{a.name} exists in the installed distribution" + (" (or the import is guarded with a fallback)" if guarded else ""),
                               "resolved" if ok else ("guarded by try/except with a fallback" if guarded else "missing"),
                               witness=None if ok or guarded else f"ImportError at import of {mi.name}: every BOO routine is unusable", loc=f"{mi.relpath}:{nd.lineno}")
