"""C16 - coarse-graining returns the stated neighbour, Gaussian-grid and window averages.

R-LINEAR  the flat grid index is the row-major bijection with x slowest for all extents (polynomial identity;
          collision / overflow / order witness searched over extents <= 4 when it fails).
R-ALG     grid axes use their own bounds and counts; Gaussian weight; weighted sums by rank; neighbour mean;
          window slice, mean axis, middle index.
R-ALIGN   the cutoff selection is applied to the weights and to the property of the same frame.
R-PBC     grid-particle differences are minimum-imaged with the frame's cell and the mask cut to the dimension.
R-HANDLE  spatial_average reads one neighbour frame per trajectory frame from one open handle.
R-TRUNC   the window length is floor(period/interval); truncating a float quotient without tolerance is reported.
"""
from __future__ import annotations

import itertools

import sympy as sp

from .common import *  # noqa
from .grlib import is_rowwise_norm, pbc_args, REMOVE_PBC
from ..vg import strip_alloc

MOD = "utils.coarse_graining"


def run(run: Run, pkg: Package) -> None:
    run.explanation = (
        "gaussian_blurring: the flat index expression read from the grid-construction loop nest is compared, as a polynomial in "
        "loop variables and extents, with the row-major bijection (x slowest) in 2D and 3D; axis/bounds agreement, the Gaussian "
        "weight, cutoff selection alignment and rank-wise sums are checked on the value graph. spatial_average: neighbour mean "
        "form and file-handle protocol. time_average: window slice, mean axis, middle index decided on all windows 1..8, and the "
        "window-length truncation rule.")
    for ndim in (2, 3):
        check_grid(run, pkg, ndim)
    check_gaussian(run, pkg)
    check_property_sums(run, pkg)
    check_spatial_average(run, pkg)
    check_time_average(run, pkg)
    run.minimum("R-LINEAR", 2)
    run.minimum("R-ALG", 20)


def interp_gb(pkg, ndim, rank=None):
    ng = ("sym", "ngrids")
    cs = ("attr", ("sym", "condition"), "shape")

    def assume(c):
        if c[0] == "cmp" and c[1] == "==" and is_const(c[3]):
            if c[2] == ("call", "builtins.len", (ng,), ()):
                return c[3][1] == ndim
            if rank is not None and c[2] == ("call", "builtins.len", (cs,), ()):
                return c[3][1] == rank + 2
        return None
    return interp(pkg, f"{MOD}.gaussian_blurring", assume=assume)


def check_grid(run, pkg, ndim):
    it = interp_gb(pkg, ndim)
    fi = it.fi
    fq = short(fi.qual)
    ng = ("sym", "ngrids")
    # the store that fills grid positions: target grid[n, indice] with a list of per-axis coordinates
    cands = [e for e in stores(it) if e.data["value"][0] in ("list", "tuple") and len(e.data["value"][1]) == ndim
             and e.data["target"][2][0] == "tuple" and len(e.data["target"][2][1]) == 2]
    if not cands and check_grid_meshgrid(run, it, fq, ndim):
        return
    if len(cands) != 1:
        raise AnalysisError(f"{fq}: expected one grid-position store for ndim={ndim}, found {len(cands)}")
    ev = cands[0]
    frame_idx, flat = ev.data["target"][2][1]
    coords = ev.data["value"][1]
    loops = [it.loops[l] for l in ev.loops]
    if len(loops) != ndim + 1:
        raise AnalysisError(f"{fq}: grid store is nested in {len(loops)} loops, expected frame loop + {ndim} axis loops")
    frame_loop, axis_loops = loops[0], loops[1:]
    # frame loop: enumerate(snapshots.snapshots)
    fit = frame_loop.iter
    ok_frames = eqv(fit, ("call", "builtins.enumerate", (("attr", ("sym", "snapshots"), "snapshots"),), ()))
    n_term = ("elem", frame_loop.target, 0)
    snap = ("elem", frame_loop.target, 1)
    run.ob("R-LOOPDOM", fq, f"{ndim}D:frames", ok_frames, "grid is built for every frame", show(fit)[:80],
           witness=None if ok_frames else "frames skipped", loc=fi.loc(frame_loop.node), sound=True)
    okfs = eqv(frame_idx, n_term)
    run.ob("R-IDX", fq, f"{ndim}D:frame-slot", okfs, "grid points of frame n are stored in row n",
           f"first index {show(frame_idx)}", witness=None if okfs else "frame rows mixed", loc=loc_of(it, ev), sound=True)
    # each coordinate: linspace(bounds[c,0], bounds[c,1], ngrids[c])[loopvar_c] with loopvar_c over range(ngrids[c])
    E = [sp.Symbol(f"E{c}", positive=True, integer=True) for c in range(3)]
    V = {}
    axis_of_loopvar = {}
    for c, co in enumerate(coords):
        key = f"{ndim}D:axis{c}"
        ok = None
        detail = show(co)[:120]
        if co[0] == "sub" and co[1][0] == "call" and co[1][1] == "numpy.linspace" and len(co[1][2]) >= 3:
            lo, hi, num = co[1][2][:3]
            bb = ("attr", snap, "boxbounds")
            want_lo = ("sub", bb, ("tuple", (C(c), C(0))))
            want_hi = ("sub", bb, ("tuple", (C(c), C(1))))
            want_n = ("sub", ng, C(c))
            lv = co[2]
            li = it.loops.get(lv[1]) if lv[0] == "loopvar" else None
            dom_ok = eqv(li.iter, ("call", "builtins.range", (want_n,), ())) if li is not None else None
            ok = tri(eqv(lo, want_lo), eqv(hi, want_hi), eqv(num, want_n), dom_ok)
            if lv[0] == "loopvar":
                axis_of_loopvar[lv] = c
            if not dom_ok and li is not None:
                detail += f" ; loop {show(li.iter)[:60]}"
        run.ob("R-ALG", fq, key, ok, f"coordinate {c} of a grid point is linspace(bounds[{c},0], bounds[{c},1], ngrids[{c}])[index_{c}], "
               f"index_{c} in range(ngrids[{c}])", detail,
               witness=None if ok else f"axis {c} uses bounds/count/index of another axis or a wrong range", loc=loc_of(it, ev), sound=True)
    # flat index polynomial
    lvs = sorted(axis_of_loopvar, key=lambda x: axis_of_loopvar[x])
    if len(lvs) != ndim:
        run.ob("R-LINEAR", fq, f"{ndim}D:flat-index", None, "flat index is the row-major bijection", "axis loop variables not identified",
               loc=loc_of(it, ev))
        return
    iv = [sp.Symbol(f"i{c}", integer=True, nonnegative=True) for c in range(ndim)]

    def atom_of(t):
        if t in axis_of_loopvar:
            return iv[axis_of_loopvar[t]]
        if t[0] == "sub" and t[1] == ng and is_const(t[2]) and t[2][1] in (0, 1, 2):
            return E[t[2][1]]
        return None
    tr = S.Translator(atom_of)
    try:
        got = sp.expand(tr.tr(flat))
    except Exception as e:  # noqa
        run.ob("R-LINEAR", fq, f"{ndim}D:flat-index", None, "flat index polynomial", str(e), loc=loc_of(it, ev))
        return
    ref = iv[0]
    for c in range(1, ndim):
        ref = ref * E[c] + iv[c]
    ref = sp.expand(ref)
    what = f"{ndim}D flat index equals " + ("i*E1 + j" if ndim == 2 else "(i*E1 + j)*E2 + k") + " (each grid point once, x slowest)"
    if tr.atoms:
        run.ob("R-LINEAR", fq, f"{ndim}D:flat-index", None, what, f"index uses constructs without a role: {sorted(tr.atoms)[:3]}", loc=loc_of(it, ev))
        return
    if sp.expand(got - ref) == 0:
        run.ob("R-LINEAR", fq, f"{ndim}D:flat-index", True, what, f"index polynomial {got}", loc=loc_of(it, ev))
    else:
        wit = None
        for ext in itertools.product(range(1, 5), repeat=ndim):
            seen = {}
            total = 1
            for e_ in ext:
                total *= e_
            sub_e = {E[c]: ext[c] for c in range(ndim)}
            for pt in itertools.product(*[range(e_) for e_ in ext]):
                val = got.subs(sub_e).subs({iv[c]: pt[c] for c in range(ndim)})
                want = ref.subs(sub_e).subs({iv[c]: pt[c] for c in range(ndim)})
                if val in seen:
                    wit = f"ngrids={ext}: grid points {seen[val]} and {pt} share flat index {val}"
                    break
                if not (0 <= val < total):
                    wit = f"ngrids={ext}: grid point {pt} gets flat index {val} outside [0, {total})"
                    break
                seen[val] = pt
                if val != want and wit is None:
                    wit = f"ngrids={ext}: grid point {pt} stored at {val}, row-major (x slowest) position is {want}"
            if wit and ("share" in wit or "outside" in wit):
                break
        run.ob("R-LINEAR", fq, f"{ndim}D:flat-index", False, what, f"index polynomial {got}, reference {ref}", witness=wit, loc=loc_of(it, ev), sound=True)   # exact polynomial difference + enumerated extents
    # capacity of the grid arrays: prod(ngrids) rows
    allocs = [e for e in it.events if e.kind == "assign" and e.data["value"][0] == "call" and e.data["value"][1] == "numpy.zeros"]
    gp = ev.data["target"][1]
    if gp[0] == "call" and gp[1] == "numpy.zeros" and gp[2] and gp[2][0][0] == "tuple" and len(gp[2][0][1]) == 3:
        shp = gp[2][0][1]
        okc = tri_lazy(lambda: eqv(shp[1], ("call", "numpy.prod", (ng,), ())), lambda: eqv(shp[0], ("attr", ("sym", "snapshots"), "nsnapshots")))
        run.ob("R-LINEAR", fq, f"{ndim}D:capacity", okc, "grid array has nsnapshots x prod(ngrids) rows", show(gp)[:100],
               witness=None if okc else "row count differs from the number of grid points", loc=loc_of(it, ev), sound=True)


def check_grid_meshgrid(run, it, fq, ndim):
    """Vectorised grid construction: grid[n] = stack(meshgrid(*axes, indexing='ij'), axis=-1).reshape(-1, ndim)."""
    fi = it.fi
    ng = ("sym", "ngrids")
    cands = [e for e in stores(it) if any(x[0] == "call" and x[1] == "numpy.meshgrid" for x in walk(e.data["value"]))]
    if len(cands) != 1:
        return False
    ev = cands[0]
    loc = loc_of(it, ev)
    val = ev.data["value"]
    mg = [x for x in walk(val) if x[0] == "call" and x[1] == "numpy.meshgrid"][0]
    # layout
    idx = kw(mg, "indexing")
    form = None
    if val[0] == "call" and val[1] == ".reshape" and val[2][0][0] == "call" and val[2][0][1] == "numpy.stack" and kw(val[2][0], "axis", 1) == C(-1) and val[2][0][2][0] == mg \
            and val[2][1] == C(-1):
        form = "stack-last-axis + reshape(-1, d)"
    elif val[0] == "call" and val[1] == "numpy.column_stack" and val[2] and val[2][0][0] == "comp" and val[2][0][3][0][1] == mg and \
            val[2][0][2] in (("call", ".ravel", (val[2][0][3][0][0],), ()), ("call", ".flatten", (val[2][0][3][0][0],), ())):
        form = "column_stack of raveled axes"
    if form is None:
        run.ob("R-LINEAR", fq, f"{ndim}D:flat-index", None, "grid layout recognised", show(val)[:120], loc=loc)
        return True
    okij = eqv(idx, C("ij"))
    run.ob("R-LINEAR", fq, f"{ndim}D:flat-index", okij, f"{ndim}D grid points are laid out row-major with x slowest (meshgrid indexing='ij' flattened in C order)", f"{form}, indexing={show(idx) if idx else 'xy (default)'}",
           witness=None if okij else "ngrids=(2, 3): with the default 'xy' indexing the first two axes are swapped, point k is not (i, j) with k = i*3 + j", loc=loc, sound=True)
    # axes
    ax = mg[2][0] if mg[2] else None
    lst = ax[1] if ax is not None and ax[0] == "star" else None
    bounds_of = None
    okax = None           # a form of the axis list this rule does not know is undecided, never wrong
    args_ = list(mg[2])
    if lst is not None and lst[0] in ("tuple", "list"):
        args_, lst = list(lst[1]), None        # meshgrid(*(X, Y[, Z]), ...): the unpacked sequence is the argument list
    if lst is not None and lst[0] == "comp" and len(lst[3]) == 1 and not lst[3][0][2]:
        d, src, _ = lst[3][0]
        elt = lst[2]
        okdom = eqv(src, ("call", "builtins.range", (("call", "builtins.len", (ng,), ()),), ()), ("call", "builtins.range", (("sub", ("attr", ("attr", ("sub", ("attr", ("sym", "snapshots"), "snapshots"), C(0)), "positions"), "shape"), C(1)),), ()))
        if elt[0] == "call" and elt[1] == "numpy.linspace" and len(elt[2]) >= 3:
            lo, hi, num = elt[2][:3]
            if lo[0] == "sub" and hi[0] == "sub" and lo[1] == hi[1] and lo[2] == ("tuple", (d, C(0))) and hi[2] == ("tuple", (d, C(1))) and num == ("sub", ng, d):
                okax = okdom
                bounds_of = lo[1]
    elif lst is None and args_ and all(a[0] == "call" and a[1] == "numpy.linspace" for a in args_):
        okax = len(args_) == ndim
        for c, a in enumerate(args_):
            lo, hi, num = a[2][:3]
            okax = tri_lazy(lambda: (True if (okax) else None), lambda: (True if (lo[0] == "sub") else None), lambda: (True if (hi[0] == "sub") else None), lambda: (True if (lo[1] == hi[1]) else None), lambda: eqv(lo[2], ("tuple", (C(c), C(0)))), lambda: eqv(hi[2], ("tuple", (C(c), C(1)))), lambda: eqv(num, ("sub", ng, C(c))))
            bounds_of = lo[1] if lo[0] == "sub" else None
    wit_ax = "an axis uses bounds/count of another axis"
    if okax is None:
        # an axis that starts at a numeric constant instead of the box's lower bound: definite, whatever else the form is
        lins = [x for x in walk(ax if ax is not None else mg) if x[0] == "call" and x[1] == "numpy.linspace" and len(x[2]) >= 2]
        consts = [x for x in lins if is_const(x[2][0]) and isinstance(x[2][0][1], (int, float)) and not isinstance(x[2][0][1], bool)]
        if lins and len(consts) == len(lins):
            okax = False
            wit_ax = (f"every axis starts at the constant {consts[0][2][0][1]}: for a box whose lower bound is not {consts[0][2][0][1]} (e.g. bounds [-3, 3]) "
                      "the grid does not span the box bounds")
    for c in range(ndim):
        run.ob("R-ALG", fq, f"{ndim}D:axis{c}", okax, f"coordinate {c} of a grid point is linspace(bounds[{c},0], bounds[{c},1], ngrids[{c}])", show(ax)[:120] if ax else "?",
               witness=None if okax else wit_ax, loc=loc, sound=True)
    # which frame's bounds, stored for which frame
    tgt = ev.data["target"][2]
    in_loop = [it.loops[l] for l in ev.loops]
    ok_slot = None
    detail = f"target [{show(tgt)[:40]}], bounds {show(bounds_of)[:60] if bounds_of else '?'}"
    if in_loop and in_loop[0].iter == ("call", "builtins.enumerate", (("attr", ("sym", "snapshots"), "snapshots"),), ()):
        n_term, snap = ("elem", in_loop[0].target, 0), ("elem", in_loop[0].target, 1)
        ok_slot = tri_lazy(lambda: (True if (tgt == n_term) else None), lambda: eqv(bounds_of, ("attr", snap, "boxbounds")))
    run.ob("R-IDX", fq, f"{ndim}D:frame-slot", ok_slot, "the grid of frame n spans the box bounds of frame n and is stored in row n", detail,
           witness=None if ok_slot else "box bounds change between frames (constant-pressure run): frame 1 is evaluated on frame 0's grid", loc=loc, sound=True)
    return True


def check_gaussian(run, pkg):
    it = interp(pkg, "utils.funcs.grid_gaussian")
    fq = short(it.fi.qual)
    if len(it.returns) != 1:
        raise AnalysisError("grid_gaussian: expected one return")
    d, s = sp.symbols("d sigma", positive=True)
    p = it.fi.params

    def atom_of(t):
        if t == ("sym", p[0]):
            return d
        if t == ("sym", p[1]):
            return s
        return None
    check_algebra(run, "R-ALG", it, "gaussian", "weight is exp(-d^2/(2 sigma^2))/sqrt(2 pi sigma^2)", it.returns[0].data["value"],
                  sp.exp(-d ** 2 / (2 * s ** 2)) / sp.sqrt(2 * sp.pi * s ** 2), atom_of, it.fi.loc(), positive=True)


def check_property_sums(run, pkg):
    for rank, name in ((0, "scalar"), (1, "vector"), (2, "tensor")):
        it = interp_gb(pkg, 3, rank)
        fi = it.fi
        fq = short(fi.qual)
        # the store into grid_property[n, i]
        cands = [e for e in stores(it) if e.data["target"][2][0] == "tuple" and len(e.data["target"][2][1]) == 2
                 and e.data["value"][0] == "call" and e.data["value"][1] == ".sum"]
        if len(cands) != 1:
            run.ob("R-ALG", fq, f"{name}:sum", None, f"{name} property is accumulated as a weighted sum", f"{len(cands)} candidate stores", loc=fi.loc())
            continue
        ev = cands[0]
        loops = [it.loops[l] for l in ev.loops]
        frame_loop, gl = loops[0], loops[-1]
        n_term = ("elem", frame_loop.target, 0)
        snap = ("elem", frame_loop.target, 1)
        gi = gl.target
        tgt = ev.data["target"]
        ok_t = eqv(tgt[2], ("tuple", (n_term, gi)))
        run.ob("R-IDX", fq, f"{name}:slot", ok_t, "value of grid point i of frame n is stored at [n, i]", show(tgt[2])[:60],
               witness=None if ok_t else "grid values stored at another row", loc=loc_of(it, ev), sound=True)
        gp_term = None
        for e in stores(it):
            if e.data["value"][0] in ("list", "tuple") and e.data["target"][1][0] == "call" and e.data["target"][1][1] == "numpy.zeros" and e.data["target"][1] != tgt[1]:
                gp_term = e.data["target"][1]
        ok_dom = tri_lazy(lambda: (True if (gp_term is not None) else None), lambda: eqv(gl.iter, ("call", "builtins.range", (("sub", ("attr", gp_term, "shape"), C(1)),), ())))
        run.ob("R-LOOPDOM", fq, f"{name}:gridloop", ok_dom, "every grid point is evaluated", show(gl.iter)[:80],
               witness=None if ok_dom else "grid points skipped", loc=fi.loc(gl.node), sound=True)
        val = ev.data["value"]
        axis = kw(val, "axis", 1)
        prod = val[2][0]
        want_axis = None if rank == 0 else C(0)
        ok_axis = ((axis is None or axis == C(0)) if rank == 0 else axis == C(0)) or (None if (axis is not None and not is_const(axis)) else False)
        run.ob("R-ALG", fq, f"{name}:axis", ok_axis, f"{name} sum runs over the selected particles (axis 0)" , f"axis={show(axis) if axis else None}",
               witness=None if ok_axis else "sum over components instead of particles", loc=loc_of(it, ev), sound=True)
        if not (prod[0] == "bin" and prod[1] == "*"):
            run.ob("R-ALG", fq, f"{name}:product", None, "summand is weight x property", show(prod)[:100], loc=loc_of(it, ev))
            continue
        a, b = prod[2], prod[3]
        # identify weight factor (contains grid_gaussian call) and property factor (contains condition)
        def has(t, pred):
            return any(pred(x) for x in walk(t))
        isw = lambda t: has(t, lambda x: x[0] == "call" and x[1] == "PyMatterSim.utils.funcs.grid_gaussian")
        w, pr = (a, b) if isw(a) else (b, a)
        if not isw(w):
            run.ob("R-ALG", fq, f"{name}:product", None, "summand contains the Gaussian weight", show(prod)[:100], loc=loc_of(it, ev))
            continue
        # weight broadcast
        want_b = {0: None, 1: ("tuple", (("slice", NONE, NONE, NONE), ("mod", "numpy.newaxis"))),
                  2: ("tuple", (("slice", NONE, NONE, NONE), ("mod", "numpy.newaxis"), ("mod", "numpy.newaxis")))}[rank]
        gcall = w
        bidx = None
        if w[0] == "sub":
            gcall, bidx = w[1], w[2]
        ok_b = bidx == want_b and gcall[0] == "call"
        run.ob("R-ALG", fq, f"{name}:broadcast", True if ok_b else None, f"weight is broadcast over the {rank} trailing axes", show(w)[:100],
               witness=None if ok_b else "weight multiplied along the wrong axis", loc=loc_of(it, ev))
        if gcall[0] != "call":
            continue
        dist_sel = gcall[2][0] if gcall[2] else None
        sig = gcall[2][1] if len(gcall[2]) > 1 else kw(gcall, "sigma")
        run.ob("R-ALG", fq, f"{name}:sigma", eqv(sig, ("sym", "sigma")), "the requested sigma is passed to the Gaussian", show(sig) if sig else "default",
               witness=None if sig == ("sym", "sigma") else "sigma ignored", loc=loc_of(it, ev), sound=True)
        # distance[selection], selection = distance < cut
        ok_sel = False
        detail = show(dist_sel)[:120] if dist_sel else "?"
        if dist_sel is not None and dist_sel[0] == "sub":
            dist, sel = dist_sel[1], dist_sel[2]
            want_sel = ("cmp", "<", dist, ("sym", "gaussian_cut"))
            alt_sel = ("cmp", "<=", dist, ("sym", "gaussian_cut"))
            ok_sel = eqv(sel, want_sel, alt_sel)
            run.ob("R-CMP", fq, f"{name}:cutoff", ok_sel, "particles within the cutoff (distance < gaussian_cut) are selected", show(sel)[:100],
                   witness=None if ok_sel else "selection is not distance < cutoff", loc=loc_of(it, ev), sound=True)
            # property selection alignment
            want_pr = ("sub", ("sym", "condition"), ("tuple", (n_term, sel)))
            ok_al = eqv(pr, want_pr)
            run.ob("R-ALIGN", fq, f"{name}:selection", ok_al, "the property is taken from the same frame and the same selected particles as the weights",
                   show(pr)[:100], witness=None if ok_al else "weights and property refer to different particles / frames", loc=loc_of(it, ev), sound=True)
            # distance provenance
            inner = is_rowwise_norm(dist)
            pa = pbc_args(inner) if inner else None
            ok_d = None
            if pa and pa[0][0] == "bin" and pa[0][1] == "-":
                gpt = ("sub", gp_term, ("tuple", (n_term, gi))) if gp_term else None
                ok_d = True if {pa[0][2], pa[0][3]} == {gpt, ("attr", snap, "positions")} else None
            run.ob("R-PBC", fq, f"{name}:distance", ok_d, "distance is |minimum image of grid point - particle positions| of the same frame",
                   show(inner)[:120] if inner else show(dist)[:100], witness=None if ok_d else "distance not between grid point i and the frame's particles",
                   loc=loc_of(it, ev))
            if pa:
                ok_h = eqv(pa[1], ("attr", snap, "hmatrix"))
                run.ob("R-PBC", fq, f"{name}:cell", ok_h, "minimum image uses the frame's cell", show(pa[1])[:60],
                       witness=None if ok_h else "cell of another frame", loc=loc_of(it, ev), sound=True)
                want_ppp = ("sub", ("sym", "ppp"), ("slice", NONE, ("call", "builtins.len", (("sym", "ngrids"),), ()), NONE))
                ok_m = eqv(pa[2], want_ppp, ("sym", "ppp")) if pa[2] is not None else False
                run.ob("R-PBC", fq, f"{name}:mask", ok_m, "periodicity mask (cut to the dimension) is forwarded", show(pa[2])[:60] if pa[2] else "default",
                       witness=None if ok_m else "mask not forwarded", loc=loc_of(it, ev), sound=True)


def check_spatial_average(run, pkg):
    it = interp(pkg, f"{MOD}.spatial_average")
    fi = it.fi
    fq = short(fi.qual)
    ip = ("sym", "input_property")
    if len(it.returns) != 1:
        raise AnalysisError("spatial_average: expected one return")
    cg = it.returns[0].data["value"]
    ok_copy = cg[0] == "call" and cg[1] in ("numpy.copy", ".copy", "numpy.array") and (cg[2] and cg[2][0] == ip)
    run.ob("R-ALG", fq, "start", True if ok_copy else (False if cg == ip else None), "accumulator starts as a copy of the input (the particle itself)", show(cg)[:80],
           witness=None if ok_copy else "the input array itself is accumulated into: the caller's data is modified and neighbours are read half-averaged", loc=fi.loc(), sound=True)
    # "any per-particle property": the accumulator keeps the input's dtype.  A real floating type forced on it discards the
    # imaginary part of a complex property (psi_l, Fourier amplitudes) with no more than a ComplexWarning.
    forced = [(nm, x) for nm, x in dtype_casts(cg) if nm in ("numpy.float64", "builtins.float", "numpy.float32", "numpy.float16", "builtins.int", "numpy.int64", "numpy.int32")]
    run.ob("R-ALG", fq, "start:dtype", not forced, "the accumulator has the dtype of the input property (real, complex, any rank)", show(cg)[:80] if forced else "dtype-preserving copy",
           witness=None if not forced else f"{forced[0][0].split('.')[-1]} is forced on the copy: a complex scalar property (e.g. psi_6 = 0.3 + 0.4j) is averaged as 0.3 - the imaginary part of the mean is lost",
           loc=fi.loc(), sound=True)
    st = [e for e in stores(it) if e.data["target"][1] == cg]
    adds = [e for e in st if e.data["op"] == "+"]
    divs = [e for e in st if e.data["op"] == "/"]
    rn = calls(it, "PyMatterSim.neighbors.read_neighbors.read_neighbors")
    if len(rn) == 1 and (len(adds) != 1 or len(divs) != 1 or len(adds[0].loops) != 3):
        vectorised_spatial_average(run, it, fq, cg, rn[0])
        return
    if len(adds) != 1 or len(divs) != 1 or len(rn) != 1:
        raise AnalysisError(f"spatial_average: expected one accumulation, one division, one reader call; found {len(adds)}, {len(divs)}, {len(rn)}")
    add, div, rd = adds[0], divs[0], rn[0]
    loops = [it.loops[l] for l in add.loops]
    if len(loops) != 3:
        raise AnalysisError("spatial_average: accumulation not inside frame/particle/neighbour loops")
    Ln, Li, Lj = loops
    n, i, j = Ln.target, Li.target, Lj.target
    cn = rd.data["result"]
    ok_dn = eqv(Ln.iter, ("call", "builtins.range", (("sub", ("attr", ip, "shape"), C(0)),), ()))
    ok_di = eqv(Li.iter, ("call", "builtins.range", (("sub", ("attr", ip, "shape"), C(1)),), ()))
    cnt = ("sub", cn, ("tuple", (i, C(0))))
    ok_dj = eqv(Lj.iter, ("sub", cn, ("tuple", (i, ("slice", C(1), ("bin", "+", C(1), cnt), NONE)))), ("sub", cn, ("tuple", (i, ("slice", C(1), ("bin", "+", cnt, C(1)), NONE)))))
    run.ob("R-LOOPDOM", fq, "frames", ok_dn, "every frame is averaged", show(Ln.iter)[:70], witness=None if ok_dn else "frames skipped", loc=fi.loc(Ln.node), sound=True)
    run.ob("R-LOOPDOM", fq, "particles", ok_di, "every particle is averaged", show(Li.iter)[:70], witness=None if ok_di else "particles skipped", loc=fi.loc(Li.node), sound=True)
    run.ob("R-IDX", fq, "neighbours", ok_dj, "neighbours of particle i are columns 1..cn_i of its row (column 0 is the count)", show(Lj.iter)[:90],
           witness=None if ok_dj else "neighbour slice is not [i, 1:1+cn_i]", loc=fi.loc(Lj.node), sound=True)
    ok_t = tri(eqv(add.data["target"][2], ("tuple", (n, i))), eqv(add.data["value"], ("sub", ip, ("tuple", (n, j)))))
    if add.data["value"][0] == "sub" and add.data["value"][1] == cg:
        ok_t = False           # the neighbour term is read from the array being averaged
    run.ob("R-ALG", fq, "sum", ok_t, "adds the *input* value of neighbour j of the same frame to particle i", f"{key_of(add)}",
           witness=None if ok_t else "neighbour term read from another frame / from the partially averaged array", loc=loc_of(it, add), sound=True)
    ok_div = tri(eqv(div.data["target"][2], ("tuple", (n, i))), eqv(div.data["value"], ("bin", "+", C(1), cnt)), True if (set(div.loops) == {Ln.id, Li.id}) else None, True if (div.seq > add.seq) else None)
    run.ob("R-ALG", fq, "mean", ok_div, "divides by 1 + cn_i once per particle, after the neighbour sum", key_of(div),
           witness=None if ok_div else "normalisation is not 1 + coordination number", loc=loc_of(it, div), sound=True)
    # handle protocol
    rc = rd.data["call"]
    handle = rc[2][0] if rc[2] else None
    opened = [e for e in it.events if e.kind == "with" and e.data["value"][0] == "call" and e.data["value"][1] == "builtins.open"]
    ok_h = True if (bool(opened) and handle == opened[0].data["value"] and not opened[0].loops and set(rd.loops) == {Ln.id}) else None
    hopen = [e for e in it.events if (e.kind == "with" and e.data["value"] == handle) or (e.kind == "call" and e.data.get("result") == handle and e.data["call"][1] == "builtins.open")]
    if ok_h is None and hopen and Ln.id in hopen[0].loops:
        ok_h = False       # the handle passed to the reader is opened inside the frame loop
    if ok_h is None and handle is not None and handle[0] == "call" and handle[1] == "builtins.open" and Ln.id in rd.loops and not opened:
        ok_h = False       # open(...) evaluated in the reader call of every frame
    run.ob("R-HANDLE", fq, "reader", ok_h, "the neighbour file is opened once before the frame loop and read once per frame",
           f"read_neighbors in loops {rd.loops}, handle {show(handle)[:50] if handle else None}",
           witness=None if ok_h else "multi-frame files are re-read from the start / read per particle", loc=loc_of(it, rd), sound=True)
    args = rc[2]
    ok_a = tri_lazy(lambda: (True if (len(args) >= 2) else None), lambda: eqv(args[1], ("sub", ("attr", ip, "shape"), C(1))))
    run.ob("R-PROTO", fq, "nparticle", ok_a, "reader is told the particle number of the input", show(args[1])[:60] if len(args) > 1 else "?",
           witness=None if ok_a else "wrong row count consumed per frame", loc=loc_of(it, rd), sound=True)


def vectorised_spatial_average(run, it, fq, cg, rd):
    """Loop-free frame body: the statements that update the frame's slice of the result are replayed, as extracted terms, on
    small zero-padded neighbour tables with unequal coordination numbers (one with a repeated neighbour) and compared with
    (x_i + sum over listed neighbours x_j) / (1 + cn_i).  Scalar, vector and tensor properties."""
    import numpy as np
    from ..concrete import ev as cev, Unsupported
    fi = it.fi
    ip = ("sym", "input_property")
    NL = rd.data["result"]
    if not rd.loops:
        run.ob("R-HANDLE", fq, "reader", None, "one neighbour frame is read per trajectory frame", "reader called outside the frame loop", loc=loc_of(it, rd))
        return
    Lf = it.loops[rd.loops[0]]
    n = Lf.target
    body = [e for e in stores(it) if e.loops == (Lf.id,) and e.data["target"][1] == cg and e.data["target"][2] == n]
    others = [e for e in stores(it) if e.data["target"][1] == cg and e not in body]
    if not body or others:
        run.ob("R-ALG", fq, "form", None, "neighbour-average form recognised", f"{len(body)} frame-slice updates, {len(others)} other stores", loc=fi.loc())
        return
    CN = ("sym", "<cnlist>")
    rng = np.random.default_rng(5)
    bad = None
    try:
        for trial in range(6):
            N = 6
            shape = [(), (2,), (2, 2)][trial % 3]
            X = rng.normal(size=(2, N) + shape)
            cns = [2, 4, 1, 3, 2, 4] if trial % 2 == 0 else [4, 1, 2, 2, 3, 1]
            cn = np.zeros((N, 5), dtype=int)
            for i_ in range(N):
                oth = [j for j in range(N) if j != i_]
                rng.shuffle(oth)
                cn[i_, 0] = cns[i_]
                cn[i_, 1:1 + cns[i_]] = oth[:cns[i_]]
            if trial >= 3:
                cn[1, 2] = cn[1, 1]          # a neighbour listed twice (two periodic images in a small box)
            for fr in (0, 1):
                acc = X[fr].copy()
                env = {ip: X, CN: cn, n: fr}
                for e in body:
                    v = cev(subst(e.data["value"], lambda x: CN if x == NL else (("sub", ip, n) if x == ("sub", cg, n) else None)), env)
                    op = e.data["op"]
                    if op is None:
                        acc = np.asarray(v, dtype=float)
                    elif op == "+":
                        acc = acc + v
                    elif op == "/":
                        acc = acc / v
                    elif op == "*":
                        acc = acc * v
                    elif op == "-":
                        acc = acc - v
                    else:
                        raise Unsupported(op)
                want = np.array([(X[fr, i_] + sum(X[fr, j] for j in cn[i_, 1:1 + cn[i_, 0]])) / (1 + cn[i_, 0]) for i_ in range(N)])
                if np.shape(acc) != want.shape or not np.allclose(acc, want):
                    k = int(np.argmax(np.abs(acc - want).reshape(N, -1).sum(axis=1))) if np.shape(acc) == want.shape else 0
                    bad = (f"neighbour table with coordination numbers {cns}" + (" and a repeated neighbour" if trial >= 3 else "") + f" (zero padded to 4 columns), {['scalar', 'vector', 'tensor'][trial % 3]} property: "
                           f"particle {k} (neighbours {cn[k, 1:1 + cn[k, 0]].tolist()}) gets {np.round(np.ravel(acc[k])[:2], 4).tolist() if np.shape(acc) == want.shape else np.shape(acc)} instead of {np.round(np.ravel(want[k])[:2], 4).tolist()}")
                    break
            if bad:
                break
        run.ob("R-ALG", fq, "mean", bad is None, "x_i + sum over the cn_i listed neighbours of the input x_j, divided by 1 + cn_i (zero padding and the count column excluded); vectorised form "
               "decided on 6 padded neighbour tables x 2 frames", "; ".join(key_of(e)[:70] for e in body), witness=bad, loc=loc_of(it, body[0]), sound=True)   # concrete neighbour table on which the replayed statements differ
    except (Unsupported, Exception) as e:  # noqa
        run.ob("R-ALG", fq, "form", None, "neighbour-average form recognised", f"{type(e).__name__}: {str(e)[:100]}", loc=fi.loc())
    start = cg[0] == "call" and cg[1] in ("numpy.copy", ".copy", "numpy.array", "numpy.zeros_like", "numpy.empty_like") and cg[2] and cg[2][0] == ip
    run.ob("R-ALG", fq, "start", True if start else (False if cg == ip else None), "the result is a fresh array derived from the input (the input is not modified)", show(cg)[:80], witness=None if start else "input aliased", loc=fi.loc(), sound=True)
    rc = rd.data["call"]
    handle = rc[2][0] if rc[2] else None
    opened = [e for e in it.events if e.kind == "with" and e.data["value"][0] == "call" and e.data["value"][1] == "builtins.open"]
    ok_h = True if (bool(opened) and handle == opened[0].data["value"] and not opened[0].loops and set(rd.loops) == {Lf.id}) else None
    run.ob("R-HANDLE", fq, "reader", ok_h, "the neighbour file is opened once before the frame loop and read once per frame", f"read_neighbors in loops {rd.loops}",
           witness=None if ok_h else "multi-frame files are re-read from the start / read per particle", loc=loc_of(it, rd))


def check_time_average(run, pkg):
    it = interp(pkg, f"{MOD}.time_average")
    fi = it.fi
    fq = short(fi.qual)
    sn = ("sym", "snapshots")
    ts = lambda k: ("attr", ("sub", ("attr", sn, "snapshots"), C(k)), "timestep")
    if len(it.returns) != 1 or it.returns[0].data["value"][0] != "tuple" or len(it.returns[0].data["value"][1]) != 2:
        raise AnalysisError("time_average: expected a single return of (averages, middle ids)")
    res, mids = it.returns[0].data["value"][1]
    st = [e for e in stores(it) if e.data["target"][1] == res]
    if len(st) != 1:
        raise AnalysisError("time_average: expected one store into the result array")
    ev = st[0]
    L = it.loops[ev.loops[-1]]
    n = L.target
    val = ev.data["value"]
    # window slice
    w = None
    ok_slice = None
    if val[0] == "call" and val[1] == ".mean" and val[2][0][0] == "sub" and val[2][0][1] == ("sym", "input_property"):
        sl = val[2][0][2]
        if sl[0] == "slice" and sl[1] == n and sl[2][0] == "bin" and sl[2][1] == "+" and n in (sl[2][2], sl[2][3]) and sl[3] == NONE:
            w = sl[2][3] if sl[2][2] == n else sl[2][2]
            ok_slice = eqv(kw(val, "axis", 1), C(0))
        elif sl[0] == "slice" and sl[2] != NONE:
            # upper bound not literally n + w: take the truncated quotient inside it as the window length and compare
            cand = [x for x in walk(sl[2]) if x[0] == "call" and x[1] in ("builtins.int", "math.floor", "numpy.floor", "builtins.round")]
            if cand:
                w = max(cand, key=lambda x: len(show(x)))
                ok_slice = tri(eqv(sl[1], n), eqv(sl[2], ("bin", "+", n, w)), eqv(sl[3], NONE), eqv(kw(val, "axis", 1), C(0)))
    wit_w = "window slice / mean axis differ"
    if ok_slice is not True and val[0] == "call" and val[1] in (".mean", "numpy.mean") and val[2] and val[2][0][0] == "sub" and val[2][0][1] == ("sym", "input_property") \
            and val[2][0][2][0] == "slice" and val[2][0][2][3] == NONE:
        # slice bounds written differently (e.g. around the middle frame): evaluated for window lengths 1..8 with the truncated
        # quotient bound to the length - the slice must be exactly [n, n + w)
        sl = val[2][0][2]
        cand = [x for x in walk(sl) if x[0] == "call" and x[1] in ("builtins.int", "math.floor", "numpy.floor", "builtins.round")]
        if cand:
            wt = max(cand, key=lambda x: len(show(x)))
            from ..concrete import ev as cev
            try:
                bad = None
                for W in range(1, 9):
                    for nv in (0, 1, 5):
                        lo = cev(sl[1], {n: nv, wt: W}) if sl[1] != NONE else 0
                        hi = cev(sl[2], {n: nv, wt: W})
                        if (int(lo), int(hi)) != (nv, nv + W):
                            bad = f"window length {W}, n = {nv}: the mean is taken over frames [{int(lo)}, {int(hi)}) - {int(hi) - int(lo)} frames - instead of [{nv}, {nv + W})"
                            break
                    if bad:
                        break
                if bad:
                    ok_slice, wit_w = False, bad
                elif w is None:
                    w = wt
                    ok_slice = eqv(kw(val, "axis", 1), C(0))
            except Exception:  # noqa
                pass
    run.ob("R-ALG", fq, "window", ok_slice, "row n is the mean over frames n .. n+w-1 (axis 0)", show(val)[:100],
           witness=None if ok_slice else wit_w, loc=loc_of(it, ev), sound=True)
    if w is None:
        return
    # window length definition
    interval = ("bin", "*", ("bin", "-", ts(1), ts(0)), ("sym", "dt"))
    tp = ("sym", "time_period")

    def atom_of(t):
        if t == tp:
            return sp.Symbol("P", positive=True)
        if t == ("sym", "dt"):
            return sp.Symbol("dt", positive=True)
        if t == ts(1):
            return sp.Symbol("t1", positive=True)
        if t == ts(0):
            return sp.Symbol("t0", positive=True)
        # number of frames and the last frame's time step (forms that estimate the interval from the whole trajectory)
        if t in (("attr", ("sym", "snapshots"), "nsnapshots"), ("call", "builtins.len", (("attr", ("sym", "snapshots"), "snapshots"),), ())):
            return sp.Symbol("T", positive=True)
        if t[0] == "attr" and t[2] == "timestep" and t[1] == ("sub", ("attr", ("sym", "snapshots"), "snapshots"), C(-1)):
            return sp.Symbol("tl", positive=True)
        if t[0] == "sub" and t[2] in (C(-1), C(0), C(1)) and any(x[0] == "comp" and x[2][0] == "attr" and x[2][2] == "timestep" for x in walk(t[1])) \
                and any(x == ("attr", ("sym", "snapshots"), "snapshots") for x in walk(t[1])):
            return sp.Symbol({-1: "tl", 0: "t0", 1: "t1"}[t[2][1]], positive=True)
        return None
    P, dt, t1, t0 = sp.symbols("P dt t1 t0", positive=True)
    q = P / ((t1 - t0) * dt)
    tr = S.Translator(atom_of, True)
    gw = tr.tr(w)
    forms_exact = [S.PyInt(q), sp.floor(q), sp.floor(q),
                   S.PyInt(sp.floor(q)), S.PyInt(sp.floor(q))]
    is_trunc = any(S.decide_equal(gw, f_)[0] for f_ in forms_exact)
    ok_rows = None
    shp = res[2][0] if res[0] == "call" and res[1] == "numpy.zeros" and res[2] else None
    if shp is not None and shp[0] == "tuple":
        ok_rows = eqv(shp[1][0], ("bin", "-", ("attr", sn, "nsnapshots"), w))
    run.ob("R-ALG", fq, "rows", ok_rows, "number of windows is nsnapshots - w", show(shp)[:80] if shp else "?",
           witness=None if ok_rows else "window count wrong", loc=fi.loc(), sound=True)
    ok_dom = eqv(L.iter, ("call", "builtins.range", (("sub", ("attr", res, "shape"), C(0)),), ()))
    run.ob("R-LOOPDOM", fq, "windows", ok_dom, "every window start is visited", show(L.iter)[:80], witness=None if ok_dom else "windows skipped", loc=fi.loc(L.node), sound=True)
    fd = float_floordiv(w)
    if fd is not None:
        run.ob("R-TRUNC", fq, "window-length:float-floordiv", False, "window length is floor(period/interval), exact multiples included",
               f"w = {show(w)[:100]}: float floor division", witness="time_period = 1.0, frame interval = 0.1 (dt = 0.002, dump every 50 steps): 1.0 // 0.1 == 9.0 -> a window of 9 frames, "
               "the property requires 10 (float floor division rounds the quotient of the binary operands down)", loc=fi.loc(), sound=True)
    elif is_trunc:
        # floor of a float quotient without tolerance: period = k * interval can come out as k - 1
        run.ob("R-TRUNC", fq, "window-length:float-truncation", False, "window length is floor(period/interval), exact multiples included",
               f"w = {sp.sstr(gw)}: a float quotient is truncated with no tolerance",
               witness="period 0.3, interval 0.1: 0.3/0.1 = 2.9999999999999996 -> w = 2, property requires 3", loc=fi.loc(), sound=True)
    elif _not_floor_witness(gw, (P, dt, t1, t0)) is not None:
        run.ob("R-TRUNC", fq, "window-length:not-floor", False, "window length is floor(period/interval)", f"w = {sp.sstr(gw)[:120]}",
               witness=_not_floor_witness(gw, (P, dt, t1, t0)), loc=fi.loc(), sound=True)   # exact evaluation of the extracted form at a quotient well inside (k, k+1)
    else:
        tol_forms = []
        run.ob("R-TRUNC", fq, "window-length", None if tr.atoms or True else True, "window length is floor(period/interval), exact multiples included",
               f"w = {sp.sstr(gw)[:120]}: form not in the idiom table (int(q), floor(q) = reported; tolerant forms must be added after review)",
               loc=fi.loc()) if not _tolerant(gw, q) else run.ob(
            "R-TRUNC", fq, "window-length", True, "window length is floor(period/interval), exact multiples included",
            f"w = {sp.sstr(gw)[:120]} (tolerance-guarded floor)", loc=fi.loc())
    # middle index
    mid_ev = [e for e in it.events if e.kind == "call" and e.data["call"][1] == ".append" and set(e.loops) == set(ev.loops)]
    mterm = None
    mloc = fi.loc()
    if len(mid_ev) == 1:
        mterm = mid_ev[0].data["call"][2][1]
        mloc = loc_of(it, mid_ev[0])
    elif not mid_ev and it.returns and it.returns[0].data["value"][0] == "tuple" and len(it.returns[0].data["value"][1]) == 2:
        # whole-array form: np.arange(number of windows) + offset  ==  window start + offset for every window
        second = strip_alloc(it.returns[0].data["value"][1][1])
        if second[0] == "call" and second[1] in ("numpy.array", "numpy.asarray") and second[2]:
            second = second[2][0]
        if second[0] == "bin" and second[1] == "+":
            for a_, b_ in ((second[2], second[3]), (second[3], second[2])):
                if a_[0] == "call" and a_[1] == "numpy.arange" and len(a_[2]) == 1 and not any(x == n for x in walk(b_)):
                    mterm = ("bin", "+", n, b_)
    if mterm is None:
        run.ob("R-ALG", fq, "middle", None, "middle index appended once per window", f"{len(mid_ev)} appends", loc=fi.loc())
        return
    bad = None
    try:
        for wv in range(1, 9):
            for nv in range(0, 7):
                got = eval_num(mterm, {n: nv, w: wv})
                allowed = {nv + (wv - 1) // 2, nv + wv // 2}
                if got not in allowed or int(got) != got:
                    bad = f"w={wv}, n={nv}: reported {got}, central frame of {list(range(nv, nv + wv))} is {sorted(allowed)}"
                    break
            if bad:
                break
        run.ob("R-ALG", fq, "middle", bad is None, "reported index is the window's central frame for every window length 1..8 and start 0..6",
               f"middle = {show(mterm)}", witness=bad, loc=mloc, sound=True)   # exact integer evaluation on the enumerated windows
    except NotEvaluable as e:
        run.ob("R-ALG", fq, "middle", None, "reported index is the window's central frame", f"not evaluable: {e}", loc=mloc)


def _not_floor_witness(gw, syms):
    """the extracted window-length form evaluated exactly at quotients well away from integers (no rounding-noise excuse):
    a value other than floor(q) is a definite difference"""
    P, dt, t1, t0 = syms
    T_, tl_ = sp.Symbol("T", positive=True), sp.Symbol("tl", positive=True)
    if gw.free_symbols - set(syms) - {T_, tl_}:
        return None
    for per, itv in ((sp.Rational(11, 2), 2), (sp.Rational(15, 2), 2), (sp.Rational(9, 4), 1), (sp.Rational(5, 2), 1), (sp.Rational(7, 2), 1)):
        try:
            # six evenly spaced frames: the last one is five intervals after the first
            val = gw.subs({P: per, dt: sp.Rational(1, 100), t0: 0, t1: itv * 100, T_: 6, tl_: 5 * itv * 100})
            val = sp.nsimplify(val)
        except Exception:  # noqa
            return None
        if not val.is_number or val.has(sp.Function("x").func) and False:
            return None
        if val.is_Integer is not True and not val.is_Rational:
            return None
        want = sp.floor(per / itv)
        if val != want:
            return (f"time_period={float(per)}, frame interval={float(itv)}" + (" (six evenly spaced frames)" if gw.free_symbols & {T_, tl_} else "") +
                    f": period/interval = {float(per / itv)} -> window of {val} frames, floor gives {want}")
    return None


def _tolerant(gw, q):
    """int(q + eps) / floor(q + eps) with a small positive literal eps, or int(round(q, k))-style guarded floors."""
    for fn in ("builtins.int", "math.floor", "numpy.floor"):
        for a in gw.atoms(sp.Function):
            if a.func.__name__ == fn and len(a.args) == 1:
                d = sp.simplify(a.args[0] - q)
                if d.is_number and 0 < d < sp.Rational(1, 1000):
                    return True
    return False
