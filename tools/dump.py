#!/venv/bin/python
"""Debug aid: print the event list of one function's value graph.  usage: tools/dump.py <qualified function> [kinds]"""
import sys, os
sys.path.insert(0, os.path.dirname(os.path.dirname(os.path.abspath(__file__))))
from pmsa.model import Package
from pmsa.vg import interp, show

pkg = Package()
it = interp(pkg, sys.argv[1])
kinds = set(sys.argv[2].split(",")) if len(sys.argv) > 2 else None
for lid, li in it.loops.items():
    print(f"loop {lid} {li.kind} parents={li.parents} iter={show(li.iter)[:150]} target={show(li.target) if li.target else None}")
for e in it.events:
    if kinds and e.kind not in kinds:
        continue
    d = {k: (show(v)[:200] if isinstance(v, tuple) else v) for k, v in e.data.items()}
    g = [(show(c)[:60], p) for c, p in e.guards]
    print(f"{e.seq:4d} L{e.lineno:<4d} {e.kind:<8s} loops={e.loops} guards={g} {d}")
