#!/bin/sh
# usage: tools/try_seed.sh <seed dir> <Cxx> [Cyy ...] : apply patch to /repo, run the checks, undo.
d="$1"; shift
cd /repo || exit 2
if ! git diff --quiet; then echo "repo dirty"; exit 2; fi
git apply "$d/patch.diff" || { echo "patch does not apply"; exit 2; }
for p in "$@"; do
  VERIF_EVIDENCE_DIR=/tmp/ev_seed /verif/check "$p" > /tmp/ev_seed_out.txt 2>&1; rc=$?
  echo "$(basename $d) $p exit=$rc $(grep -c '^VIOLATION' /tmp/ev_seed_out.txt) violations"
  grep -B3 '^VIOLATION' /tmp/ev_seed_out.txt | grep -v '^VIOLATION' | cut -c1-220 | head -8
  grep '^ANALYSIS-ERROR' /tmp/ev_seed_out.txt | cut -c1-220 | head -4
done
git checkout -- . 
