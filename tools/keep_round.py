#!/venv/bin/python
"""Keep every validated change of a scratch worktree round.
usage: tools/keep_round.py seeds|twins [worktree suffixes...]   (default: all /tmp/wt_s* or /tmp/wt_t*)
A seed is kept when its demo exited 0 / non-zero / 0 (pristine / patched / reverted) and the complete baseline suite passed
75/75 with the patch; a twin when its demo exited 0 on both trees.  Calls tools/keep_seed.py / tools/keep_twin.py."""
import glob, json, os, re, subprocess, sys

kind = sys.argv[1]
sub = "_seed" if kind in ("seeds", "seeds5", "seeds6") else "_twin"
pref = {"seeds": "s", "seeds5": "u", "seeds6": "w", "twins": "t", "twins3": "v", "twins4": "x"}[kind]
suffix = {"seeds5": "-r5", "seeds6": "-r6", "twins3": "-r3", "twins4": "-r4"}.get(kind, "")
rnd = {"seeds": "4", "seeds5": "5", "seeds6": "6", "twins": "twins-2", "twins3": "twins-3", "twins4": "twins-4"}[kind]
wts = [f"/tmp/wt_{pref}{x}" for x in sys.argv[2:]] or sorted(glob.glob(f"/tmp/wt_{pref}[0-9][0-9]"))


def section(txt, pats):
    parts = re.split(r"^#+\s*(.+)$", txt, flags=re.M)
    for k in range(1, len(parts) - 1, 2):
        if any(re.search(p, parts[k], re.I) for p in pats):
            return " ".join(parts[k + 1].split())[:700]
    return ""


for wt in wts:
    pid = "C" + wt[-2:]
    for d in sorted(glob.glob(f"{wt}/{sub}/*/")):
        name = os.path.basename(d.rstrip("/"))
        if not os.path.exists(d + "patch.diff") or not os.path.exists(d + "demo.py"):
            continue

        def out(tag):
            p = d + f".demo_out_{tag}.txt"
            return os.path.exists(p)
        if not (out("pristine") and out("patched")):
            print(f"{pid}-{name}: not evaluated, skipped")
            continue
        notes = open(d + "notes.md").read() if os.path.exists(d + "notes.md") else ""
        if kind in ("seeds", "seeds5", "seeds6"):
            st = d + ".suite.txt"
            if not os.path.exists(st) or "stable_pass 75/75" not in open(st).read():
                print(f"{pid}-{name}: full suite missing or not 75/75, skipped")
                continue
            breaks = section(notes, [r"clause", r"broken", r"breaks"]) or " ".join(notes.split())[:400]
            needs = section(notes, [r"manifest", r"trigger", r"needed"])
            subprocess.run(["/verif/tools/keep_seed.py", wt, name, pid, "--breaks", breaks, "--needs", needs, f"--suffix={suffix}", "--round", rnd])
        else:
            subprocess.run(["/verif/tools/keep_twin.py", wt, name, pid, f"--suffix={suffix}", "--round", rnd])
