#!/venv/bin/python
"""Copy a validated seed from a scratch worktree into /verif/seeded/<pid>-<name>/ with meta.json.
usage: tools/keep_seed.py <worktree> <seed name> <Cxx> --breaks "..." --needs "..."
Reads the artefacts left by tools/seed_eval.sh (.demo_out_*.txt, .check_Cxx.txt) and tools/seed_fullsuite.sh (.suite.txt)."""
import argparse, json, os, re, shutil, glob

ap = argparse.ArgumentParser()
ap.add_argument("wt"); ap.add_argument("name"); ap.add_argument("pid")
ap.add_argument("--suffix", default="")
ap.add_argument("--round", default="")
ap.add_argument("--breaks", default=""); ap.add_argument("--needs", default=""); ap.add_argument("--note", default="")
a = ap.parse_args()
src = os.path.join(a.wt, "_seed", a.name)
dst = os.path.join("/verif/seeded", f"{a.pid}-{a.name}{a.suffix}")
os.makedirs(dst, exist_ok=True)
for f in ("patch.diff", "demo.py", "notes.md"):
    if os.path.exists(os.path.join(src, f)):
        shutil.copy(os.path.join(src, f), os.path.join(dst, f))
# the demo must not depend on the scratch path
demo = open(os.path.join(dst, "demo.py")).read()
open(os.path.join(dst, "demo.py"), "w").write(demo.replace(a.wt, "<worktree>"))
det = {}
for f in sorted(glob.glob(os.path.join(src, ".check_*.txt"))):
    pid = re.search(r"\.check_(C\d+)\.txt", f).group(1)
    txt = open(f).read()
    keys = re.findall(r"rule=(\S+) function=(\S+) key=\[(.*?)\]\n", txt)
    nviol = len(re.findall(r"^VIOLATION", txt, re.M))
    status = "VIOLATION" if nviol else ("ANALYSIS-ERROR" if "ANALYSIS-ERROR" in txt else "silent")
    det[pid] = {"result": status, "violations": nviol, "first_reports": [f"{r} {fn} [{k}]" for r, fn, k in keys[:4]]}
suite = None
sp_ = os.path.join(src, ".suite.txt")
if os.path.exists(sp_):
    suite = open(sp_).read().strip().splitlines()
def first(f):
    p = os.path.join(src, f)
    return open(p).read().strip().splitlines()[-1][:300] if os.path.exists(p) and open(p).read().strip() else ""
meta = {
    "property": a.pid,
    "seed": a.name,
    "round": a.round,
    "origin": "written by an independent sub-agent that was given only the property text and a scratch worktree (nothing from /verif)",
    "breaks": a.breaks,
    "needs_to_manifest": a.needs,
    "what_i_ran": {
        "demo": "PYTHONPATH=<worktree> /venv/bin/python demo.py : exit 0 on the pristine worktree, non-zero with patch.diff applied, 0 again after reverting (tools/seed_eval.sh)",
        "demo_failure_with_patch": first(".demo_out_patched.txt"),
        "suite": "complete baseline suite in a fresh worktree with the patch applied (tools/seed_fullsuite.sh)",
        "suite_result": suite,
        "checks": "VERIF_REPO=<patched worktree> /verif/check Cxx (same code path as against /repo)",
    },
    "detected_by": det,
    "note": a.note,
}
json.dump(meta, open(os.path.join(dst, "meta.json"), "w"), indent=1)
print(dst, {k: v["result"] for k, v in det.items()}, suite[0] if suite else "suite pending")
