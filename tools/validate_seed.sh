#!/bin/sh
# usage: tools/validate_seed.sh <seed dir> <scratch worktree> <test paths...>
# confirms: demo PASS on pristine, FAIL with patch, listed tests pass with patch; leaves the worktree pristine.
d="$1"; wt="$2"; shift 2
log="$d/validation.log"
: > "$log"
cd "$wt" || exit 2
git checkout -q -- . 
run_demo() { PYTHONPATH="$wt" /venv/bin/python "$d/demo.py" >> "$log" 2>&1; echo $?; }
echo "== demo on pristine" >> "$log"; p0=$(run_demo)
git apply "$d/patch.diff" || { echo "PATCH-FAIL" >> "$log"; echo "$(basename $d): patch does not apply"; exit 1; }
echo "== demo with patch" >> "$log"; p1=$(run_demo)
echo "== tests with patch: $*" >> "$log"
PYTHONPATH="$wt" /venv/bin/python -m pytest -q -p no:cacheprovider --timeout=900 "$@" >> "$log" 2>&1; t=$?
git checkout -q -- .
echo "== demo after revert" >> "$log"; p2=$(run_demo)
res="pristine=$p0 patched=$p1 tests_exit=$t reverted=$p2"
echo "$res" >> "$log"
if [ "$p0" = 0 ] && [ "$p1" != 0 ] && [ "$t" = 0 ] && [ "$p2" = 0 ]; then echo "$(basename $d): CONFIRMED $res"; else echo "$(basename $d): REJECTED $res"; fi
