#!/bin/bash
# usage: tools/mutrun.sh <mutant-id> <Cxx> : apply one self-test variant to a scratch copy and show the non-held obligations
id=$1; prop=$2
/venv/bin/python - "$id" "$prop" <<'PY'
import sys, os, shutil, subprocess, tempfile, json
sys.path.insert(0, '/verif/selftest')
import run as R
m=[x for x in R.load_mutants() if x['id']==sys.argv[1]][0]
tmp=tempfile.mkdtemp(prefix='pmsa-mut-')
try:
    shutil.copytree('/repo/PyMatterSim', tmp+'/PyMatterSim')
    if m.get('patch'):
        subprocess.run(['git','apply','--whitespace=nowarn',m['patch']],cwd=tmp,check=True)
    else:
        for file, old, new in (m.get('edits') or [(m['file'], m['old'], m['new'])]):
            p=tmp+'/PyMatterSim/'+file; s=open(p).read(); assert old in s; open(p,'w').write(s.replace(old,new))
    env=dict(os.environ, VERIF_REPO=tmp, VERIF_EVIDENCE_DIR=tmp+'/evidence')
    p=subprocess.run(['/verif/check', sys.argv[2], '--tier', 'quick'], env=env, capture_output=True, text=True)
    print('exit', p.returncode)
    print(p.stdout[-1500:])
    ev=json.load(open(tmp+'/evidence/'+sys.argv[2]+'.json'))
    def find(o):
        if isinstance(o, dict):
            if o.get('status') in ('undecided','violated') or o.get('verdict') in ('undecided','violated'):
                print(json.dumps(o)[:900])
            for v in o.values(): find(v)
        elif isinstance(o, list):
            for v in o: find(v)
    find(ev)
finally:
    shutil.rmtree(tmp)
PY
