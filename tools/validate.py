#!/opt/veriftools/pyvenv/bin/python
"""Validate MANIFEST.json and every evidence file against the given schemas (run with python3-vt)."""
import json, sys, glob, jsonschema
ok = True
m = json.load(open('/verif/MANIFEST.json'))
try:
    jsonschema.validate(m, json.load(open('/root/.vp/MANIFEST.schema.json')))
except Exception as e:
    ok = False; print("MANIFEST:", str(e)[:400])
es = json.load(open('/root/.vp/EVIDENCE.schema.json'))
for c in m["checks"]:
    try:
        jsonschema.validate(json.load(open(c["evidence_file"])), es)
    except Exception as e:
        ok = False; print(c["property_id"], str(e)[:400])
print("valid" if ok else "INVALID")
sys.exit(0 if ok else 1)
