#!/bin/bash
# usage: tools/stfail.sh Cxx : run the self-test of one property and list failing variants with the obligation they should hit
/venv/bin/python /verif/selftest/run.py $1 2>&1 > /tmp/st_$1.log
grep -E "^FAIL|^SELFTEST" /tmp/st_$1.log | awk '{print $2, $5, $6}' > /tmp/st_$1.fail
/venv/bin/python - $1 <<'PY'
import sys
sys.path.insert(0,'/verif/selftest')
import run as R
ms={m['id']:m for m in R.load_mutants()}
for l in open(f'/tmp/st_{sys.argv[1]}.fail'):
    i=l.split()[0].rstrip(':')
    m=ms.get(i,{})
    print(l.strip(), '->', m.get('mention'))
PY
tail -1 /tmp/st_$1.log
