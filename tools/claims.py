# Executed by mkmanifest.py: one claim(...) per property whose check is built and silent on the unchanged tree.

claim("C12", "proof",
      "Every clause of the property is a functional identity and is decided as one: the three closed forms returned by each "
      "model are read from the syntax tree, expanded through the constructor, and shown equal (exact symbolic normal forms, "
      "positive symbols) to d/dr and d2/dr2 of the potentials documented in docs/hessian.md; the cutoff term is s'(r_c) on the "
      "shift arm and 0 otherwise; the dispatcher is shown exhaustive over ModelName with correct parameter routing. "
      "28 obligations, all discharged symbolically - no sampling.",
      "Trusted: the transcription of the documented potentials in pmsa/checks/c12.py, the numpy->arithmetic translation table "
      "(pmsa/sym.py), sympy's differentiation/simplification. Floating-point rounding is out of scope. Hertz identities are "
      "established on the model's domain r < sigma.",
      "value-graph term extraction + exact symbolic identity (R-ALG), dispatcher exhaustiveness table (R-DISPATCH)",
      "DESIGN.md section 4, C12")

claim("C08", "proof",
      "All 121 tabulated closed forms (SphHarm0..10) are read from the syntax tree and proved equal, as identities in both "
      "angles, to Y_lm generated from the definition (Rodrigues formula, Condon-Shortley phase) by reduction to the canonical "
      "form A(c,z)+s*B(c,z) with exact radical coefficients; entry k is shown to be m = k-l. The dispatcher is decided on "
      "l=1..12 (each l<=10 returns its own table with (theta,phi) in order, l>10 delegates, nothing falls through); the "
      "delegated call is checked against the library's argument convention through the import and its fallback wrapper; the "
      "imported API must exist or be guarded with a fallback. The consequences named in the property (sum rule, conjugation "
      "symmetry) follow from equality with the definition.",
      "Trusted: the definition of Y_lm coded in pmsa/checks/c08.py, sympy exact arithmetic, the documented argument order of "
      "scipy.special.sph_harm / sph_harm_y (signature table); for l > 10 scipy's numerical values are trusted, only the call "
      "convention is decided. cmath/numpy elementary functions are read as the mathematical functions.",
      "closed-form table vs generated definition by canonical-form identity (R-TABLE-YLM); dispatcher exhaustiveness "
      "(R-DISPATCH); library call-convention table (R-ANGLE); import resolution (R-API)",
      "DESIGN.md section 4, C08")
