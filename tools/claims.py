# Executed by mkmanifest.py: one claim(...) per property whose check is built and silent on the unchanged tree.

claim("C12", "proof",
      "Every clause of the property is a functional identity and is decided as one: the three closed forms returned by each "
      "model are read from the syntax tree, expanded through the constructor, and shown equal (exact symbolic normal forms, "
      "positive symbols) to d/dr and d2/dr2 of the potentials documented in docs/hessian.md; the cutoff term is s'(r_c) on the "
      "shift arm and 0 otherwise; the dispatcher is shown exhaustive over ModelName with correct parameter routing. "
      "28 obligations, all discharged symbolically - no sampling.",
      "Trusted: the transcription of the documented potentials in pmsa/checks/c12.py, the numpy->arithmetic translation table "
      "(pmsa/sym.py), sympy's differentiation/simplification. Floating-point rounding is out of scope. Hertz identities are "
      "established on the model's domain r < sigma.",
      "value-graph term extraction + exact symbolic identity (R-ALG), dispatcher exhaustiveness table (R-DISPATCH)",
      "DESIGN.md section 4, C12")

claim("C08", "proof",
      "All 121 tabulated closed forms (SphHarm0..10) are read from the syntax tree and proved equal, as identities in both "
      "angles, to Y_lm generated from the definition (Rodrigues formula, Condon-Shortley phase) by reduction to the canonical "
      "form A(c,z)+s*B(c,z) with exact radical coefficients; entry k is shown to be m = k-l. The dispatcher is decided on "
      "l=1..12 (each l<=10 returns its own table with (theta,phi) in order, l>10 delegates, nothing falls through); the "
      "delegated call is checked against the library's argument convention through the import and its fallback wrapper; the "
      "imported API must exist or be guarded with a fallback. The consequences named in the property (sum rule, conjugation "
      "symmetry) follow from equality with the definition. Also: The dispatcher is specialised to each degree (constant module-level lookup tables are read through), the delegated call may be one vectorised call over np.arange(-l, l+1), and the azimuth handed to the library is decided arm by arm (phi + 2 pi k passes; a reflection or a shift by pi is refuted with the phase each order picks up).",
      "Trusted: the definition of Y_lm coded in pmsa/checks/c08.py, sympy exact arithmetic, the documented argument order of "
      "scipy.special.sph_harm / sph_harm_y (signature table); for l > 10 scipy's numerical values are trusted, only the call "
      "convention is decided. cmath/numpy elementary functions are read as the mathematical functions.",
      "closed-form table vs generated definition by canonical-form identity (R-TABLE-YLM); dispatcher exhaustiveness "
      "(R-DISPATCH); library call-convention table (R-ANGLE); import resolution (R-API)",
      "DESIGN.md section 4, C08")

claim("C03", "other",
      "Decides the structural clauses of the property for all inputs: (i) species-pair -> column classification, "
      "exhaustively for K=2..5 - the selector of every np.histogram call site is evaluated on all 54 ordered (type_i,type_j) "
      "pairs and exactly the column gr{min}{max} must be selected; (ii) every one of the 39 normalisation statements, reduced "
      "through __init__ to a monomial in (count, V, N, N_a, T, shell volume), equals 2cV/(N_a^2 T shell) on the diagonal and "
      "cV/(N_a N_b T shell) off it; bins = int(L_min/(2 rdelta)), range (0, maxbin*rdelta), r = bin centre; (iii) the pair loop "
      "visits each unordered pair of each frame once with type slices aligned to distance slices; (iv) the minimum image uses "
      "the same frame's cell and the instance mask; (v) dispatch on K incl. K>5 -> total only; (vi) CSV written from the "
      "returned frame after normalisation. The identity total = sum c_a c_b g_ab is a consequence of (i)+(ii) in exact "
      "arithmetic. Not decided: np.histogram's bin-edge semantics, floating-point binning, type ids outside 1..K.",
      "Trusted: numpy histogram/norm semantics, the idiom tables of pmsa/checks/grlib.py (forms of selectors, of the pair "
      "difference and of the row-wise norm that are recognised; anything else is reported as ANALYSIS-ERROR, not as a "
      "violation), sympy rational-function arithmetic. remove_pbc itself is decided under C02.",
      "finite decision table over species pairs (R-SEL), value-graph normal forms of normalisation monomials (R-ALG), "
      "index-set alignment and loop-domain rules (R-ALIGN, R-LOOPDOM), call-site argument roles (R-PBC), dispatcher table, "
      "save-site ordering (R-SAVE)",
      "DESIGN.md section 4, C03")

claim("C18", "other",
      "Decides, for all 127 functions of the package and every input, the structural core of purity: (i) no mutating construct "
      "(subscript store, in-place operator on an array alias, in-place method, out=, shuffle, or a callee whose summary "
      "mutates that parameter) targets memory that may alias a parameter, a constructor argument (via self) or a module "
      "global - interprocedural may-alias analysis with view/copy semantics of numpy indexing; default-argument arrays count "
      "as parameters; (ii) no attribute store on a frozen dataclass instance; (iii) print-option dependent formatting is "
      "dominated by set_printoptions(threshold=inf, linewidth=inf), no RNG, no clock value reaches results, no global "
      "writes; (iv) each of the 64 np.save/np.savetxt/to_csv sites has path and data in the right slots, a file requested "
      "through the function's own path parameter holds an object the call returns, and that object is not modified between "
      "save and return. Not decided: bit-identity of library results, dependence of methods on attributes set by earlier "
      "methods (by design). Also: R-STATE: a method that reuses an instance attribute as a cached value must store there exactly what the non-cached arm computes; memoising decorators on routines that read files are refuted; a file named <output>+suffix whose content is returned rescaled by constants is refuted.",
      "Assumptions (also written to the evidence): third-party calls return fresh objects and do not mutate their arguments "
      "except for the tabled view-returning / mutating functions in pmsa/effects.py; advanced (boolean / integer-array) "
      "indexing on a read yields a copy, basic indexing a view; names annotated int/float/str/bool are immutable scalars. "
      "A mutation through an unanalysable alias (getattr, exec) would be missed; none exists in the package.",
      "interprocedural may-alias + effect summaries on the value graph (R-EFFECT), frozen-dataclass typestate (R-FROZEN), "
      "dominance of ambient-state writers (R-AMBIENT), save-site role/identity/ordering rules (R-SAVE); synthetic canaries "
      "in the thorough tier",
      "DESIGN.md section 4, C18")

claim("C16", "other",
      "Decides the structural clauses for all grid extents and window lengths: the flat grid index of gaussian_blurring equals "
      "the row-major bijection with x slowest as a polynomial identity in loop variables and extents (2D and 3D; a collision / "
      "overflow / order witness is produced when it fails); each grid axis uses its own bounds and count; the Gaussian weight "
      "equals exp(-d^2/2s^2)/sqrt(2 pi s^2); the cutoff selection is applied to weights and property of the same frame; sums "
      "run over particles with the rank-wise broadcast; distances are minimum-imaged with the frame's cell; spatial_average "
      "is (x_i + sum over listed neighbours of the *input*)/(1+cn_i) per frame with one open handle; time_average uses the "
      "slice [n:n+w], mean over axis 0, and a middle index that is the central frame for every w=1..8, n=0..6; the "
      "window-length truncation rule reports int(float quotient) (known finding G16). Not decided: minimum-image distances on "
      "data, numpy broadcasting semantics. Also: A window length that differs from floor(period/interval) at a quotient well inside (k, k+1) is a violation of its own (key window-length:not-floor), separate from the known float-truncation finding G16.",
      "Trusted: numpy linspace/mean/sum semantics; idiom tables in pmsa/checks/c16.py (forms outside them give ANALYSIS-ERROR). "
      "The R-TRUNC finding is listed in known_findings.json and printed as KNOWN-FINDING.",
      "polynomial identity on the extracted index expression with finite witness search (R-LINEAR), value-graph formula and "
      "slice-alignment rules (R-ALG, R-ALIGN, R-PBC), file-handle typestate (R-HANDLE), truncation idiom rule (R-TRUNC)",
      "DESIGN.md section 4, C16")

claim("C11", "other",
      "Decides, for all configurations, the algebraic and index structure that makes the assembled matrix M^-1/2 (d2U/dr dr) "
      "M^-1/2: every entry of the 2D and 3D pair block equals s2 x_a x_b/r^2 + (s1-s1rc)(delta_ab/r - x_a x_b/r^3) as a "
      "rational function, all ndim^2 entries are assigned, each is even in the pair vector (=> block(i,j)=block(j,i)), the "
      "j-block is the negated i-block; prefactor[a,b]=1/sqrt(m[a+1] m[b+1]); a block stored at rows of particle p and columns "
      "of particle q is scaled by prefactor[type_p-1,type_q-1] (this rule found the diagonal-block defect G4); diagonal "
      "accumulates, off-diagonal is the negated block; epsilon, sigma, r_c indexed by the same (type_i,type_j), cutoff tested "
      "inclusively against the r_c handed to the potential, r is the norm of the vector handed to pair_matrix, j != i; eigh on "
      "the assembled matrix, modes are columns, omega = sqrt(lambda>0), matrix saved before deletion. s', s'' themselves are "
      "C12. Not decided: agreement with finite differences on data, numerical null space.",
      "Trusted: numpy.linalg.eigh/norm semantics; idiom tables in pmsa/checks/c11.py; C12 for the derivative triple; C02 for "
      "remove_pbc.",
      "rational-function identity on extracted block entries (R-ALG), placement/prefactor index agreement (R-IDX), guard and "
      "loop-domain rules, save ordering (R-SAVE)",
      "DESIGN.md section 4, C11")

claim("C02", "other",
      "Decides the form of the computation for all cells, displacements and masks: remove_pbc's return term is well-typed in a "
      "row-vector coordinate-frame system (R:(Pt,Cart), H:(Frac,Cart); inverse/transposes swap sorts; products contract equal "
      "sorts; the mask multiplies fractional components; rounding is to nearest, not directed) and equals "
      "R - (mask (.) nearest(R H^-1)) H in non-commutative matrix algebra. Hence the result differs from the input by an "
      "integer combination of the periodic cell vectors, non-periodic fractional components are untouched and periodic ones "
      "are nearest-rounded into [-1/2, 1/2]. All 27 call sites are checked for (displacement, cell of a snapshot that supplied "
      "a position, caller's mask). Not decided: behaviour at exact half-cell ties, idempotence and shortest-image on actual "
      "floats (consequences of the form in exact arithmetic), np.linalg.inv accuracy. Also: Several returns (fast paths) are folded into one conditional value and refuted with a concrete cell when an arm differs; transposed (column-vector) forms are covered by the algebra (transposes pushed to the leaves); the result may not read module-level state refreshed on an identity test of the argument.",
      "Trusted: numpy dot/inv/rint semantics; the frame-typing and algebra grammars in pmsa/checks/c02.py (other forms give "
      "ANALYSIS-ERROR). When the identity fails the extracted term - not the repository function - is evaluated on concrete "
      "small matrices solely to print a witness.",
      "coordinate-frame type inference on the value graph (R-FRAME), non-commutative normal form identity (R-ALG), "
      "call-site argument-role rule over the whole package (R-PBC)",
      "DESIGN.md section 4, C02")

claim("C01", "other",
      "For all 12 configurations {2D,3D} x {orthogonal, triclinic} x {x, xs, xu} the reader is abstractly interpreted (header "
      "loops unrolled, atom loop symbolic, every readline a distinct line) and each field handed to SingleSnapshot is resolved "
      "to an exact expression in the file's tokens. Decided for all files: nine header lines consumed (third bounds line also "
      "in 2D), timestep/N from lines 2/4, style from line 9, N atom lines, EOF sentinel; bounds, box lengths, triclinic real "
      "bounds (min/max of tilt combinations, exact |.| rewriting) and every h-matrix entry equal the LAMMPS conventions; scaled "
      "coordinates map through that same h-matrix plus the real lower corner (found G1, G2); unwrapped coordinates verbatim; "
      "wrapped orthogonal coordinates +L below lo / -L above hi; rows placed by atom id - 1, type from column 2, coordinates "
      "from columns 3..2+ndim counted from the front (extra trailing columns ignored); every (cell, style) has an atom branch "
      "(found G3); wrappers append in read order, count once per frame, stop on the sentinel, one handle; every DumpFileType "
      "member is mapped and receives exactly its parameters. Not decided: float()/int() parsing of numerals, malformed files, "
      "excursions larger than one box length. Also: A wrap applied under a run-time test is additionally decided by evaluating the extracted test on concrete one-atom frames in which exactly one coordinate lies outside its own axis range; vectorised scaled->Cartesian maps (matrix products) are resolved entry by entry; readers carry no result cache keyed on the file name.",
      "Trusted: str.split / float / int semantics, numpy zeros/vstack/diag/where semantics as modelled in pmsa/arr.py; the "
      "LAMMPS conventions transcribed in pmsa/checks/readerlib.py (reference_cell).",
      "per-configuration abstract interpretation with small-array resolution; exact algebraic comparison of resolved fields "
      "with the LAMMPS reference (R-ALG), line-protocol counting (R-PROTO), index-role rules (R-IDX), branch exhaustiveness "
      "(R-SIB), loop/typestate rules for wrappers, dispatch table",
      "DESIGN.md section 4, C01")

claim("C14", "other",
      "All six (rank, spacing) arms of time_correlation are selected by folding the rank and spacing tests and decided "
      "structurally for every series: evenly spaced frames visit every pair 0<=origin<=later<=T-1 once (later over range(T), "
      "lag over range(later+1)), store at slot = later-origin, count once per contribution and divide by the counts; unevenly "
      "spaced frames use origin 0 only; in every arm the product is (later value) x conj(earlier value), reduced by the real "
      "part of the sum over particles (and components) or the per-particle trace of the matrix product; the series is divided "
      "by its lag-zero value; t = (timestep - first) dt; the CSV is the returned frame. The spacing test itself is decided by "
      "evaluating the extracted condition on 9 timestep sequences (evenly spaced, unevenly spaced incl. symmetric patterns). "
      "Not decided: floating-point summation order. Also: Arms written without loops (dot / tensordot / einsum / broadcast sums) are decided exactly, as polynomial identities, on arrays of distinct symbolic complex entries of shape T=3, N=2(, d=2(, d=2)).",
      "Trusted: numpy sum/conj/trace/matmul semantics; idiom table of product forms in pmsa/checks/c14.py (other forms give "
      "ANALYSIS-ERROR). The spacing predicate is decided on a finite list of timestep sequences, not for all sequences.",
      "branch folding + statement parsing into (factor, factor, reduction) with frame-index / conjugation / slot rules "
      "(R-SIB, R-LOOPDOM), algebraic time axis (R-ALG), finite decision of the spacing predicate on the extracted condition",
      "DESIGN.md section 4, C14")

claim("C06", "other",
      "Dynamics / LogDynamics are abstractly interpreted under combinations of (wrapped-only flag, neighbour lists, selection, "
      "slow/fast) - 6 in the quick tier, all 16 in the thorough tier - and decided structurally for every trajectory: the "
      "linear variant visits every pair 0<=origin<end<=T-1 once (slot lag-1, one count per visit, all accumulators divided by "
      "the counts), the log variant uses origin 0; initial positions, the cell handed to remove_pbc, the neighbour list and the "
      "selection all belong to the origin frame and end positions to the end frame (each per-pair kernel is compared as a whole "
      "term with the definition); remove_pbc applied exactly when __init__ saw wrapped coordinates only (all three input "
      "combinations); kernels isf=mean cos(q_i dr), overlap with '<' slow / '>' fast, msd, r4; chi4=(<Q^2>-<Q>^2) N_sel, "
      "alpha2=alpha2factor(d) r4/r2^2-1 with the 3/5, 1/2 table, q_i=qconst/d_i, (a d_i)^2, time=(t[1:]-t[0])dt; sq4 uses "
      "n_t=round(t/time[0]), origins 0..T-1-n_t, the origin frame for S(q), mobility mask with origin-frame quantities, mean over "
      "origins; cage_relative = r_i - mean of columns 1..cn_i (a loop-free rewrite is decided by evaluating the extracted term on "
      "padded neighbour tables); neighbour-file handle protocol. Not decided: equality of wrapped/unwrapped results on data, "
      "S4 values.",
      "Trusted: numpy mean/sum/cos semantics, C02 for remove_pbc, C13/C04 for conditional_sq; idiom tables in "
      "pmsa/checks/c06.py. The quick tier covers every guarded statement in both polarities but not every flag combination.",
      "flag-folded abstract interpretation; whole-term comparison of per-pair kernels and final columns in exact algebra "
      "(R-SIB, R-ALG); loop-domain / slot / count rules (R-LOOPDOM); constructor flag table (R-PBC); handle typestate (R-HANDLE)",
      "DESIGN.md section 4, C06")

claim("C04", "other",
      "Decides for sq.unary..quinary and every input: per-particle routing (type t feeds exactly 'all' and 'tt', K=2..5, "
      "accumulators reset every frame); phase factor exp(-i q.r) with q.r summed over axes of the current frame's particle; each "
      "of the 39 columns accumulates Re(acc[aa] conj(acc[bb])) with keys matching its name, once per frame after the particle "
      "sum; the 39 normalisations T N, T N_a, T sqrt(N_a N_b) with indices matching names; q = integer vector x 2 pi/L axis "
      "by axis and |q| row norm, for explicit and default vectors; numofq = int(2 qrange/min(2 pi/L)); round(6) before the "
      "group-by-|q| mean; default generator: same half-open range on every axis, integer-norm predicate over all components, "
      "index advance, capacity, zero/unused rows removed, onlypositive bool vs axis strings and its >= 0 comparator; dispatch on "
      "K; CSV = returned frame. The sum rule N S = sum N_a S_aa + 2 sum sqrt(N_a N_b) S_ab follows from routing + products + "
      "normalisations in exact arithmetic. Not decided: numerical values, pandas groupby semantics.",
      "Trusted: numpy exp/sum/norm and pandas round/groupby semantics; idiom tables in pmsa/checks/c04.py.",
      "guard-chain decision table over type ids (R-ROUTE), statement parsing of products and exact algebra of normalisations "
      "(R-ALG), ordering rule on the return term (R-ORDER), loop-nest rules for the wave-vector generator (R-LOOPDOM, R-CMP)",
      "DESIGN.md section 4, C04")

claim("C05", "other",
      "Decides, for every configuration, the form of the three neighbour routines and of the file round trip: (i) the value "
      "written for particle i is decoded into a selection pipeline and interpreted against numpy's documented contracts - "
      "N-nearest: argpartition(kth)[:m] with m-kth in {0,1} (or a full argsort), sorted by the distances gathered with the same "
      "candidates, ranks [1, N+1) kept, +1; cutoff: mask d <= cutoff (inclusive, comparator normalised), sorted by gathered "
      "distances, first dropped, +1; the cn field equals the number of ids on the line; (ii) distances are row norms of "
      "remove_pbc(positions - positions[i], the frame's cell, the caller's mask); (iii) per-type cutoffs: table[a, j] = "
      "r_cut[a, type_j - 1] filled for all entries, row = centre type - 1; (iv) writers emit per frame one header carrying the "
      "token `neighborlist` and one `id cn ids` line per particle (print options set before array2string, brackets blanked, "
      "newline-terminated), from one handle opened before and closed after the frame loop; (v) the reader, decided symbolically "
      "for cn <,=,> Nmax x list/weights: one header + nparticle lines per call from the caller's handle, row = id - 1, count = "
      "min(cn, Nmax), columns [1, 1+c) from tokens [2, 2+c), -1 only for neighbour lists, zeros allocation (padding), trim to "
      "max_cn + 1 columns when below Nmax, integer cast only for lists; (vi) all 12 read_neighbors call sites open the file once "
      "outside the frame loop and read once per frame in order. Not decided: tie-breaking of argsort/argpartition, symmetry of the "
      "cutoff relation (follows from symmetric distances), str()/int() parsing of numerals. Also: The type-pair cutoff table, when built by fancy indexing instead of loops, is decided exactly on a 3 x 3 table of distinct symbols and five typed particles. An argpartition pivot must be a valid index of the smallest admissible distance array (found G18).",
      "Trusted: numpy argpartition/argsort/boolean-mask semantics as documented; the idiom tables of pmsa/checks/c05.py (selection "
      "and text forms outside them are ANALYSIS-ERROR). Concrete evaluation of the extracted selection term on small distance "
      "arrays is used only to print a witness for an already failed structural obligation. remove_pbc itself is decided under C02.",
      "abstract interpretation of selection pipelines (R-SELECTK), comparator normalisation (R-CMP), index base/sort rules (R-IDX), "
      "writer line templates vs reader consumption with symbolic case analysis in (cn, Nmax) (R-PROTO), file-handle typestate at "
      "all reader call sites (R-HANDLE), call-site argument roles of remove_pbc (R-PBC)",
      "DESIGN.md section 4, C05")

claim("C13", "other",
      "conditional_gr is interpreted once per kind (bool, complex, real scalar, vector, tensor, unknown) and conditional_sq once "
      "per kind (bool, vector, scalar) with the kind tests folded. Decided for all inputs: every kind reaches its own weight "
      "form and an unknown conditiontype raises; weights are Re(A_j conj A_i) with exactly one conjugated factor (complex, "
      "vector), summed over components (vector), tr(A_i A_j) with slot j <-> particle i+1+j (tensor, decided on all i, j for "
      "N=6), and belong to the same particles as the distance slice; both histograms bin the same minimum-image distances "
      "(snapshot's cell, caller's mask) on the grid bins=int(L_min/(2 rdelta)), range (0, maxbin rdelta); normalisations reduce "
      "to 2cV/(N^2 shell) with N = selected count for bool - the diagonal-partial monomial of gr.* with T=1 - and particle count "
      "otherwise; gA_norm = (gA-<A>^2)/(<A^2>-<A>^2) exists only on the real-scalar arm, from the normalised gA. S(q): "
      "q = n x 2 pi/L per axis, |q| row norm; F = sum_i [A_i] exp(-i q.r_i) over the (selected) particles with A_i and r_i of "
      "the same particle, divided by sqrt(N_sel) / sqrt(N) before the modulus; S = Re(F conj F) (summed over components for "
      "vectors); FFT column = F; values rounded before the average over equal |q|. A=1 -> totals and vector = sum over "
      "components follow from these forms in exact arithmetic. Not decided: numerical agreement on data, np.histogram semantics. Also: Pair distances computed from pre-scaled coordinates (solve / products with the cell hoisted out of the pair loop) are lifted back to differences of positions and decided like an inline minimum image.",
      "Trusted: numpy histogram/trace/matmul semantics; idiom tables of pmsa/checks/c13.py. remove_pbc is decided under C02; the "
      "partial columns of gr.* / sq.* under C03 / C04.",
      "per-kind abstract interpretation with folded dispatch tests (R-DISPATCH); factor/conjugation/reduction parsing of weight "
      "terms (R-ALG); index-set alignment incl. finite decision of the tensor slot map (R-ALIGN); exact algebra of normalisation "
      "monomials and sibling equality with the partial g_aa / S_aa forms (R-ALG, R-SIB); call-site roles of remove_pbc (R-PBC); "
      "ordering rule on the returned pair (R-ORDER)",
      "DESIGN.md section 4, C13")

claim("C19", "other",
      "Writer/reader agreement is decided on line templates and token positions, for 2D and 3D: write_dump_header is flattened "
      "into nine newline-terminated lines whose roles (line 2 timestep, line 4 count, line 5 orthogonal BOX BOUNDS, lines 6-8 "
      "`lo hi` of axis 0..2 with a well-formed dummy z line in 2D, line 9 `ITEM: ATOMS id type x y [z] addson`) are matched "
      "with what read_lammps, read_lammps_centertype and read_lammps_vector consume under abstract interpretation (nine header "
      "readlines, timestep = int(line 2), atom loop = range(int(line 4)), boxbounds[r,c] = token c of line 6+r, boxlength = "
      "hi-lo, hmatrix = diag, style from tokens[2:] of line 9); read_additions: count from line 4, frames = len/(N+9), atom "
      "block = content[n(N+9)+9 : (n+1)(N+9)] as a polynomial identity, value stored at [frame, id-1] from the requested "
      "column; write_data_header labels each bounds line with its own axis. Centre-type reader (6 configurations): rows by "
      "id-1, type from token 2, coordinates tokens 3..ndim+2, one boolean mask = membership of the id-ordered type in the map's "
      "keys applied to positions and types, relabel through the map, nparticle = selected count, xs x boxlength + lower corner, "
      "x wrapped by +-L, xu verbatim. Vector reader: token index = column id - 1 in the requested order. HOOMD: typeid + 1, "
      "box[:ndim], diag cell, position[:, :ndim], nsnapshots = len, dimension guard; DCD positions[i][:, :ndim] installed into "
      "frame i by dataclasses.replace (no store to the frozen record). Log: sections start at `Step ` lines, rows = line of "
      "`Loop time of ` - start - 1, every section read and returned in order. Not decided: pandas/gsd/mdtraj behaviour, number "
      "formatting/parsing round trip of the floats (6 decimals), logs whose thermo lines contain the marker strings. Also: The frame loops of the centre-type and column wrappers obey the same append/count/sentinel/handle rules as C01 (a frame object must not become falsy when empty); a test that skips a log section is evaluated as a function of end - start and must not skip sections holding a thermo line; integer casts of the HOOMD type ids are value-preserving.",
      "Trusted: str.split/int/float, pandas read_csv(skiprows, nrows) semantics, dataclasses.replace; ReaderRun line numbering "
      "(every readline a distinct line) shared with C01.",
      "line-template reconstruction of the writers + per-configuration abstract interpretation of the readers, compared token by "
      "token (R-PROTO); index base/sort rules (R-IDX); mask/selection structure (R-SEL); exact algebra of block offsets and cell "
      "entries (R-ALG); frozen-record store rule (R-FROZEN)",
      "DESIGN.md section 4, C19")

claim("C09", "other",
      "Decides the form of every stage of boo_3d for all inputs. qlm_Qlm (unweighted and weighted configuration): bond vectors = "
      "remove_pbc(positions[columns 1..cn_i of row i] - positions[i], the frame's cell, the instance mask); polar = "
      "arccos(z/|r|) and azimuth = arctan2(y, x) of that same imaged vector; sph_harm_l is called as (self.l, polar[j], "
      "azimuth[j]) by parameter role, j over range(cn_i), accumulated into row i of complex zeros (N, 2l+1); exactly one "
      "normalisation - unweighted: / cn once per frame after the particle loop; weighted: weights / row sum taken of the table "
      "without its count column, entry j of the weight row for bond j, no second division; coarse graining: copy of the "
      "normalised local vectors + local vector of each listed neighbour (column j+1), / (1+cn) once; (local, coarse) returned "
      "and stored in that order. ql_Ql = sqrt(4 pi/(2l+1) sum_m |q|^2), s_ij = Re sum_m q_i conj q_j / (|q_i||q_j|) over the "
      "neighbours of i in the same frame, count of s_ij > c, w_l = sum w3j Re prod q[m+l] over the Wigner table, w-hat = "
      "w/(sum|q|^2)^(3/2), each on the vectors selected by coarse_graining; Wignerindex: full cube -l..l, m1+m2+m3 = 0, rows "
      "[m1,m2,m3,w3j(l l l; m1 m2 m3)]; spatial correlation = frame average of conditional_gr(frame n, vectors of frame n, "
      "'vector', mask); time correlation scaled by 4 pi/(2l+1) then by lag 0, CSV after normalisation. Not decided: reference "
      "values on perfect lattices, 0 <= q_l <= 1 and |s_ij| <= 1 as numbers (consequences of the forms), rotation invariance "
      "(a theorem about Y_lm), sympy's Wigner symbol values.",
      "Trusted: Y_lm tables and dispatcher (decided under C08), remove_pbc (C02), read_neighbors (C05), conditional_gr (C13), "
      "time_correlation (C14); numpy semantics; idiom tables of pmsa/checks/c09.py and boolib.py.",
      "angle-role rules on the value graph (R-ANGLE), call-site roles of remove_pbc (R-PBC), single-normalisation and formula "
      "identities by exact algebra with uninterpreted reductions (R-ALG), neighbour/weight column alignment (R-ALIGN, R-IDX), "
      "loop-domain rules incl. the Wigner table (R-LOOPDOM), import resolution (R-API)",
      "DESIGN.md section 4, C09")

claim("C10", "other",
      "Decides the form of boo_2d for all inputs: bond vectors = remove_pbc(positions[columns 1..cn_i of row i] - positions[i], "
      "the frame's cell, the instance mask); theta = arctan2(y, x) of that vector; kernel exp(i l theta) with the instance's l "
      "(exact identity of the exponent); unweighted value = mean over the bonds; weighted value = sum of w_k exp(i l theta_k) "
      "with w = columns 1..cn_i of row i of the weight table divided by sum |w| and no further division; both arms use the "
      "same angle expression; value stored at [frame, particle] of complex zeros (T, N) which is returned and kept as "
      "ParticlePhi; time average: the complex array, or |psi| and arg psi separately recombined as <|psi|> exp(i <arg psi>), "
      "with the trajectory/period/dt forwarded; spatial correlation = frame average of conditional_gr(frame n, psi[n], scalar "
      "kind, mask); time correlation of psi returned unchanged. |psi| <= 1 and the exp(i l alpha) covariance under rotation "
      "follow from these forms in exact arithmetic and are not evaluated. Not decided: values on perfect lattices.",
      "Trusted: remove_pbc (C02), read_neighbors (C05), time_average (C16), conditional_gr (C13), time_correlation (C14); numpy "
      "semantics; idiom tables of pmsa/checks/c10.py and boolib.py.",
      "angle-role rule and exact identity of the kernel exponent (R-ANGLE), call-site roles of remove_pbc (R-PBC), "
      "normalisation forms (R-ALG), weight/neighbour slice alignment (R-ALIGN), sibling agreement of the two arms (R-SIB)",
      "DESIGN.md section 4, C10")

claim("C15", "other",
      "Decides the form of every measure in static.vector for all inputs: participation ratio = (sum e.e)^2/(N sum (e.e)^2) as an "
      "exact identity with uninterpreted reductions; alignment = mean, phase quotient = sum d / sum |d|, of d_ij = e_i.e_j over "
      "columns 1..cn_i of row i; divergence = mean of r_ij.u_ij and curl = sum r_ij x u_ij / cn_i (r first) with r_ij = "
      "remove_pbc(positions[nbrs] - positions[i], snapshot cell, caller's mask) and u_ij gathered with the same slice and "
      "centre; vibrability = sum over modes k (columns of the eigenvector matrix reshaped (N,-1)) of |e_k,i|^2/omega_k^2 from 0; "
      "Fourier split: F = the FFT columns of conditional_sq(snapshot, qvector, vector), u = (q0..) / |q| from the same table, "
      "L_n = u_n (u_n . F_n), T := F - L (hence F = L + T and S = S_L + S_T by construction), S_T / S_L = Re sum X conj X, table "
      "rounded before the per-|q| average of (Sq, Sq_T, Sq_L), CSV = returned average, no in-place operation on DataFrame "
      ".values; correlation variant: frame n decomposed with the field of frame n, each of FFT / T_FFT / L_FFT time-correlated "
      "per wave vector over the frames in order. Bounds [1/N, 1] and [-1, 1] follow from the forms (Cauchy-Schwarz) and are not "
      "evaluated. Not decided: numerical values, pandas join/groupby semantics. Also: Inline re-implementations of the minimum image (row- or column-vector form) are decided with the frame typing and transposed algebra shared with C02; the projection direction must come from the physical wave vectors, not the integer triple.",
      "Trusted: conditional_sq (C13), time_correlation (C14), remove_pbc (C02), read_neighbors (C05); numpy cross/dot semantics; "
      "idiom tables of pmsa/checks/c15.py.",
      "exact algebra with uninterpreted reductions (R-ALG), neighbour-slice and gather alignment rules (R-IDX, R-ALIGN), call-site "
      "roles of remove_pbc (R-PBC), read-only-view effect rule (R-EFFECT), loop-domain and call-argument rules (R-LOOPDOM)",
      "DESIGN.md section 4, C15")

claim("C17", "other",
      "Decides the form of the four local order parameters for all inputs. S2: integrand (g ln g - g + 1) r^(d-1) integrated by "
      "the trapezoid rule over the bin centres (routine must resolve in the installed numpy), prefactor -(d-1) pi rho with rho = "
      "N/prod(L), bin centres k dr + dr/2, shell norms 2 pi r rho / 4 pi r^2 rho, Gaussians centred at minimum-image pair "
      "distances (row i deleted, frame's cell, instance mask) with width sigmas[type_i-1, type_j-1] where type_j carries the same "
      "deletion and selection as the distances, value stored at [n, i], cached and returned. Tetrahedral: candidates = "
      "argpartition prefix holding the 5 smallest distances, self removed by index, all six pairs j<k, pair term "
      "(r_j.r_k/(|r_j||r_k|) + 1/3)^2 on the imaged vectors whose norms were used for the selection, result 1 - 3/32 sum. "
      "Nematic (d=2): all four entries of Q = (d u u^T - I)/2, kronecker = [i==j], neighbour average exactly when a list is given, "
      "scalar sqrt(d/(d-1) tr(QQ)) or 2 lambda_max. Gyration (2D, 3D): coordinates centred out of place, all entries of "
      "S_mn = sum p_m p_n / N assigned, eigenvalues sorted ascending, Rg, asphericity, acylindricity, relative shape anisotropy "
      "and fractal dimension as exact identities in the eigenvalues. Not decided: values on perfect lattices, eig/eigh accuracy. Also: An argpartition pivot must be a valid index of the smallest admissible distance array (five particles for the tetrahedral order: found G17).",
      "Trusted: grid_gaussian and spatial_average (C16), remove_pbc (C02), numpy argpartition/delete/trace/eig semantics; idiom "
      "tables of pmsa/checks/c17.py; selection-pipeline interpreter shared with C05.",
      "exact algebra of closed forms (R-ALG), selection-pipeline interpretation (R-SELECTK), finite enumeration of constant index "
      "sets (R-LOOPDOM), gather/selection alignment (R-ALIGN), call-site roles of remove_pbc (R-PBC), API resolution (R-API)",
      "DESIGN.md section 4, C17")

claim("C20", "other",
      "Decides the structural clauses only - the file format and the matrix assembly - and says so: (i) cal_neighbors (2D and "
      "3D): three files opened once for writing before and closed once after the frame loop; per frame exactly one header "
      "line per file, the neighbour header carrying the token `neighborlist` and the bond-weight header not; per particle a row "
      "`id cn` + exactly cn entries (inner loop bound = the count written) + one newline in both files, entries taken from "
      "consecutive bonds through a cursor that restarts at 0 in every frame and advances once per entry, neighbour ids from "
      "column 1 of the 1-based bond list, weights from nlist.weights; overall file one `id cn volume[i]` line; rows in id order "
      "without gaps enforced by a guard that raises; frame n tessellated with box n and points n; (ii) convert_configuration: "
      "points = positions - (lower bound + L/2) computed out of place (no shift for origin-centred boxes), zero z column in 2D "
      "only, box from the frame's lengths, per-frame lists in order; (iii) VolumeMatrix: working copy of frame nconfig's points, "
      "N = axis 0 of the coordinates, box nconfig in every tessellation, displacement sequence +d, -2d, +d (restored), central "
      "difference stored in column ndim*i+j of the other particles' rows, self block = - sum of the row's blocks written after "
      "the off-diagonal loop (rows sum to zero), rows divided by the unperturbed volumes afterwards, A^T (A A^T)^-1 A, file = "
      "returned matrix with (path, array) argument order. NOT decided - the core of the property: symmetry of the neighbour "
      "relation, positivity and reciprocity of weights, volume sum = box volume (properties of freud's tessellation on data). Also: The tessellation box appended for a frame must be built from that frame's own box lengths on every path; a box carried over from an earlier iteration and refreshed only against a loop-invariant reference is refuted (cells L0, L1, L0).",
      "Trusted: freud's Voronoi (nlist sorted by centre id, weights aligned with bonds), the neighbour-file reader (C05), numpy "
      "semantics; text idiom tables shared with C05.",
      "writer line templates vs the neighbour-file protocol (R-PROTO), cursor/id/frame index rules (R-IDX), typestate of file "
      "handles (R-HANDLE), exact algebra and ordering rules of the matrix assembly (R-ALG), save-site rule (R-SAVE)",
      "DESIGN.md section 4, C20")

claim("C07", "other",
      "Decides ONE necessary condition of the property and nothing else. Translation and lattice-image invariance require that "
      "absolute coordinates reach a result only (1) as a difference of two positions that is the first argument of remove_pbc "
      "before any use, (2) inside an S(q) phase - the product with the wave-vector table (integer vectors x 2 pi/L) under a "
      "component sum inside exp(+-i .), (3) as a shape query, or (4) at a tabled site with a stated reason (inter-frame "
      "displacements of the dynamics module, decided under C06; hand-over to freud / voro++; orientation vectors stored in the "
      "positions field of the nematic trajectory). Every occurrence of <snapshot>.positions inside a value that any function "
      "outside the readers/writers stores, accumulates, returns or writes is classified by its enclosing operators (180 "
      "occurrences in 32 functions today); a raw difference, an absolute coordinate in a product or sum, or a difference in the "
      "wrong slot is reported with the statement. Also: per-particle result arrays of the seven per-particle routines are "
      "indexed by the particle loop variable itself (id relabelling permutes the output). NOT decided and not claimed: rotation "
      "invariance of q_l / w-hat_l / |psi_l| / tetrahedral order / shape descriptors / participation ratio, axis-permutation and "
      "dilation invariance, species-swap column exchange as numbers, floating-point accuracy - theorems about the computed "
      "functions, not shapes of the code; the forms they rest on are decided under C03, C04, C08-C10, C17. Also: Differences of linearly transformed coordinates are lifted to transformed differences before classification; an inline minimum image is judged only on its outermost pure-coordinate expression.",
      "Trusted: remove_pbc's form (C02) and the per-routine argument roles (C03, C05, C06, C09, C10, C13, C15, C16, C17); the "
      "tabled exceptions in pmsa/checks/c07.py (each with its reason); values flowing only through locals that are never "
      "stored/returned are not coordinate outputs.",
      "package-wide flow classification of coordinate occurrences on the value graph (R-PBC-FLOW) with an explicit exception "
      "table; particle-index rule for per-particle outputs (R-IDX)",
      "DESIGN.md section 4, C07")

# ---- session 5 additions (appended to the claim texts; rules described in DESIGN.md section 13)
SHARED5 = (" Shared post-passes on every function this check analyses and on the package helpers it calls (DESIGN.md section 13): one-shot iterators "
           "stored on the instance (R-ONESHOT), non-idempotent self-updates of constructor state decided exactly (R-SELFUPDATE), lists grown and consumed whole in the same "
           "loop without reset (R-ACCUM), caller options not handed on to a callee that takes the same option (R-FORWARD), files written by a callee whose result is changed "
           "before it is returned (R-SAVE-FWD), np.empty arrays read after partial stores only (R-UNINIT), result fields not stored on a return path (R-STATE-PATH), "
           "a returning path that precedes the first write of the requested file (R-SAVE-PATH), pandas usecols order (R-LIBORDER), explicit falsy arguments replaced by defaults "
           "(R-FALSY), values of a type-keyed dictionary used positionally (R-DICTORDER), loops over the number of distinct labels matched against the labels (R-LABELCOUNT), "
           "numpy reduceat over possibly empty segments (R-REDUCEAT). Scope: functions this check analysed that lie in the property's anchor files, plus helpers introduced later; "
           "C02 / C07 judge only the forwarding of the periodicity mask at their package-wide call sites; C18 runs the state / file rules over the whole package.")
ADD5 = {
    "C20": "A tessellation box built with the explicit constructor must take each edge from its own axis; a literal stride in the self term of the volume matrix is refuted for the other dimension.",
    "C06": "A column that involves an array without an identified role (e.g. visit counts assigned in closed form) is undecided, never refuted.",
    "C02": "The witness search runs on a structured grid (orthogonal / weakly / strongly tilted cells of either tilt sign x all-short / mixed / multi-box displacements x every mask) so that fast paths and early exits are reached; options added to remove_pbc are analysed at their defaults and with the value callers pass; at every call site a displacement argument that is not a plain difference is evaluated on frames with particles outside the cell and must be a position difference modulo the PERIODIC lattice.",
    "C03": "The species-pair enumeration is repeated with unsigned (uint32) type ids, whose differences wrap (found G19).",
    "C04": "Normalisations written as loops over index tuples (itertools) with a helper are unrolled and decided like the unrolled statements.",
    "C05": "No narrowing float cast may lie on the way to the inclusive test d <= r_c.",
    "C08": "Table entries outside the polynomial grammar (e.g. cos written as sqrt(1 - sin^2)) get a 40-digit witness search in both hemispheres; the value returned by SphHarm_above, with the degree bound to 11, 12, 13, is evaluated with the library's harmonics at four angle pairs against [Y_lm, m = -l..l]; options added to the signatures are analysed at their defaults and reported as not analysed otherwise.",
    "C09": "Bond angles in spellings outside the idiom table are evaluated on sample directions of every octant (witness only); the coarse-graining step must start from the normalised local vectors that were appended for the frame; a thresholded count over a column slice that skips the first bond is refuted.",
    "C10": "Weights normalised table-wide (every row at once, also in place) are decided: row sum of absolute values vs plain row sum vs absolute value of the row sum.",
    "C11": "Without a type-pair prefactor table, the scalar multiplying each block is read off the block store and evaluated on a concrete three-species frame for all ordered particle pairs; an inline minimum image for the pair vector is decided by the shared machinery; frequencies are evaluated on spectra of very different magnitude; component loops of pair_matrix are unrolled per dimension.",
    "C13": "Cell volume and L_min terms are classified by evaluation on orthogonal and tilted cells (a term that is right for orthogonal cells only is a violation); the per-|q| grouping key must depend on the box; the q-component columns must hold the scaled wave vector.",
    "C14": "The linear arm's loop nest is decided by enumerating the extracted bounds and index expressions for T = 1..6 (any loop order); a single-origin arm written as one whole-array expression per frame is decided exactly on a symbolic series; the spacing test is also evaluated for small / large time units when it reads dt.",
    "C15": "The q-component columns the unit vector is read from are checked in conditional_sq.",
    "C16": "The spatial-average accumulator must keep the input dtype (complex properties); the window slice is evaluated for window lengths 1..8.",
    "C17": "Eigenvalues from eigvalsh and negative indices into the eigenvalue array are resolved per dimension.",
    "C19": "GSD conversion rules accept loop, comprehension, enumerate and helper forms; DCD positions handed to the constructor must be cut to the dimension; every alternative store of the column reader is decided (non-idiomatic values evaluated on concrete column-id lists); the writer's 2-D / 3-D layout may depend on the number of bound rows only.",
}
for _pid in CLAIMS:
    CLAIMS[_pid]["text"] += (" Also (session 5): " + ADD5[_pid] if _pid in ADD5 else "") + SHARED5
    CLAIMS[_pid]["technique"] += "; shared syntax-tree post-passes for call-sequence / state / forwarding rules (pmsa/checks/statelib.py)"

# ---- session 6 (DESIGN.md 13.7)
SHARED6 = (" Session 6 added: block loops that drop the remainder (R-BLOCKTAIL), index-skipping generators consumed by position (R-GENSKIP), closures stored per loop iteration "
           "that read the loop variable late (R-LATEBIND), histograms re-implemented with left-sided searchsorted (R-BINSIDE); the algebra comparison refutes fixed-decimal rounding wrapped around a real quantity and searches witnesses where the "
           "argument of an integer part is a whole number; the shared rules still run when the property-specific analysis aborts (exit 2 at least, exit 1 if they find a violation).")
ADD6 = {
    "C01": "The list of frames a wrapper returns may not be sorted, reversed or strided (file order).",
    "C19": "The list of frames a wrapper returns may not be sorted, reversed or strided (file order).",
    "C06": "Selection masks built from the same leaf masks (mobility test, condition) are compared by truth table.",
    "C16": "The middle index in whole-array form (arange + offset) is evaluated for windows 1..8; grid axes that start at a numeric constant instead of the lower bound are refuted; a window length whose interval is estimated from the whole trajectory is evaluated on six evenly spaced frames.",
    "C15": "Folded-coordinate minimum images inside neighbour loops are evaluated with the neighbour rows bound to a set of other particles.",
    "C17": "Folded-coordinate minimum images inside neighbour loops are evaluated with the neighbour rows bound to a set of other particles.",
    "C18": "File / process-state rules that only C18 speaks of: to_csv(header=<list>) aliases evaluated against the column order (R-CSVHEADER), np.seterr / warnings-as-errors / chdir not restored on a path (R-GLOBALSTATE), the same requested file handed to two saving callees on one path, also through **options (R-SAVE-FWD).",
}
for _pid in CLAIMS:
    CLAIMS[_pid]["text"] += (" Session 6: " + ADD6[_pid] if _pid in ADD6 else "") + SHARED6
