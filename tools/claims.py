# Executed by mkmanifest.py: one claim(...) per property whose check is built and silent on the unchanged tree.

claim("C12", "proof",
      "Every clause of the property is a functional identity and is decided as one: the three closed forms returned by each "
      "model are read from the syntax tree, expanded through the constructor, and shown equal (exact symbolic normal forms, "
      "positive symbols) to d/dr and d2/dr2 of the potentials documented in docs/hessian.md; the cutoff term is s'(r_c) on the "
      "shift arm and 0 otherwise; the dispatcher is shown exhaustive over ModelName with correct parameter routing. "
      "28 obligations, all discharged symbolically - no sampling.",
      "Trusted: the transcription of the documented potentials in pmsa/checks/c12.py, the numpy->arithmetic translation table "
      "(pmsa/sym.py), sympy's differentiation/simplification. Floating-point rounding is out of scope. Hertz identities are "
      "established on the model's domain r < sigma.",
      "value-graph term extraction + exact symbolic identity (R-ALG), dispatcher exhaustiveness table (R-DISPATCH)",
      "DESIGN.md section 4, C12")
