#!/venv/bin/python
"""Regenerate MANIFEST.json from the table below (claimed checks) + not_applicable for the rest."""
import json
import os

HERE = os.path.dirname(os.path.dirname(os.path.abspath(__file__)))

ENGINE = "pmsa"
CLAIMS = {}
NA = {}


def claim(pid, category, text, note, technique, design_ref):
    CLAIMS[pid] = dict(category=category, text=text, note=note, technique=technique, design_ref=design_ref)


exec(open(os.path.join(HERE, "tools", "claims.py")).read())

props = [json.loads(l) for l in open(os.path.join(HERE, "properties.jsonl"))]
checks = []
na = []
for p in props:
    pid = p["id"]
    if pid in CLAIMS:
        c = CLAIMS[pid]
        checks.append({
            "property_id": pid,
            "quick_cmd": f"./check {pid} --tier quick",
            "thorough_cmd": f"./check {pid} --tier thorough",
            "evidence_file": f"/verif/evidence/{pid}.json",
            "replay_cmd_template": "./check " + pid + " --replay {path}",
            "engine": ENGINE,
            "level_claimed": {"category": c["category"], "text": c["text"], "design_ref": c["design_ref"]},
            "level_note": c["note"],
            "technique": c["technique"],
        })
    else:
        na.append({"property_id": pid, "reason": NA.get(pid, "check under construction in this round; not yet claimed")})

m = {
    "version": 1,
    "setup_cmd": "/venv/bin/python -c \"import ast, sympy, sys; sys.exit(0)\"",
    "hooks": {
        "guard": "PYMATTERSIM_VERIF",
        "enable": "none needed: the checks parse /repo's sources; nothing is instrumented or built",
        "baseline_off_cmd": "cd /repo && /venv/bin/python -m pytest -ra -q -p no:cacheprovider --timeout=900 --continue-on-collection-errors",
        "source_commits": [],
        "add_only": True,
    },
    "engines": [{
        "name": ENGINE, "path": "/verif/pmsa",
        "serves_properties": sorted(CLAIMS),
        "kind_free_text": "static analysis: ast-based package model, gated value graph per function (terms + events), "
                          "exact algebraic normaliser (sympy), finite decision tables, alias/effect analysis, API resolution; "
                          "repository-specific rule tables per property",
    }],
    "checks": checks,
    "notes": "Static analysis only. Exit 0 holds / 1 VIOLATION with witness / 2 ANALYSIS-ERROR (construct outside the rule's "
             "idiom table, vanished anchor, instance count below the confirmed minimum). See DESIGN.md.",
    "not_applicable": na,
}
json.dump(m, open(os.path.join(HERE, "MANIFEST.json"), "w"), indent=1)
print(f"claimed {len(checks)}, not_applicable {len(na)}")
