#!/venv/bin/python
"""Re-run all 20 checks against every kept seeded change (or the named ones) and rewrite meta.json: detected_by.
usage: tools/refresh_meta.py [--jobs N] [seed dir names...]
Each change is applied in its own scratch worktree of /repo HEAD (under /tmp, removed afterwards); /repo is never touched."""
import glob, json, os, re, subprocess, sys, tempfile, shutil
from concurrent.futures import ThreadPoolExecutor

args = sys.argv[1:]
jobs = 14
if args and args[0] == "--jobs":
    jobs = int(args[1]); args = args[2:]
names = args or sorted(os.path.basename(os.path.dirname(p)) for p in glob.glob("/verif/seeded/*/patch.diff"))
PIDS = [f"C{i:02d}" for i in range(1, 21)]


def one(name):
    d = f"/verif/seeded/{name}"
    wt = tempfile.mkdtemp(prefix="rm_", dir="/tmp")
    os.rmdir(wt)
    subprocess.run(["flock", "/tmp/.wt.lock", "git", "-C", "/repo", "worktree", "add", "-q", "--detach", wt, "HEAD"], check=True)
    try:
        r = subprocess.run(["git", "apply", f"{d}/patch.diff"], cwd=wt)
        if r.returncode:
            return name, None
        det = {}
        for pid in PIDS:
            ev = tempfile.mkdtemp(prefix="rmev_", dir="/tmp")
            p = subprocess.run(["/verif/check", pid], env=dict(os.environ, VERIF_REPO=wt, VERIF_EVIDENCE_DIR=ev), capture_output=True, text=True)
            shutil.rmtree(ev, ignore_errors=True)
            txt = p.stdout + p.stderr
            keys = re.findall(r"rule=(\S+) function=(\S+) key=\[(.*?)\]\n", txt)
            nviol = len(re.findall(r"^VIOLATION", txt, re.M))
            status = "VIOLATION" if nviol else ("ANALYSIS-ERROR" if "ANALYSIS-ERROR" in txt else "silent")
            det[pid] = {"result": status, "violations": nviol, "first_reports": [f"{r_} {fn} [{k}]" for r_, fn, k in keys[:4]]}
        return name, det
    finally:
        subprocess.run(["flock", "/tmp/.wt.lock", "git", "-C", "/repo", "worktree", "remove", "--force", wt])


def work(name):
    name, det = one(name)
    if det is None:
        print(f"{name}: PATCH-FAIL"); return
    mp = f"/verif/seeded/{name}/meta.json"
    meta = json.load(open(mp))
    old = {k: v["result"] for k, v in meta.get("detected_by", {}).items()}
    new = {k: v["result"] for k, v in det.items()}
    meta["detected_by"] = det
    json.dump(meta, open(mp, "w"), indent=1)
    diff = {k: (old.get(k), new[k]) for k in new if old.get(k) != new[k]}
    own = meta["property"]
    print(f"{name}: own {own}={new[own]}" + (f"  changed: {diff}" if diff else ""), flush=True)


with ThreadPoolExecutor(jobs) as ex:
    list(ex.map(work, names))
