#!/bin/sh
# usage: tools/eval_wt.sh <worktree> [_seed|_twin] : evaluate every change of the worktree (demo + 20 checks), then the full suite of each in the background
wt="$1"; kind="${2:-_seed}"
for s in $(ls "$wt/$kind"); do
  [ -f "$wt/$kind/$s/patch.diff" ] || continue
  /verif/tools/seed_eval_par.sh "$wt" "$s" "$kind"
done
