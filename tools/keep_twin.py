#!/venv/bin/python
"""Copy a validated behaviour-preserving refactoring from a scratch worktree into /verif/twins/<pid>-<name>/ with meta.json.
usage: tools/keep_twin.py <worktree> <twin name> <Cxx> [--note "..."]
Reads the artefacts left by tools/twin_eval.sh (.demo_out_*.txt, .check_Cxx.txt) and tools/seed_fullsuite.sh (.suite.txt)."""
import argparse, json, os, re, shutil, glob

ap = argparse.ArgumentParser()
ap.add_argument("wt"); ap.add_argument("name"); ap.add_argument("pid"); ap.add_argument("--note", default=""); ap.add_argument("--suffix", default=""); ap.add_argument("--round", default="twins-2")
a = ap.parse_args()
src = os.path.join(a.wt, "_twin", a.name)
dst = os.path.join("/verif/twins", f"{a.pid}-{a.name}{a.suffix}")
os.makedirs(dst, exist_ok=True)
for f in ("patch.diff", "demo.py", "notes.md"):
    if os.path.exists(os.path.join(src, f)):
        shutil.copy(os.path.join(src, f), os.path.join(dst, f))
demo = open(os.path.join(dst, "demo.py")).read()
open(os.path.join(dst, "demo.py"), "w").write(demo.replace(a.wt, "<worktree>"))
det = {}
for f in sorted(glob.glob(os.path.join(src, ".check_*.txt"))):
    pid = re.search(r"\.check_(C\d+)\.txt", f).group(1)
    txt = open(f).read()
    nviol = len(re.findall(r"^VIOLATION", txt, re.M))
    und = re.findall(r"^ANALYSIS-ERROR (?:undecided: )?(\S+ \S+ \S+ \[[^\]]*\]|.{0,120})", txt, re.M)
    status = "VIOLATION" if nviol else ("undecided" if "ANALYSIS-ERROR" in txt else "silent")
    det[pid] = {"result": status}
    if und:
        det[pid]["undecided"] = und[:4]
suite = None
sp_ = os.path.join(src, ".suite.txt")
if os.path.exists(sp_):
    suite = open(sp_).read().strip().splitlines()


def rc(tag):
    p = os.path.join(src, f".demo_out_{tag}.txt")
    return os.path.exists(p)


meta = {
    "property": a.pid,
    "twin": a.name,
    "round": a.round,
    "origin": "behaviour-preserving refactoring written by an independent sub-agent that was given only the property text and a scratch worktree (nothing from /verif)",
    "what_i_ran": {
        "demo": "PYTHONPATH=<worktree> /venv/bin/python demo.py : exit 0 on the pristine worktree AND with patch.diff applied (tools/twin_eval.sh)",
        "suite": "complete baseline suite in a fresh worktree with the patch applied (tools/seed_fullsuite.sh)" if suite else "not run for this refactoring (the demo compares the outputs of both trees)",
        "suite_result": suite,
        "checks": "VERIF_REPO=<patched worktree> /verif/check Cxx for all 20 properties",
    },
    "checks": det,
    "note": a.note,
}
json.dump(meta, open(os.path.join(dst, "meta.json"), "w"), indent=1)
print(dst, {k: v["result"] for k, v in det.items() if v["result"] != "silent"} or "all silent", suite[0] if suite else "suite pending")
