#!/bin/sh
# usage: tools/seed_eval.sh <worktree> <seed name> <Cxx> [Cyy ...]
# In the scratch worktree: demo on pristine (want 0), apply patch, demo (want !=0), run the named checks against the
# patched worktree (VERIF_REPO), revert, demo again (want 0).  Never touches /repo.
wt="$1"; name="$2"; shift 2
d="$wt/_seed/$name"
cd "$wt" || exit 2
git checkout -q -- PyMatterSim
run_demo() { (cd /tmp && PYTHONPATH="$wt" timeout 900 /venv/bin/python "$d/demo.py" > "$d/.demo_out_$1.txt" 2>&1; echo $?); }
p0=$(run_demo pristine)
git apply "$d/patch.diff" 2>/dev/null || { echo "$name: PATCH-FAIL"; exit 1; }
p1=$(run_demo patched)
res=""
for p in "$@"; do
  VERIF_REPO="$wt" VERIF_EVIDENCE_DIR="/tmp/ev_seed_$$" /verif/check "$p" > "$d/.check_$p.txt" 2>&1; rc=$?
  res="$res $p:exit=$rc"
done
rm -rf "/tmp/ev_seed_$$"
git checkout -q -- PyMatterSim
p2=$(run_demo reverted)
echo "$name: demo pristine=$p0 patched=$p1 reverted=$p2 |$res"
