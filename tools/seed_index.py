#!/venv/bin/python
"""Regenerate /verif/seeded/INDEX.md from the meta.json files."""
import json, os
sd = "/verif/seeded"
rows = []
for name in sorted(os.listdir(sd)):
    mp = os.path.join(sd, name, "meta.json")
    if not os.path.exists(mp):
        continue
    m = json.load(open(mp))
    det = m.get("detected_by", {})
    viol = [k for k, v in det.items() if v["result"] == "VIOLATION"]
    err = [k for k, v in det.items() if v["result"] == "ANALYSIS-ERROR"]
    first = []
    for k in viol:
        fr = det[k].get("first_reports") or []
        if fr:
            first.append(f"{k}: {fr[0][:90]}")
    suite = (m["what_i_ran"].get("suite_result") or ["pending"])[0]
    status = "reported (VIOLATION) by " + ", ".join(viol) if viol else ("not decided (exit 2) by " + ", ".join(err) if err else "NOT reported")
    rows.append((name, m["property"], m.get("breaks", ""), m.get("needs_to_manifest", ""), status, "; ".join(first), suite, m.get("note", "")))
with open(os.path.join(sd, "INDEX.md"), "w") as f:
    f.write("# Seeded property-breaking changes (written by independent sub-agents, validated here)\n\n")
    f.write(f"{len(rows)} changes; {sum(1 for r in rows if r[4].startswith('reported'))} reported as VIOLATION, "
            f"{sum(1 for r in rows if r[4].startswith('not decided'))} answered exit 2 (outside an idiom table), "
            f"{sum(1 for r in rows if r[4].startswith('NOT'))} not reported.\n\n")
    for r in rows:
        f.write(f"## {r[0]}  (property {r[1]})\n- breaks: {r[2]}\n- needs: {r[3]}\n- checks: {r[4]}\n")
        if r[5]:
            f.write(f"- first report: {r[5]}\n")
        f.write(f"- suite with patch: {r[6]}\n")
        if r[7]:
            f.write(f"- note: {r[7]}\n")
        f.write("\n")
print(len(rows), "seeds indexed")
