#!/bin/sh
# usage: tools/seed_fullsuite.sh <seed dir>   (contains patch.diff)
# Fresh scratch worktree of /repo HEAD, apply the patch, run the complete baseline suite, compare with the 75 stable tests,
# write <seed dir>/.suite.txt, remove the worktree.
d="$1"; name=$(basename "$d"); wt="/tmp/fs_${name}_$$"
flock /tmp/.wt.lock git -C /repo worktree add -q --detach "$wt" HEAD || { echo "$name: worktree add failed"; exit 2; }
cd "$wt" && git apply "$d/patch.diff" || { echo "PATCH-FAIL" > "$d/.suite.txt"; git -C /repo worktree remove --force "$wt"; exit 1; }
OMP_NUM_THREADS=1 OPENBLAS_NUM_THREADS=1 MKL_NUM_THREADS=1 PYTHONPATH="$wt" /venv/bin/python -m pytest -ra -q -p no:cacheprovider --timeout=900 --continue-on-collection-errors --junitxml="$wt/junit.xml" > "$wt/pytest.log" 2>&1
/venv/bin/python - "$wt/junit.xml" > "$d/.suite.txt" <<'PY'
import sys, json, xml.etree.ElementTree as ET
base = set(json.load(open('/root/.vp/BASELINE.json'))['stable_pass'])
passed = set()
for tc in ET.parse(sys.argv[1]).getroot().iter('testcase'):
    if not any(ch.tag in ('failure', 'error', 'skipped') for ch in tc):
        passed.add(f"{tc.get('classname')}::{tc.get('name')}")
missing = sorted(base - passed)
print(f"stable_pass {len(base & passed)}/{len(base)} total_passed {len(passed)}")
for m in missing:
    print("BROKEN", m)
PY
tail -3 "$wt/pytest.log" >> "$d/.suite.txt"
cd /tmp; flock /tmp/.wt.lock git -C /repo worktree remove --force "$wt"
echo "$name: $(head -1 $d/.suite.txt)"
