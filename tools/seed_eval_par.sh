#!/bin/sh
# usage: tools/seed_eval_par.sh <worktree> <seed name> [kind=_seed|_twin]
# demo pristine (want 0), apply patch, demo (seed: want !=0; twin: want 0), all 20 checks in parallel against the patched
# worktree (VERIF_REPO), revert, demo again (want 0).  Never touches /repo.
wt="$1"; name="$2"; kind="${3:-_seed}"
d="$wt/$kind/$name"
cd "$wt" || exit 2
git checkout -q -- PyMatterSim
run_demo() { if [ -n "$SKIP_DEMO" ]; then echo skip; else (cd /tmp && PYTHONPATH="$wt" timeout 1800 /venv/bin/python "$d/demo.py" > "$d/.demo_out_$1.txt" 2>&1; echo $?); fi; }
p0=$(run_demo pristine)
git apply "$d/patch.diff" 2>/dev/null || { echo "$name: PATCH-FAIL"; exit 1; }
p1=$(run_demo patched)
ev="/tmp/ev_par_$$"
for i in 01 02 03 04 05 06 07 08 09 10 11 12 13 14 15 16 17 18 19 20; do
  ( VERIF_REPO="$wt" VERIF_EVIDENCE_DIR="$ev/$i" "${VERIF_DIR:-/verif}/check" "C$i" > "$d/.check_C$i.txt" 2>&1; echo $? > "$d/.rc_C$i" ) &
done
wait
res=""
for i in 01 02 03 04 05 06 07 08 09 10 11 12 13 14 15 16 17 18 19 20; do
  rc=$(cat "$d/.rc_C$i"); [ "$rc" != "0" ] && res="$res C$i:$rc"
done
rm -rf "$ev"
git checkout -q -- PyMatterSim
p2=$(run_demo reverted)
echo "$name: demo pristine=$p0 patched=$p1 reverted=$p2 | nonzero:$res"
