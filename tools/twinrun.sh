#!/bin/bash
# usage: tools/twinrun.sh <patch.diff> <Cxx> : apply a patch to a scratch copy and show the check's report lines
D=$(mktemp -d); cp -r /repo/PyMatterSim $D/; (cd $D && git apply --whitespace=nowarn "$1") || { echo PATCH-FAIL; rm -rf $D; exit 2; }
VERIF_REPO=$D VERIF_EVIDENCE_DIR=$D/evidence /verif/check $2 --tier quick 2>&1 | grep -vE "^\s+R-[A-Z-]+: [0-9]+ instances" | cut -c1-700 | tail -${3:-14}
rm -rf $D
