#!/bin/sh
# usage: tools/try_wt.sh <worktree> <seed name> <Cxx> [Cyy ...] : apply the seed's patch in its scratch worktree, run the checks against it, revert.
wt="$1"; name="$2"; shift 2
kind=_seed; [ -d "$wt/_twin/$name" ] && kind=_twin
cd "$wt" || exit 2
git checkout -q -- PyMatterSim
git apply "$wt/$kind/$name/patch.diff" || { echo PATCH-FAIL; exit 2; }
for p in "$@"; do
  VERIF_REPO="$wt" VERIF_EVIDENCE_DIR=/tmp/ev_try_$$ /verif/check "$p" > /tmp/try_out_$$.txt 2>&1; rc=$?
  echo "== $name $p exit=$rc"
  grep -B4 '^VIOLATION' /tmp/try_out_$$.txt | grep -v '^VIOLATION' | cut -c1-260 | head -${TRY_LINES:-10}
  grep '^ANALYSIS-ERROR' /tmp/try_out_$$.txt | cut -c1-260 | head -${TRY_LINES:-6}
done
rm -rf /tmp/ev_try_$$ /tmp/try_out_$$.txt
git checkout -q -- PyMatterSim
