#!/venv/bin/python
"""Run every check against every behaviour-preserving refactoring found under <dir>/_twin/*/patch.diff (scratch copies, parallel).
usage: tools/twin_all.py /tmp/tw_C01 [/tmp/tw_C03 ...]   -> prints one line per (twin, property) that is not exit 0, and a summary."""
import concurrent.futures as cf, os, shutil, subprocess, sys, tempfile
PROPS = [f"C{k:02d}" for k in range(1, 21)]


def one(job):
    patch, prop = job
    tmp = tempfile.mkdtemp(prefix="pmsa-twin-")
    try:
        shutil.copytree("/repo/PyMatterSim", tmp + "/PyMatterSim")
        p = subprocess.run(["git", "apply", "--whitespace=nowarn", patch], cwd=tmp, capture_output=True, text=True)
        if p.returncode != 0:
            return patch, prop, None, "patch does not apply: " + p.stderr[:100]
        env = dict(os.environ, VERIF_REPO=tmp, VERIF_EVIDENCE_DIR=tmp + "/evidence")
        r = subprocess.run(["/verif/check", prop, "--tier", "quick"], env=env, capture_output=True, text=True, timeout=900)
        lines = [l for l in r.stdout.splitlines() if l.startswith(("VIOLATION", "ANALYSIS-ERROR")) or "VIOLATED" in l]
        return patch, prop, r.returncode, "\n      ".join(l[:260] for l in lines[:4])
    finally:
        shutil.rmtree(tmp, ignore_errors=True)


def main():
    jobs = []
    for d in sys.argv[1:]:
        td = os.path.join(d, "_twin")
        if not os.path.isdir(td):
            continue
        for name in sorted(os.listdir(td)):
            pf = os.path.join(td, name, "patch.diff")
            if os.path.exists(pf):
                for p in PROPS:
                    jobs.append((pf, p))
    n1 = n2 = 0
    with cf.ThreadPoolExecutor(max_workers=16) as ex:
        for patch, prop, rc, info in ex.map(one, jobs):
            tag = patch.split("/")[2] + "/" + patch.split("/")[4]
            if rc == 1:
                n1 += 1
                print(f"FALSE-ALARM {tag} {prop}\n      {info}")
            elif rc != 0:
                n2 += 1
                print(f"undecided   {tag} {prop} exit={rc}\n      {info}")
    print(f"twins: {len(jobs)} runs, {n1} false alarms (exit 1), {n2} undecided (exit 2)")


main()
