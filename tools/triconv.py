#!/venv/bin/python
"""One-off source rewriter for the check modules: turn verdicts computed by plain `==` / `in` on value-graph terms into the
tri-state `eqv(...)` (True / definitely different / undecided) and mark the obligations they feed as sound.

usage: tools/triconv.py pmsa/checks/cXX.py [--write]
Only comparisons where one side is a hand-built term (tuple literal starting with a string, or a term constructor call) are
rewritten; everything else is left alone.  `a and b` chains that contain a rewritten comparison become
`tri_lazy(lambda: a', lambda: b')` where non-term operands are mapped to True/None (a failed structural guard is undecided).
"""
import ast
import sys

TERM_CTORS = {"CALL", "SUB", "A", "BIN", "C", "frame", "nbr_count", "mkbin", "canon"}
TERM_NAMES = {"NONE", "FULL", "SELF", "SNAPS", "SN", "T_", "LDEG", "PHI", "NEWAX", "COND", "SNAP", "NP_", "VEC", "WF", "NL", "N_", "F0"}


def is_term_literal(n):
    if isinstance(n, ast.Tuple) and n.elts and isinstance(n.elts[0], ast.Constant) and isinstance(n.elts[0].value, str) and len(n.elts) >= 2:
        return n.elts[0].value in ("attr", "sub", "call", "bin", "un", "cmp", "sym", "const", "tuple", "list", "slice", "mod", "elem", "builtin", "phi")
    if isinstance(n, ast.Call) and isinstance(n.func, ast.Name) and n.func.id in TERM_CTORS:
        return True
    if isinstance(n, ast.Name) and n.id in TERM_NAMES:
        return True
    return False


def convertible(cmp):
    if not (isinstance(cmp, ast.Compare) and len(cmp.ops) == 1):
        return None
    op, l, r = cmp.ops[0], cmp.left, cmp.comparators[0]
    if isinstance(op, ast.Eq):
        for side in (l, r):
            if isinstance(side, ast.Constant):
                return None
        if is_term_literal(l) or is_term_literal(r):
            got, want = (r, l) if (is_term_literal(l) and not is_term_literal(r)) else (l, r)
            return ("eq", got, [want])
    if isinstance(op, ast.In) and isinstance(r, (ast.Tuple, ast.List)) and r.elts and all(is_term_literal(e) for e in r.elts):
        if isinstance(l, ast.Constant):
            return None
        return ("in", l, list(r.elts))
    return None


class Rewriter:
    def __init__(self, src):
        self.src = src
        self.lines = src.splitlines(keepends=True)
        self.edits = []   # (start_off, end_off, text)
        self.offs = [0]
        for ln in self.lines:
            self.offs.append(self.offs[-1] + len(ln.encode("utf-8")))
        self.bsrc = src.encode("utf-8")

    def span(self, n):
        return self.offs[n.lineno - 1] + n.col_offset, self.offs[n.end_lineno - 1] + n.end_col_offset

    def seg(self, n):
        a, b = self.span(n)
        return self.bsrc[a:b].decode("utf-8")

    def conv_text(self, node):
        """text of node with convertible compares rewritten (recursively inside BoolOp And); returns (text, changed)"""
        c = convertible(node)
        if c:
            _, got, wants = c
            return f"eqv({self.seg(got)}, {', '.join(self.seg(w) for w in wants)})", True
        if isinstance(node, ast.BoolOp) and isinstance(node.op, ast.And):
            parts = [self.conv_text(v) for v in node.values]
            if any(ch for _, ch in parts):
                thunks = []
                for (txt, ch), v in zip(parts, node.values):
                    if ch:
                        thunks.append(f"lambda: {txt}")
                    else:
                        thunks.append(f"lambda: (True if ({self.seg(v)}) else None)")
                return "tri_lazy(" + ", ".join(thunks) + ")", True
        return self.seg(node), False


def main():
    path = sys.argv[1]
    src = open(path, encoding="utf-8").read()
    tree = ast.parse(src)
    rw = Rewriter(src)
    sound_names = set()
    edits = []
    for fn in [n for n in ast.walk(tree) if isinstance(n, ast.FunctionDef)]:
        local_sound = set()
        for node in ast.walk(fn):
            if isinstance(node, ast.Assign) and len(node.targets) == 1 and isinstance(node.targets[0], ast.Name) and node.targets[0].id.startswith("ok"):
                txt, ch = rw.conv_text(node.value)
                if ch:
                    a, b = rw.span(node.value)
                    edits.append((a, b, txt))
                    local_sound.add(node.targets[0].id)
        # run.ob calls
        for node in ast.walk(fn):
            if isinstance(node, ast.Call) and isinstance(node.func, ast.Attribute) and node.func.attr == "ob" and isinstance(node.func.value, ast.Name) and node.func.value.id == "run":
                if len(node.args) >= 4 and not any(k.arg == "sound" for k in node.keywords):
                    okarg = node.args[3]
                    txt, ch = rw.conv_text(okarg)
                    names = {x.id for x in ast.walk(okarg) if isinstance(x, ast.Name)}
                    if ch:
                        a, b = rw.span(okarg)
                        edits.append((a, b, txt))
                    if ch or (names & local_sound):
                        # append sound=True before the closing parenthesis
                        a, b = rw.span(node)
                        edits.append((b - 1, b - 1, ", sound=True"))
                        # witness=None if okX else "..."  stays valid: witnesses are only printed for violations
    # apply non-overlapping edits from the end
    edits.sort(key=lambda e: (e[0], e[1]), reverse=True)
    out = rw.bsrc
    last = None
    n = 0
    for a, b, t in edits:
        if last is not None and b > last:
            continue     # overlapping (nested) edit: outer one already covers it
        out = out[:a] + t.encode("utf-8") + out[b:]
        last = a
        n += 1
    print(f"{path}: {n} edits")
    if "--write" in sys.argv:
        open(path, "w", encoding="utf-8").write(out.decode("utf-8"))


if __name__ == "__main__":
    main()
