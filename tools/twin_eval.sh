#!/bin/sh
# usage: tools/twin_eval.sh <worktree> <twin name> <Cxx> [Cyy ...]
# behaviour-preserving refactor: demo must pass on pristine AND patched tree; checks run against the patched worktree.
wt="$1"; name="$2"; shift 2
d="$wt/_twin/$name"
cd "$wt" || exit 2
git checkout -q -- PyMatterSim
run_demo() { (cd /tmp && PYTHONPATH="$wt" timeout 1800 /venv/bin/python "$d/demo.py" > "$d/.demo_out_$1.txt" 2>&1; echo $?); }
p0=$(run_demo pristine)
git apply "$d/patch.diff" 2>/dev/null || { echo "$name: PATCH-FAIL"; exit 1; }
p1=$(run_demo patched)
res=""
for p in "$@"; do
  VERIF_REPO="$wt" VERIF_EVIDENCE_DIR="/tmp/ev_twin_$$" /verif/check "$p" > "$d/.check_$p.txt" 2>&1; rc=$?
  res="$res $p:exit=$rc"
done
rm -rf "/tmp/ev_twin_$$"
git checkout -q -- PyMatterSim
echo "$name: demo pristine=$p0 patched=$p1 |$res"
