F = "neighbors/freud_neighbors.py"
MUTANTS = [
    dict(id="c20-G9-shape-nconfig", props=["C20"], expect="fire", file=F, old="num_particles = points.shape[0]", new="num_particles = points.shape[nconfig]", mention="frame:size"),
    dict(id="c20-G10-save-args", props=["C20"], expect="fire", file=F, old="        np.save(outputfile, matrixA)\n    return matrixA", new="        np.save(matrixA, outputfile)\n    return matrixA", mention="raw:file"),
    dict(id="c20-G8-alias", props=["C20"], expect="fire", file=F, old="points = np.array(list_points[nconfig])", new="points = list_points[nconfig]", mention="frame:points"),
    dict(id="c20-frame0-box", props=["C20"], expect="fire", file=F, old="    box = list_box[nconfig]\n", new="    box = list_box[0]\n", mention="frame:box"),
    dict(id="c20-no-restore", props=["C20"], expect="fire", file=F, old="            # move back to the original position\n            points[i, j] += deltar\n", new="", mention="perturbation:sequence"),
    dict(id="c20-forward-diff", props=["C20"], expect="fire", file=F, old="points[i, j] -= 2 * deltar", new="points[i, j] -= deltar", mention="perturbation:sequence"),
    dict(id="c20-column", props=["C20"], expect="fire", file=F, old="matrixA[condition, ndim * i + j] = medium[condition]", new="matrixA[condition, i + ndim * j] = medium[condition]", mention="off-diagonal"),
    dict(id="c20-self-sign", props=["C20"], expect="fire", file=F, old="matrixA[i, ndim * i : ndim * i + ndim] = -medium.sum(axis=0)", new="matrixA[i, ndim * i : ndim * i + ndim] = medium.sum(axis=0)", mention="self-block"),
    dict(id="c20-norm-by-column", props=["C20"], expect="fire", file=F, old="matrixA /= original[:, np.newaxis]", new="matrixA /= np.repeat(original, ndim)[np.newaxis, :]", mention="normalisation"),
    dict(id="c20-header-token-bond", props=["C20"], expect="fire", file=F, old="fbondinfos.write(\"id   cn   facearealist\\n\")", new="fbondinfos.write(\"id   cn   neighborlist\\n\")", mention="3D:token.facearea.dat"),
    dict(id="c20-header-notoken", props=["C20"], expect="fire", file=F, old="fneighbors.write(\"id   cn   neighborlist\\n\")", new="fneighbors.write(\"id   cn   neighbors\\n\")", mention="token.neighbor.dat"),
    dict(id="c20-header-once", props=["C20"], expect="fire", file=F, old="    for n in range(snapshots.nsnapshots):\n        # write header for each configuration\n        fneighbors.write(\"id   cn   neighborlist\\n\")\n", new="    fneighbors.write(\"id   cn   neighborlist\\n\")\n    for n in range(snapshots.nsnapshots):\n", mention="header.neighbor.dat"),
    dict(id="c20-id-noshift", props=["C20"], expect="fire", file=F, old="nlist = np.array(voro.nlist) + 1", new="nlist = np.array(voro.nlist)", mention="R-"),
    dict(id="c20-cursor-shared", props=["C20"], expect="fire", file=F, old="        unique, counts = np.unique(nlist[:, 0], return_counts=True)\n        nn = 0\n", new="        unique, counts = np.unique(nlist[:, 0], return_counts=True)\n", mention="R-"),
    dict(id="c20-entries-col0", props=["C20"], expect="fire", file=F, old="fneighbors.write(\"%d \" % nlist[nn, 1])", new="fneighbors.write(\"%d \" % nlist[nn, 0])", mention="entries.neighbor.dat"),
    dict(id="c20-volume-index", props=["C20"], expect="fire", file=F, old="foverall.write(\"%d %d %.6f\\n\" % (atomid, i_cn, volumes[i]))", new="foverall.write(\"%d %d %.6f\\n\" % (atomid, i_cn, volumes[nn]))", mention="overall-row"),
    dict(id="c20-shift-lo-only", props=["C20"], expect="fire", file=F, old="shiftfactor = snapshot.boxbounds[:, 0] + snapshot.boxlength / 2", new="shiftfactor = snapshot.boxbounds[:, 0]", mention="points"),
    dict(id="c20-frame-inputs", props=["C20"], expect="fire", file=F, old="box, points = list_box[n], list_points[n]", new="box, points = list_box[0], list_points[n]", mention="inputs"),
    # twins
    dict(id="c20-twin-shift-form", props=["C20"], expect="silent", file=F, old="shiftfactor = snapshot.boxbounds[:, 0] + snapshot.boxlength / 2", new="shiftfactor = 0.5 * snapshot.boxlength + snapshot.boxbounds[:, 0]"),
    dict(id="c20-twin-fd-form", props=["C20"], expect="silent", file=F, old="medium = (V1 - V2) / 2 / deltar", new="medium = (V1 - V2) / (2 * deltar)"),
]
