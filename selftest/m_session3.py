"""Variants added in the third session: hand-checked CORRECT counterparts of seeded changes (must stay silent) next to the
wrong form (must fire), for the rules that were generalised (inline minimum image in column form, whole-array forms decided on
symbolic arrays, vectorised harmonics call, type-pair table by fancy indexing, log-section skip guard)."""
V = "static/vector.py"
G = "static/gr.py"
T = "dynamic/time_corr.py"
N = "neighbors/calculate_neighbors.py"
S = "utils/spherical_harmonics.py"
L = "reader/simulation_log.py"

_DIV_OLD = "        RIJ = snapshot.positions[i_cnlist] - snapshot.positions[i]\n        RIJ = remove_pbc(RIJ, snapshot.hmatrix, ppp)\n\n        UIJ = vector[i_cnlist] - vector[i]\n        divergence[i]"


def _div(hinv, back):
    return ("        RIJ = snapshot.positions[i_cnlist] - snapshot.positions[i]\n"
            f"        SIJ = np.dot({hinv}, RIJ.T)\n"
            "        SIJ = SIJ - np.rint(SIJ) * np.asarray(ppp)[:, np.newaxis]\n"
            f"        RIJ = np.dot({back}, SIJ).T\n\n        UIJ = vector[i_cnlist] - vector[i]\n        divergence[i]")


_GR_OLD = "    if not conditiontype:\n        for i in range(snapshot.nparticle - 1):\n            RIJ = snapshot.positions[i + 1:] - snapshot.positions[i]\n            RIJ = remove_pbc(RIJ, snapshot.hmatrix, ppp)\n"


def _gr(h):
    return (f"    scaled = np.linalg.solve({h}, snapshot.positions.T).T\n    if not conditiontype:\n        for i in range(snapshot.nparticle - 1):\n"
            "            DIJ = scaled[i + 1:] - scaled[i]\n            RIJ = np.dot(DIJ - np.rint(DIJ) * np.array(ppp)[np.newaxis, :], snapshot.hmatrix)\n")


_TC_OLD = "            for n in range(snapshots.nsnapshots):\n                results[n] = (condition[n] * np.conj(condition[0])).sum().real\n"
_CUT_OLD = ("    cutoffs = np.zeros((nparticle_type, snapshots.snapshots[0].nparticle))\n    for i in range(cutoffs.shape[0]):\n        for j in range(cutoffs.shape[1]):\n"
            "            cutoffs[i, j] = r_cut[i, snapshots.snapshots[0].particle_type[j] - 1]\n")
_ABOVE_OLD = "    if phi < 0:\n        phi += 2 * np.pi\n\n    results = []\n    for m in range(-l, l + 1):\n        results.append(sph_harm(m, l, phi, theta))\n    return np.array(results)\n"


def _above(shift):
    return f"    if phi < 0:\n        phi += {shift}\n\n    return np.asarray(sph_harm(np.arange(-l, l + 1), l, phi, theta))\n"


_LOG_OLD = "    for i in range(linenum.shape[0]):\n        data = pd.read_csv(filename, sep=r\"\\s+\", skiprows=start[i], nrows=linenum[i])\n"


def _log(bound):
    return f"    for i in range(linenum.shape[0]):\n        if end[i] - start[i] <= {bound}:\n            continue\n        data = pd.read_csv(filename, sep=r\"\\s+\", skiprows=start[i], nrows=linenum[i])\n"


B = "static/boo.py"
_Q_OLD = "            Particlesmallqlm = np.zeros(\n                (snapshot.nparticle, 2 * self.l + 1), dtype=np.complex128)\n"
_Q_ANCHOR = "        for snapshot in self.snapshots.snapshots:\n            Neighborlist = read_neighbors("
_Q_HOIST = "        Particlesmallqlm = np.zeros((self.snapshots.snapshots[0].nparticle, 2 * self.l + 1), dtype=np.complex128)\n" + _Q_ANCHOR

MUTANTS = [
    # zero-expected-count rule R-ALIAS: a per-frame array hoisted out of the frame loop and appended every frame
    dict(id="s3-qlm-hoisted-allocation", props=["C09"], expect="fire", edits=[(B, _Q_OLD, "            Particlesmallqlm[:] = 0\n"), (B, _Q_ANCHOR, _Q_HOIST)], mention="R-ALIAS"),
    # column-vector minimum image: H^T is right, H is wrong
    dict(id="s3-divcurl-column-form-HT", props=["C15", "C07"], expect="silent", file=V, old=_DIV_OLD, new=_div("np.linalg.inv(snapshot.hmatrix.T)", "snapshot.hmatrix.T")),
    dict(id="s3-divcurl-column-form-H", props=["C15"], expect="fire", file=V, old=_DIV_OLD, new=_div("np.linalg.inv(snapshot.hmatrix)", "snapshot.hmatrix"), mention="image"),
    # scaled coordinates computed once: solve(H^T, P^T)^T is right
    dict(id="s3-gr-scaled-solve-HT", props=["C13", "C07", "C02"], expect="silent", file=G, old=_GR_OLD, new=_gr("snapshot.hmatrix.T")),
    dict(id="s3-gr-scaled-solve-H", props=["C13"], expect="fire", file=G, old=_GR_OLD, new=_gr("snapshot.hmatrix"), mention="R-PBC"),
    # whole-array time correlation
    dict(id="s3-timecorr-tensordot-conj", props=["C14"], expect="silent", file=T, old=_TC_OLD, new="            results = np.tensordot(condition, np.conj(condition[0]), axes=2).real\n"),
    dict(id="s3-timecorr-tensordot-noconj", props=["C14"], expect="fire", file=T, old=_TC_OLD, new="            results = np.tensordot(condition, condition[0], axes=2).real\n", mention="whole-array"),
    dict(id="s3-timecorr-einsum-conj", props=["C14"], expect="silent", file=T, old=_TC_OLD, new="            results = np.einsum('tia,ia->t', condition, np.conj(condition[0])).real\n"),
    # type-pair cutoff table by fancy indexing
    dict(id="s3-cutoff-table-columns", props=["C05"], expect="silent", file=N, old=_CUT_OLD, new="    cutoffs = r_cut[:, snapshots.snapshots[0].particle_type - 1]\n"),
    dict(id="s3-cutoff-table-transposed", props=["C05"], expect="fire", file=N, old=_CUT_OLD, new="    cutoffs = r_cut[snapshots.snapshots[0].particle_type - 1].T\n", mention="typed:"),
    # vectorised delegated harmonics
    dict(id="s3-above-vectorised", props=["C08"], expect="silent", file=S, old=_ABOVE_OLD, new=_above("2 * np.pi")),
    dict(id="s3-above-vectorised-pi", props=["C08"], expect="fire", file=S, old=_ABOVE_OLD, new=_above("np.pi"), mention="azimuth"),
    # log sections: skipping only empty sections is fine
    dict(id="s3-log-skip-empty", props=["C19"], expect="silent", file=L, old=_LOG_OLD, new=_log(1)),
    dict(id="s3-log-skip-single-row", props=["C19"], expect="fire", file=L, old=_LOG_OLD, new=_log(2), mention="skip-guard"),
]
