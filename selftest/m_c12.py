F = "static/hessians.py"
MUTANTS = [
    dict(id="c12-lj-s2-coef", props=["C12"], expect="fire", file=F, old="(26 * ratio**2 - 7 * ratio)", new="(26 * ratio**2 - 6 * ratio)"),
    dict(id="c12-lj-s1-sign", props=["C12"], expect="fire", file=F, old="s1 = -24 * self.epsilon / self.r * (2 * ratio**2 - ratio)", new="s1 = 24 * self.epsilon / self.r * (2 * ratio**2 - ratio)"),
    dict(id="c12-lj-s1rc-uses-r", props=["C12"], expect="fire", file=F, old="s1rc = -24 * self.epsilon / self.r_c * (2 * ratio_c**2 - ratio_c)", new="s1rc = -24 * self.epsilon / self.r_c * (2 * ratio_c**2 - ratio)"),
    dict(id="c12-ipl-n-plus-1", props=["C12"], expect="fire", file=F, old="n * (n + 1) / self.r**2", new="n * (n - 1) / self.r**2"),
    dict(id="c12-ipl-rc-ratio", props=["C12"], expect="fire", file=F, old="ratio_c = (self.sigma / self.r_c)**n", new="ratio_c = (self.sigma / self.r)**n"),
    dict(id="c12-hertz-exp", props=["C12"], expect="fire", file=F, old="(alpha - 1) * ratio**(alpha - 2)", new="(alpha - 1) * ratio**(alpha - 1)"),
    dict(id="c12-hertz-sigma", props=["C12"], expect="fire", file=F, old="s1 = -self.epsilon / self.sigma * ratio**(alpha - 1)", new="s1 = -self.epsilon * ratio**(alpha - 1)"),
    dict(id="c12-init-rc", props=["C12"], expect="fire", file=F, old="self.r_c = r_c", new="self.r_c = sigma"),
    dict(id="c12-shift-inverted", props=["C12"], expect="fire", file=F, old="        ratio_c = (self.sigma / self.r_c)**6\n        s1 = -24 * self.epsilon / self.r * (2 * ratio**2 - ratio)\n        if self.shift:", new="        ratio_c = (self.sigma / self.r_c)**6\n        s1 = -24 * self.epsilon / self.r * (2 * ratio**2 - ratio)\n        if not self.shift:"),
    dict(id="c12-dispatch-swap", props=["C12"], expect="fire", file=F, old="n=interaction_params.ipl_n,\n                A=interaction_params.ipl_A", new="n=interaction_params.ipl_A,\n                A=interaction_params.ipl_n"),
    dict(id="c12-dispatch-wrong-model", props=["C12"], expect="fire", file=F, old="if interaction_params.model_name == ModelName.lennard_jones:\n            return self.lennard_jones()", new="if interaction_params.model_name == ModelName.harmonic_hertz:\n            return self.lennard_jones()"),
    # twins
    dict(id="c12-twin-lj-refactor", props=["C12"], expect="silent", file=F, old="s1 = -24 * self.epsilon / self.r * (2 * ratio**2 - ratio)", new="pref = 24 * self.epsilon\n        s1 = -(2 * ratio * ratio - ratio) * pref / self.r"),
    dict(id="c12-twin-ipl-power", props=["C12"], expect="silent", file=F, old="ratio = (self.sigma / self.r)**n", new="ratio = np.power(self.sigma, n) / np.power(self.r, n)"),
    dict(id="c12-twin-dispatch-elif", props=["C12"], expect="silent", file=F, old="        # interaction_params.model_name == ModelName.harmonic_hertz\n        return self.harmonic_hertz(", new="        if interaction_params.model_name != ModelName.harmonic_hertz:\n            raise ValueError('unknown model')\n        return self.harmonic_hertz("),
]
