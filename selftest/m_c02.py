F = "utils/pbc.py"
RET = "    return np.dot(matrixij - np.rint(matrixij) * ppp, hmatrix)"
MUTANTS = [
    dict(id="c02-floor", props=["C02"], expect="fire", file=F, old=RET, new="    return np.dot(matrixij - np.floor(matrixij) * ppp, hmatrix)"),
    dict(id="c02-astype-int", props=["C02"], expect="fire", file=F, old=RET, new="    return np.dot(matrixij - matrixij.astype(int) * ppp, hmatrix)"),
    dict(id="c02-no-backtransform", props=["C02"], expect="fire", file=F, old=RET, new="    return matrixij - np.rint(matrixij) * ppp"),
    dict(id="c02-H-instead-of-inv", props=["C02"], expect="fire", file=F, old="matrixij = np.dot(RIJ, hmatrixinv)", new="matrixij = np.dot(RIJ, hmatrix)"),
    dict(id="c02-transposed-inv", props=["C02"], expect="fire", file=F, old="matrixij = np.dot(RIJ, hmatrixinv)", new="matrixij = np.dot(RIJ, hmatrixinv.T)"),
    dict(id="c02-mask-on-cartesian", props=["C02"], expect="fire", file=F, old=RET, new="    return RIJ - np.dot(np.rint(matrixij), hmatrix) * ppp"),
    dict(id="c02-plus", props=["C02"], expect="fire", file=F, old=RET, new="    return np.dot(matrixij + np.rint(matrixij) * ppp, hmatrix)"),
    dict(id="c02-mask-dropped", props=["C02"], expect="fire", file=F, old=RET, new="    return np.dot(matrixij - np.rint(matrixij), hmatrix)"),
    dict(id="c02-left-multiply", props=["C02"], expect="fire", file=F, old=RET, new="    return np.dot(hmatrix, (matrixij - np.rint(matrixij) * ppp).T).T"),
    dict(id="c02-callsite-swapped-args", props=["C02"], expect="fire", file="static/vector.py", old="RIJ = remove_pbc(RIJ, snapshot.hmatrix, ppp)", new="RIJ = remove_pbc(snapshot.hmatrix, RIJ, ppp)"),
    dict(id="c02-callsite-other-frame-cell", props=["C02"], expect="fire", file="static/pairentropy.py", old="RIJ = remove_pbc(RIJ, snapshot.hmatrix, self.ppp)", new="RIJ = remove_pbc(RIJ, self.snapshots.snapshots[0].hmatrix, self.ppp)"),
    dict(id="c02-callsite-default-mask", props=["C02"], expect="fire", file="static/geometric.py", old="            RIJ = remove_pbc(RIJ, snapshot.hmatrix, ppp)\n            distance = np.linalg.norm(RIJ, axis=1)\n            nearests", new="            RIJ = remove_pbc(RIJ, snapshot.hmatrix)\n            distance = np.linalg.norm(RIJ, axis=1)\n            nearests"),
    dict(id="c02-callsite-absolute", props=["C02"], expect="fire", file="neighbors/calculate_neighbors.py", old="            RIJ = positions - positions[i]\n            RIJ = remove_pbc(RIJ, hmatrix, ppp)\n            RIJ_norm = np.linalg.norm(RIJ, axis=1)\n            nearests = neighbor[RIJ_norm <= r_cut]", new="            RIJ = remove_pbc(positions, hmatrix, ppp) - positions[i]\n            RIJ_norm = np.linalg.norm(RIJ, axis=1)\n            nearests = neighbor[RIJ_norm <= r_cut]"),
    # twins
    dict(id="c02-twin-matmul", props=["C02"], expect="silent", file=F, old="    matrixij = np.dot(RIJ, hmatrixinv)\n" + RET, new="    frac = RIJ @ hmatrixinv\n    shift = np.rint(frac) * ppp\n    return (frac - shift) @ hmatrix"),
    dict(id="c02-twin-subtract-cartesian", props=["C02"], expect="silent", file=F, old=RET, new="    return RIJ - np.dot(np.rint(matrixij) * ppp, hmatrix)"),
    dict(id="c02-twin-round", props=["C02"], expect="silent", file=F, old=RET, new="    return np.dot(matrixij - ppp * np.around(matrixij), hmatrix)"),
]
