#!/venv/bin/python
"""Checker self-test: apply one edit per variant to a scratch copy of /repo/PyMatterSim and run the
property's check against it.  killers must exit 1 (VIOLATION), twins must exit 0.

usage: selftest/run.py [Cxx ...] [--jobs N] [--only id-substring] [--tier quick]
A self-test failure is reported as exit 2 (never as a VIOLATION of a property).
Scratch copies live under tempfile.mkdtemp() and are removed in a finally block.
"""
from __future__ import annotations

import argparse
import concurrent.futures as cf
import importlib.util
import os
import shutil
import subprocess
import sys
import tempfile

HERE = os.path.dirname(os.path.abspath(__file__))
VERIF = os.path.dirname(HERE)
REPO = os.environ.get("VERIF_REPO", "/repo")


def load_mutants():
    out = []
    # independently written property-breaking changes kept under /verif/seeded: each must still be reported by the checks that
    # reported it when it was recorded (meta.json: detected_by with result VIOLATION)
    sd = os.path.join(VERIF, "seeded")
    if os.path.isdir(sd):
        import json
        for name in sorted(os.listdir(sd)):
            mp = os.path.join(sd, name, "meta.json")
            pp = os.path.join(sd, name, "patch.diff")
            if not (os.path.exists(mp) and os.path.exists(pp)):
                continue
            meta = json.load(open(mp))
            props = sorted(k for k, v in meta.get("detected_by", {}).items() if v.get("result") == "VIOLATION")
            if props:
                out.append(dict(id=f"seed-{name}", props=props, expect="fire", patch=pp))
    # independently written behaviour-preserving refactorings kept under /verif/twins: no check may ever report one as a
    # violation; a check that was silent (exit 0) on it when it was recorded must stay silent
    td = os.path.join(VERIF, "twins")
    if os.path.isdir(td):
        import json
        for name in sorted(os.listdir(td)):
            mp = os.path.join(td, name, "meta.json")
            pp = os.path.join(td, name, "patch.diff")
            if not (os.path.exists(mp) and os.path.exists(pp)):
                continue
            meta = json.load(open(mp))
            silent = sorted(k for k, v in meta.get("checks", {}).items() if v.get("result") == "silent")
            soft = sorted(k for k, v in meta.get("checks", {}).items() if v.get("result") == "undecided")
            if silent:
                out.append(dict(id=f"twin-{name}", props=silent, expect="silent", patch=pp))
            if soft:
                out.append(dict(id=f"twin-{name}:undecided", props=soft, expect="not-fire", patch=pp))
    for fn in sorted(os.listdir(HERE)):
        if fn.startswith("m_") and fn.endswith(".py"):
            spec = importlib.util.spec_from_file_location(fn[:-3], os.path.join(HERE, fn))
            mod = importlib.util.module_from_spec(spec)
            spec.loader.exec_module(mod)
            out.extend(mod.MUTANTS)
    return out


def run_one(m, tier):
    tmp = tempfile.mkdtemp(prefix="pmsa-selftest-")
    try:
        shutil.copytree(os.path.join(REPO, "PyMatterSim"), os.path.join(tmp, "PyMatterSim"))
        if m.get("patch"):
            p = subprocess.run(["git", "apply", "--whitespace=nowarn", m["patch"]], cwd=tmp, capture_output=True, text=True)
            if p.returncode != 0:
                return m, None, f"seed patch does not apply: {p.stderr[:200]}"
        edits = [] if m.get("patch") else (m.get("edits") or [(m["file"], m["old"], m["new"])])
        for file, old, new in edits:
            path = os.path.join(tmp, "PyMatterSim", file)
            with open(path, "r", encoding="utf-8") as f:
                src = f.read()
            cnt = src.count(old)
            want = m.get("count", 1)
            if cnt != want:
                return m, None, f"edit does not apply: {cnt} occurrences of {old!r} in {file} (want {want})"
            src = src.replace(old, new)
            try:
                compile(src, path, "exec")
            except SyntaxError as e:
                return m, None, f"variant does not compile: {e}"
            with open(path, "w", encoding="utf-8") as f:
                f.write(src)
        env = dict(os.environ, VERIF_REPO=tmp, VERIF_EVIDENCE_DIR=os.path.join(tmp, "evidence"))
        results = []
        for prop in m["props"]:
            p = subprocess.run([os.path.join(VERIF, "check"), prop, "--tier", tier], env=env, capture_output=True, text=True,
                               timeout=600)
            results.append((prop, p.returncode, p.stdout[-3000:] + p.stderr[-1000:]))
        return m, results, None
    finally:
        shutil.rmtree(tmp, ignore_errors=True)


def main() -> int:
    ap = argparse.ArgumentParser()
    ap.add_argument("props", nargs="*")
    ap.add_argument("--jobs", type=int, default=min(16, os.cpu_count() or 4))
    ap.add_argument("--only", default=None)
    ap.add_argument("--kind", default=None, choices=["mutants", "seeds", "twins"], help="restrict to hand-written mutants, kept seeded changes or kept refactorings")
    ap.add_argument("--tier", default="quick")
    ap.add_argument("-v", action="store_true")
    a = ap.parse_args()
    muts = load_mutants()
    if a.props:
        want = {p.upper() for p in a.props}
        muts = [m for m in muts if want & set(m["props"])]
        for m in muts:
            m["props"] = [p for p in m["props"] if p in want]
    if a.only:
        muts = [m for m in muts if a.only in m["id"]]
    if a.kind:
        kind_of = lambda i: "seeds" if i.startswith("seed-") else ("twins" if i.startswith("twin-") else "mutants")      # noqa: E731
        muts = [m for m in muts if kind_of(m["id"]) == a.kind]
    bad = 0
    with cf.ThreadPoolExecutor(max_workers=a.jobs) as ex:
        for m, results, err in ex.map(lambda m: run_one(m, a.tier), muts):
            if err:
                bad += 1
                print(f"SELFTEST-BROKEN {m['id']}: {err}")
                continue
            for prop, rc, out in results:
                want_rc = 1 if m["expect"] == "fire" else 0
                ok = rc == want_rc
                if m["expect"] == "not-fire":
                    ok = rc in (0, 2)
                if m["expect"] == "fire" and rc == 1 and m.get("mention"):
                    ok = m["mention"] in out
                tag = "ok  " if ok else "FAIL"
                print(f"{tag} {m['id']:<50} {prop} expect={m['expect']:<6} exit={rc}")
                if not ok:
                    bad += 1
                    if a.v or True:
                        print("     | " + "\n     | ".join(out.strip().splitlines()[-12:]))
    print(f"selftest: {len(muts)} variants, {bad} failures")
    return 0 if bad == 0 else 2


if __name__ == "__main__":
    sys.exit(main())
