F = "utils/coarse_graining.py"
MUTANTS = [
    dict(id="c16-G5-2d", props=["C16"], expect="fire", file=F, old="indice = i * ngrids[1] + j", new="indice = i * ngrids[0] + j", mention="2D:flat-index"),
    dict(id="c16-G5-3d", props=["C16"], expect="fire", file=F, old="indice = (i * ngrids[1] + j) * ngrids[2] + k", new="indice = i * ngrids[0] + j * ngrids[1] + k", mention="3D:flat-index"),
    dict(id="c16-3d-zslowest", props=["C16"], expect="fire", file=F, old="indice = (i * ngrids[1] + j) * ngrids[2] + k", new="indice = (k * ngrids[1] + j) * ngrids[0] + i", mention="3D:flat-index"),
    dict(id="c16-G6-middle", props=["C16"], expect="fire", file=F, old="results_middle_snapshots.append(n + time_nsnapshot // 2)", new="results_middle_snapshots.append(round(n + time_nsnapshot / 2))", mention="middle"),
    dict(id="c16-middle-end", props=["C16"], expect="fire", file=F, old="results_middle_snapshots.append(n + time_nsnapshot // 2)", new="results_middle_snapshots.append(n + time_nsnapshot - 1)", mention="middle"),
    dict(id="c16-window-offbyone", props=["C16"], expect="fire", file=F, old="input_property[n:n + time_nsnapshot].mean(axis=0)", new="input_property[n:n + time_nsnapshot + 1].mean(axis=0)", mention="window"),
    dict(id="c16-axis-y-uses-x-count", props=["C16"], expect="fire", file=F, old="Y = np.linspace(bxobounds[1, 0], bxobounds[1, 1], ngrids[1])", new="Y = np.linspace(bxobounds[1, 0], bxobounds[1, 1], ngrids[0])", mention="axis1"),
    dict(id="c16-axis-z-bounds", props=["C16"], expect="fire", file=F, old="Z = np.linspace(bxobounds[2, 0], bxobounds[2, 1], ngrids[2])", new="Z = np.linspace(bxobounds[1, 0], bxobounds[2, 1], ngrids[2])", mention="axis2"),
    dict(id="c16-gaussian-norm", props=["C16"], expect="fire", file="utils/funcs.py", old="return np.exp(-np.square(distances) / sigma2) / np.sqrt(sigma2 * np.pi)", new="return np.exp(-np.square(distances) / sigma2) / np.sqrt(sigma2) * np.pi", mention="gaussian"),
    dict(id="c16-gaussian-sigma2", props=["C16"], expect="fire", file="utils/funcs.py", old="sigma2 = 2 * sigma**2", new="sigma2 = sigma**2", mention="gaussian"),
    dict(id="c16-selection-misaligned", props=["C16"], expect="fire", file=F, old="                grid_property[n, i] = (\n                    probability[:, np.newaxis] * condition[n, selection]).sum(axis=0)", new="                grid_property[n, i] = (\n                    probability[:, np.newaxis] * condition[0, selection]).sum(axis=0)", mention="vector:selection"),
    dict(id="c16-tensor-axis", props=["C16"], expect="fire", file=F, old="                                                                        selection]).sum(axis=0)", new="                                                                        selection]).sum(axis=1)", mention="tensor:axis"),
    dict(id="c16-hmatrix-frame0", props=["C16"], expect="fire", file=F, old="RIJ = remove_pbc(RIJ, snapshot.hmatrix, ppp=ppp)", new="RIJ = remove_pbc(RIJ, snapshots.snapshots[0].hmatrix, ppp=ppp)", mention="cell"),
    dict(id="c16-spatial-cg-feedback", props=["C16"], expect="fire", file=F, old="cg_input_property[n, i] += input_property[n, j]", new="cg_input_property[n, i] += cg_input_property[n, j]", mention="sum"),
    dict(id="c16-spatial-div-cn", props=["C16"], expect="fire", file=F, old="cg_input_property[n, i] /= (1 + cnlist[i, 0])", new="cg_input_property[n, i] /= cnlist[i, 0]", mention="mean"),
    dict(id="c16-spatial-slice", props=["C16"], expect="fire", file=F, old="for j in cnlist[i, 1:1 + cnlist[i, 0]]:", new="for j in cnlist[i, 1:cnlist[i, 0]]:", mention="neighbours"),
    dict(id="c16-spatial-open-in-loop", props=["C16"], expect="fire", file=F, old="    with open(neighborfile, mode=\"r\", encoding=\"utf-8\") as fneighbor:\n        for n in range(input_property.shape[0]):\n            cnlist = read_neighbors(fneighbor, input_property.shape[1], Nmax)", new="    for n in range(input_property.shape[0]):\n        with open(neighborfile, mode=\"r\", encoding=\"utf-8\") as fneighbor:\n            cnlist = read_neighbors(fneighbor, input_property.shape[1], Nmax)", mention="R-HANDLE"),
    dict(id="c16-cutoff-gt", props=["C16"], expect="fire", file=F, old="selection = RIJ < gaussian_cut", new="selection = RIJ > gaussian_cut", mention="cutoff"),
    # twins
    dict(id="c16-twin-index-expanded", props=["C16"], expect="silent", file=F, old="indice = (i * ngrids[1] + j) * ngrids[2] + k", new="ny, nz = ngrids[1], ngrids[2]\n                        indice = k + nz * j + i * ny * nz"),
    dict(id="c16-twin-middle", props=["C16"], expect="silent", file=F, old="results_middle_snapshots.append(n + time_nsnapshot // 2)", new="half = time_nsnapshot // 2\n        results_middle_snapshots.append(half + n)"),
    dict(id="c16-twin-gaussian", props=["C16"], expect="silent", file="utils/funcs.py", old="return np.exp(-np.square(distances) / sigma2) / np.sqrt(sigma2 * np.pi)", new="norm = 1.0 / (np.sqrt(2 * np.pi) * sigma)\n    return norm * np.exp(-0.5 * (distances / sigma) ** 2)"),
]
MUTANTS += [
    dict(id="c16-twin-vectorised-masked", props=["C16"], expect="silent", file=F,
         old="            for i in range(input_property.shape[1]):\n                # in case input_property is multi-dimensional\n                for j in cnlist[i, 1:1 + cnlist[i, 0]]:\n                    cg_input_property[n, i] += input_property[n, j]\n                cg_input_property[n, i] /= (1 + cnlist[i, 0])\n",
         new="            nb = cnlist[:, 1:]\n            occ = np.arange(nb.shape[1])[np.newaxis, :] < cnlist[:, :1]\n            tail = (1,) * (input_property.ndim - 2)\n            vals = np.where(occ.reshape(occ.shape + tail), input_property[n][nb], 0)\n            cg_input_property[n] += vals.sum(axis=1)\n            cg_input_property[n] /= (1 + cnlist[:, 0]).reshape((-1,) + tail)\n"),
    dict(id="c16-vectorised-padded", props=["C16"], expect="fire", file=F,
         old="            for i in range(input_property.shape[1]):\n                # in case input_property is multi-dimensional\n                for j in cnlist[i, 1:1 + cnlist[i, 0]]:\n                    cg_input_property[n, i] += input_property[n, j]\n                cg_input_property[n, i] /= (1 + cnlist[i, 0])\n",
         new="            tail = (1,) * (input_property.ndim - 2)\n            cg_input_property[n] += input_property[n][cnlist[:, 1:]].sum(axis=1)\n            cg_input_property[n] /= (1 + cnlist[:, 0]).reshape((-1,) + tail)\n", mention="mean"),
]
