V = "static/vector.py"
MUTANTS = [
    dict(id="c15-pr-noN", props=["C15"], expect="fire", file=V, old="value_PR = 1.0 / (np.sum(np.square((vector * vector).sum(axis=1))) * num_of_particles)", new="value_PR = 1.0 / np.sum(np.square((vector * vector).sum(axis=1)))", mention="participation-ratio"),
    dict(id="c15-pr-axis", props=["C15"], expect="fire", file=V, old="value_PR = 1.0 / (np.sum(np.square((vector * vector).sum(axis=1))) * num_of_particles)", new="value_PR = 1.0 / (np.sum(np.square((vector * vector).sum(axis=0))) * num_of_particles)", mention="participation-ratio"),
    dict(id="c15-align-slice", props=["C15"], expect="fire", file=V, old="        medium = (vector[i] * vector[cnlist[i, 1 : 1 + cnlist[i, 0]]]).sum(axis=1)\n        results[i] = medium.mean()", new="        medium = (vector[i] * vector[cnlist[i, 0 : cnlist[i, 0]]]).sum(axis=1)\n        results[i] = medium.mean()", mention="dot-products"),
    dict(id="c15-align-sum", props=["C15"], expect="fire", file=V, old="results[i] = medium.mean()", new="results[i] = medium.sum()", mention="alignment"),
    dict(id="c15-pq-abs", props=["C15"], expect="fire", file=V, old="sum_1 += np.abs(medium).sum()", new="sum_1 += np.abs(medium.sum())", mention="quotient"),
    dict(id="c15-div-uij-slice", props=["C15"], expect="fire", file=V, old="UIJ = vector[i_cnlist] - vector[i]", new="UIJ = vector[cnlist[i, :cnlist[i, 0]]] - vector[i]", mention="uij"),
    dict(id="c15-div-nopbc", props=["C15"], expect="fire", file=V, old="        RIJ = remove_pbc(RIJ, snapshot.hmatrix, ppp)\n", new="", mention="R-PBC"),
    dict(id="c15-curl-order", props=["C15"], expect="fire", file=V, old="curl[i] += np.cross(RIJ[j], UIJ[j])", new="curl[i] += np.cross(UIJ[j], RIJ[j])", mention="3D:curl"),
    dict(id="c15-curl-nonorm", props=["C15"], expect="fire", file=V, old="            curl[i] /= cnlist[i, 0]\n", new="", mention="3D:curl"),
    dict(id="c15-vib-row", props=["C15"], expect="fire", file=V, old="medium = eigenvectors[:, i].reshape(num_of_partices, -1)", new="medium = eigenvectors[i].reshape(num_of_partices, -1)", mention="term"),
    dict(id="c15-vib-freq", props=["C15"], expect="fire", file=V, old="results += np.square(medium).sum(axis=1) / eigenvalues[i]", new="results += np.square(medium).sum(axis=1) / eigenfrequencies[i]", mention="term"),
    dict(id="c15-G12-inplace", props=["C15"], expect="fire", file=V, old="unitq = unitq / (vector_fft[\"q\"].values)[:, np.newaxis]", new="unitq /= (vector_fft[\"q\"].values)[:, np.newaxis]", mention="values-readonly"),
    dict(id="c15-unitq-notnorm", props=["C15"], expect="fire", file=V, old="    unitq = unitq / (vector_fft[\"q\"].values)[:, np.newaxis]\n", new="", mention="unit-q"),
    dict(id="c15-L-otherq", props=["C15"], expect="fire", file=V, old="medium = np.dot(unitq[n], fft_columns[n])", new="medium = np.dot(unitq[0], fft_columns[n])", mention="longitudinal"),
    dict(id="c15-T-sum", props=["C15"], expect="fire", file=V, old="vector_T = fft_columns - vector_L", new="vector_T = fft_columns + vector_L", mention="transverse"),
    dict(id="c15-SqL-noconj", props=["C15"], expect="fire", file=V, old="(vector_L * np.conj(vector_L)).sum(axis=1).real", new="(vector_L * vector_L).sum(axis=1).real", mention="Sq_L"),
    dict(id="c15-corr-frame0", props=["C15"], expect="fire", file=V, old="vector_decomposition_sq(snapshot=snapshot, qvector=qvector, vector=vectors[n])", new="vector_decomposition_sq(snapshot=snapshot, qvector=qvector, vector=vectors[0])", mention="per-frame"),
    # twins
    dict(id="c15-twin-pr-form", props=["C15"], expect="silent", file=V, old="    value_PR = 1.0 / (np.sum(np.square((vector * vector).sum(axis=1))) * num_of_particles)\n    value_PR *= np.square((vector * vector).sum())", new="    e2 = np.square(vector).sum(axis=1)\n    value_PR = np.square(np.sum(np.square(vector))) / (num_of_particles * np.sum(e2 ** 2))"),
    dict(id="c15-twin-slice-form", props=["C15"], expect="silent", file=V, old="i_cnlist = cnlist[i, 1 : cnlist[i, 0] + 1]", new="i_cnlist = cnlist[i, 1 : 1 + cnlist[i, 0]]"),
]
