P = "static/pairentropy.py"
G = "static/geometric.py"
N = "static/nematic.py"
S = "static/shape.py"
MUTANTS = [
    dict(id="c17-integrand-sign", props=["C17"], expect="fire", file=P, old="y = gr * np.log(gr) - gr + 1", new="y = gr * np.log(gr) - gr - 1", mention="integrand"),
    dict(id="c17-integrand-power", props=["C17"], expect="fire", file=P, old="y *= np.power(gr_bins, ndim - 1)", new="y *= np.power(gr_bins, ndim)", mention="integrand"),
    dict(id="c17-G13-trapz", props=["C17"], expect="fire", file=P, old="    trapezoid = getattr(np, \"trapezoid\", None) or np.trapz\n    return trapezoid(y, gr_bins)", new="    return np.trapz(y, gr_bins)", mention="integrator-exists"),
    dict(id="c17-sum-not-trapz", props=["C17"], expect="fire", file=P, old="    trapezoid = getattr(np, \"trapezoid\", None) or np.trapz\n    return trapezoid(y, gr_bins)", new="    return np.sum(y, gr_bins)", mention="rule"),
    dict(id="c17-prefactor-d", props=["C17"], expect="fire", file=P, old="s2_results[n, i] = -(self.ndim - 1) * np.pi * \\", new="s2_results[n, i] = -self.ndim * np.pi * \\", mention="prefactor"),
    dict(id="c17-norm-2d", props=["C17"], expect="fire", file=P, old="norms = 2 * gr_bins * self.rhototal * np.pi", new="norms = 2 * np.square(gr_bins) * self.rhototal * np.pi", mention="2D:shell-norm"),
    dict(id="c17-bins-left", props=["C17"], expect="fire", file=P, old="gr_bins = np.arange(self.ndelta) * self.rdelta + self.rdelta / 2", new="gr_bins = np.arange(self.ndelta) * self.rdelta + self.rdelta", mention="bins"),
    dict(id="c17-jtypes-misaligned", props=["C17"], expect="fire", file=P, old="                jtypes = (\n                    np.delete(\n                        snapshot.particle_type,\n                        i) -\n                    1).astype(\n                    np.int64)[condition]", new="                jtypes = (snapshot.particle_type[:-1] - 1).astype(np.int64)[condition]", mention="sigma"),
    dict(id="c17-itype-1based", props=["C17"], expect="fire", file=P, old="itype = int(snapshot.particle_type[i] - 1)", new="itype = int(snapshot.particle_type[i])", mention="sigma"),
    dict(id="c17-s2-nopbc", props=["C17"], expect="fire", file=P, old="                RIJ = remove_pbc(RIJ, snapshot.hmatrix, self.ppp)\n                distance = np.linalg.norm(RIJ, axis=1)\n                condition", new="                distance = np.linalg.norm(RIJ, axis=1)\n                condition", mention="image"),
    dict(id="c17-tetra-pairs", props=["C17"], expect="fire", file=G, old="            for j in range(num_nearest - 1):\n                for k in range(j + 1, num_nearest):", new="            for j in range(num_nearest - 1):\n                for k in range(j + 1, num_nearest - 1):", mention="pairs"),
    dict(id="c17-tetra-third", props=["C17"], expect="fire", file=G, old="results[n, i] += (medium1 / medium2 + 1.0 / 3) ** 2", new="results[n, i] += (medium1 / medium2 - 1.0 / 3) ** 2", mention="pair-term"),
    dict(id="c17-tetra-norm", props=["C17"], expect="fire", file=G, old="results = 1.0 - 3.0 / 8 * results / num_nearest", new="results = 1.0 - 3.0 / 8 * results", mention="normalisation"),
    dict(id="c17-G17-pivot-out-of-range", props=["C17"], expect="fire", file=G, old="nearests = np.argpartition(distance, num_nearest)[: num_nearest + 1]", new="nearests = np.argpartition(distance, num_nearest + 1)[: num_nearest + 1]", mention="four-nearest"),
    dict(id="c17-tetra-kth", props=["C17"], expect="fire", file=G, old="nearests = np.argpartition(distance, num_nearest)[: num_nearest + 1]", new="nearests = np.argpartition(distance, num_nearest - 1)[: num_nearest + 1]", mention="four-nearest"),
    dict(id="c17-tetra-keepself", props=["C17"], expect="fire", file=G, old="            nearests = [j for j in nearests if j != i]\n", new="            nearests = list(nearests)\n", mention="drop-self"),
    dict(id="c17-nematic-Q", props=["C17"], expect="fire", file=N, old="ndim * mu[x] * mu[y] - kronecker(x, y)) / 2", new="ndim * mu[x] * mu[y] - kronecker(x, y))", mention="Q"),
    dict(id="c17-nematic-scalar", props=["C17"], expect="fire", file=N, old="Qtrace *= ndim / (ndim - 1)", new="Qtrace *= (ndim - 1) / ndim", mention="trace:scalar"),
    dict(id="c17-nematic-eig", props=["C17"], expect="fire", file=N, old="eigenvalues[n, i] = np.linalg.eig(QIJ[n, i])[0].max() * 2.0", new="eigenvalues[n, i] = np.linalg.eig(QIJ[n, i])[0].min() * 2.0", mention="eig:scalar"),
    dict(id="c17-gyr-nocentre", props=["C17"], expect="fire", file=S, old="    pos_group = pos_group - center_of_mass\n", new="", mention="centred"),
    dict(id="c17-gyr-combos", props=["C17"], expect="fire", file=S, old="combinations = [(0, 0), (0, 1), (0, 2), (1, 1), (1, 2), (2, 2)]", new="combinations = [(0, 0), (0, 1), (0, 2), (1, 1), (2, 2)]", mention="3D:entries-complete"),
    dict(id="c17-gyr-aspher", props=["C17"], expect="fire", file=S, old="principal_component[2] - 0.5 * principal_component.sum()", new="principal_component[0] - 0.5 * principal_component.sum()", mention="asphericity"),
    dict(id="c17-gyr-sort-desc", props=["C17"], expect="fire", file=S, old="principal_component = np.sort(np.linalg.eig(results)[0])", new="principal_component = np.sort(np.linalg.eig(results)[0])[::-1]", mention="acylindricity"),
    # twins
    dict(id="c17-twin-integrand", props=["C17"], expect="silent", file=P, old="    y = gr * np.log(gr) - gr + 1\n    y *= np.power(gr_bins, ndim - 1)", new="    y = (1 + gr * (np.log(gr) - 1)) * gr_bins ** (ndim - 1)"),
    dict(id="c17-twin-tetra-const", props=["C17"], expect="silent", file=G, old="results = 1.0 - 3.0 / 8 * results / num_nearest", new="results = 1.0 - (3.0 / 32.0) * results"),
    dict(id="c17-twin-gyr-rg", props=["C17"], expect="silent", file=S, old="radius_of_gyration = np.sqrt(principal_component.sum())", new="radius_of_gyration = principal_component.sum() ** 0.5"),
]
