B = "static/boo.py"
MUTANTS = [
    dict(id="c10-angle-swapped", props=["C10"], expect="fire", file=B, old="                    theta = np.arctan2(RIJ[:, 1], RIJ[:, 0])\n                    results[n, i] = (np.exp(1j * self.l * theta)).mean()", new="                    theta = np.arctan2(RIJ[:, 0], RIJ[:, 1])\n                    results[n, i] = (np.exp(1j * self.l * theta)).mean()", mention="plain:angle"),
    dict(id="c10-kernel-sign", props=["C10"], expect="fire", file=B, old="results[n, i] = (np.exp(1j * self.l * theta)).mean()", new="results[n, i] = (np.exp(-1j * self.l * theta)).mean()", mention="plain:kernel"),
    dict(id="c10-kernel-fixed6", props=["C10"], expect="fire", file=B, old="results[n, i] = (np.exp(1j * self.l * theta)).mean()", new="results[n, i] = (np.exp(1j * 6 * theta)).mean()", mention="plain:kernel"),
    dict(id="c10-sum-not-mean", props=["C10"], expect="fire", file=B, old="results[n, i] = (np.exp(1j * self.l * theta)).mean()", new="results[n, i] = (np.exp(1j * self.l * theta)).sum()", mention="plain:mean"),
    dict(id="c10-weights-signed-sum", props=["C10"], expect="fire", file=B, old="weights /= np.abs(weights).sum()", new="weights /= weights.sum()", mention="weighted:normalised"),
    dict(id="c10-weights-shifted", props=["C10"], expect="fire", file=B, old="weights = weightslist[i, 1:Neighborlist[i, 0] + 1]", new="weights = weightslist[i, :Neighborlist[i, 0]]", mention="weighted:alignment"),
    dict(id="c10-weighted-mean", props=["C10"], expect="fire", file=B, old="                    results[n, i] = (\n                        weights * np.exp(1j * self.l * theta)).sum()", new="                    results[n, i] = (\n                        weights * np.exp(1j * self.l * theta)).mean()", mention="weighted:sum"),
    dict(id="c10-weighted-cell0", props=["C10"], expect="fire", file=B, old="                    RIJ = remove_pbc(RIJ, snapshot.hmatrix, self.ppp)\n                    theta = np.arctan2(RIJ[:, 1], RIJ[:, 0])\n                    weights =", new="                    RIJ = remove_pbc(RIJ, self.snapshots.snapshots[0].hmatrix, self.ppp)\n                    theta = np.arctan2(RIJ[:, 1], RIJ[:, 0])\n                    weights =", mention="weighted:cell"),
    dict(id="c10-slot-frame", props=["C10"], expect="fire", file=B, old="results[n, i] = (np.exp(1j * self.l * theta)).mean()", new="results[0, i] = (np.exp(1j * self.l * theta)).mean()", mention="plain:slot"),
    dict(id="c10-timeavg-phase-of-modulus", props=["C10"], expect="fire", file=B, old="                input_property=np.angle(self.ParticlePhi),", new="                input_property=np.abs(self.ParticlePhi),", mention="modulus-phase:input"),
    dict(id="c10-timeavg-combine", props=["C10"], expect="fire", file=B, old="                np.exp(1j * average_phase.real)", new="                np.exp(average_phase.real)", mention="combine"),
    dict(id="c10-spatial-frame", props=["C10"], expect="fire", file=B, old="                condition=self.ParticlePhi[n],", new="                condition=self.ParticlePhi[0],", mention="spatial"),
    # twins
    dict(id="c10-twin-kernel-order", props=["C10"], expect="silent", file=B, old="results[n, i] = (np.exp(1j * self.l * theta)).mean()", new="results[n, i] = np.mean(np.exp(theta * self.l * 1j))"),
    dict(id="c10-twin-weights-outofplace", props=["C10"], expect="silent", file=B, old="weights /= np.abs(weights).sum()", new="weights = weights / np.abs(weights).sum()"),
]
