"""Demo for the loop restructuring in read_additions (inner per-line Python loop replaced
by one whole-frame fancy-index assignment).

Dump files with additional columns are produced with write_dump_header followed by atom
lines in random id order (2D and 3D, several frames, 1..40 atoms, integer / exponent /
negative / nan values). Every column is read back with read_additions (zero-based column
number, also a negative one) and cross-checked with the column reader
read_lammps_vector_wrapper (one-based column ids). Expected values are computed here from
the written text, indexed by atom id.
"""
import logging
import os
import shutil
import sys
import tempfile

import numpy as np

logging.disable(logging.CRITICAL)

from PyMatterSim.reader.lammps_reader_helper import read_additions, read_lammps_vector_wrapper
from PyMatterSim.writer.lammps_writer import write_dump_header

FORMATS = ["%.6f", "%.3e", "%d", "%.12g", "%s"]


def write_file(path, rng, ndim, nframes, natoms, nextra):
    """returns text[frame][atom id - 1] = list of column strings of that atom line"""
    names = " ".join("q%d" % k for k in range(nextra))
    table = []
    with open(path, "w", encoding="utf-8") as fh:
        for iframe in range(nframes):
            lo = rng.uniform(-5.0, 0.0, size=ndim)
            bounds = np.column_stack((lo, lo + rng.uniform(4.0, 9.0, size=ndim)))
            fh.write(write_dump_header(100 * iframe, natoms, bounds, names))
            rows = [None] * natoms
            for idx in rng.permutation(natoms):
                cols = ["%d" % (idx + 1), "%d" % rng.integers(1, 4)]
                cols += ["%.6f" % v for v in rng.uniform(bounds[:, 0], bounds[:, 1])]
                for k in range(nextra):
                    fmt = FORMATS[(k + iframe) % len(FORMATS)]
                    value = rng.normal() * 10.0 ** int(rng.integers(-6, 7))
                    if fmt == "%d":
                        cols.append(fmt % int(value))
                    elif fmt == "%s":
                        cols.append(["nan", "-inf", "1e-320", "-0.0", "+7"][int(rng.integers(0, 5))])
                    else:
                        cols.append(fmt % value)
                rows[idx] = cols
                fh.write(" ".join(cols) + "\n")
            table.append(rows)
    return table


def expected_column(table, col):
    out = np.zeros((len(table), len(table[0])))
    for iframe, rows in enumerate(table):
        for idx, cols in enumerate(rows):
            out[iframe, idx] = float(cols[col])
    return out


def same(a, b):
    return a.shape == b.shape and a.dtype == b.dtype and np.array_equal(a, b, equal_nan=True) \
        and np.array_equal(np.signbit(a), np.signbit(b))


def main():
    rng = np.random.default_rng(419)
    tmp = tempfile.mkdtemp()
    failures = 0
    ncases = 0
    try:
        for ndim in (2, 3):
            for nframes, natoms, nextra in ((1, 1, 1), (2, 5, 2), (4, 17, 3), (3, 40, 5), (7, 8, 1)):
                ncases += 1
                path = os.path.join(tmp, "add_%d_%d.atom" % (ndim, ncases))
                table = write_file(path, rng, ndim, nframes, natoms, nextra)
                ncols = 2 + ndim + nextra
                for col in list(range(ncols)) + [-1]:
                    got = read_additions(path, col)
                    want = expected_column(table, col)
                    if not same(got, want):
                        print("read_additions mismatch", ndim, nframes, natoms, "col", col)
                        failures += 1
                # the 1-based column reader must agree column by column, frame by frame
                ids = list(range(2 + ndim + 1, ncols + 1))[::-1]  # reversed order on purpose
                snaps = read_lammps_vector_wrapper(path, ndim, ids)
                if snaps.nsnapshots != nframes:
                    failures += 1
                    continue
                for k, cid in enumerate(ids):
                    viacol = read_additions(path, cid - 1)
                    for iframe in range(nframes):
                        if not same(viacol[iframe], snaps.snapshots[iframe].positions[:, k]):
                            print("column readers disagree", ndim, nframes, natoms, cid, iframe)
                            failures += 1

        # file with a trailing blank line and zero-based id column itself
        path = os.path.join(tmp, "trail.atom")
        table = write_file(path, rng, 3, 2, 6, 1)
        with open(path, "a", encoding="utf-8") as fh:
            fh.write("\n")
        if not same(read_additions(path, 5), expected_column(table, 5)):
            failures += 1
        if not same(read_additions(path, 0), np.tile(np.arange(1.0, 7.0), (2, 1))):
            failures += 1
    finally:
        shutil.rmtree(tmp, ignore_errors=True)

    if failures:
        print("FAILED:", failures)
        return 1
    print("additions-vectorised-frame demo OK (%d cases)" % ncases)
    return 0


if __name__ == "__main__":
    sys.exit(main())
