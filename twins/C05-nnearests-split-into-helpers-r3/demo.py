"""Demo for splitting Nnearests into private helpers.

Builds synthetic multi-frame trajectories (2D/3D, orthogonal / triclinic with negative
tilt, all periodicity masks, N = 1 .. nparticle-1), calls the public Nnearests, parses
the written text file here and compares with a scalar brute-force reference.
Exits 0 on the unchanged and on the refactored tree.
"""
import itertools
import math
import os
import shutil
import sys
import tempfile

import numpy as np

from PyMatterSim.neighbors.calculate_neighbors import Nnearests
from PyMatterSim.neighbors.read_neighbors import read_neighbors
from PyMatterSim.reader.reader_utils import SingleSnapshot, Snapshots


def make(rng, n, hmatrix, nframes):
    ndim = hmatrix.shape[0]
    frames = []
    for t in range(nframes):
        pos = (rng.random((n, ndim)) * 1.4 - 0.2) @ hmatrix  # some particles outside the cell
        frames.append(SingleSnapshot(
            timestep=t, nparticle=n, particle_type=np.ones(n, dtype=int), positions=pos,
            boxlength=np.diag(hmatrix).copy(), boxbounds=np.zeros((ndim, 2)),
            realbounds=np.zeros((ndim, 2)), hmatrix=hmatrix))
    return Snapshots(nsnapshots=nframes, snapshots=frames)


def distance(ri, rj, hmatrix, hinv, ppp):
    """scalar minimum-image distance (fractional rounding in periodic directions)"""
    ndim = len(ri)
    d = [rj[k] - ri[k] for k in range(ndim)]
    s = [sum(d[k] * hinv[k][c] for k in range(ndim)) for c in range(ndim)]
    s = [s[c] - (round(s[c]) if ppp[c] else 0.0) for c in range(ndim)]
    r = [sum(s[k] * hmatrix[k][c] for k in range(ndim)) for c in range(ndim)]
    return math.sqrt(sum(x * x for x in r))


def reference(snapshot, N, ppp):
    h = snapshot.hmatrix
    hinv = np.linalg.inv(h)
    pos = snapshot.positions
    out = []
    for i in range(snapshot.nparticle):
        dist = [(distance(pos[i], pos[j], h, hinv, ppp), j) for j in range(snapshot.nparticle) if j != i]
        dist.sort()
        out.append([j for _, j in dist[:N]])
    return out


def parse(fn):
    """independent parser of the text file -> list of frames, each a list of int rows"""
    frames = []
    with open(fn, encoding="utf-8") as f:
        for line in f:
            tok = line.split()
            if not tok:
                continue
            if tok[0] == "id":
                assert tok == ["id", "cn", "neighborlist"], tok
                frames.append([])
            else:
                frames[-1].append([int(x) for x in tok])
    return frames


def main():
    rng = np.random.default_rng(11)
    tmp = tempfile.mkdtemp()
    ok = True
    try:
        cells = [np.diag([6.0, 7.0, 8.0]),
                 np.array([[7.0, 0, 0], [-2.0, 6.5, 0], [1.0, -1.5, 8.0]]),
                 np.diag([9.0, 7.0]),
                 np.array([[9.0, 0], [-3.0, 8.0]])]
        n = 23
        for cell in cells:
            ndim = cell.shape[0]
            for ppp in itertools.product((1, 0), repeat=ndim):
                ppp = np.array(ppp)
                snaps = make(rng, n, cell, 2)
                for N in (1, 4, n - 1):
                    fn = os.path.join(tmp, "nn.dat")
                    Nnearests(snaps, N=N, ppp=ppp, fnfile=fn)
                    frames = parse(fn)
                    if len(frames) != 2:
                        ok = False
                        print("wrong number of frames")
                    with open(fn, encoding="utf-8") as f:
                        for snapshot, rows in zip(snaps.snapshots, frames):
                            exp = reference(snapshot, N, ppp)
                            good = len(rows) == n
                            for i, row in enumerate(rows):
                                good = good and row[0] == i + 1 and row[1] == N
                                good = good and [x - 1 for x in row[2:]] == exp[i]
                            back = read_neighbors(f, n, Nmax=200)
                            good = good and back.shape == (n, N + 1) and back.dtype == np.int32
                            good = good and np.array_equal(back[:, 0], np.full(n, N))
                            good = good and np.array_equal(back[:, 1:], np.array(exp))
                            if not good:
                                ok = False
                                print("MISMATCH", cell.tolist(), ppp, N)
        # simple cubic lattice (spacing 2 in a box of 8, all arithmetic exact):
        # the 6 nearest neighbours are the lattice neighbours (ties -> compare as sets)
        grid = np.array(list(itertools.product(range(4), repeat=3)), dtype=float) * 2.0
        cell = np.diag([8.0, 8.0, 8.0])
        snap = SingleSnapshot(0, 64, np.ones(64, dtype=int), grid, np.diag(cell).copy(),
                              np.zeros((3, 2)), np.zeros((3, 2)), cell)
        fn = os.path.join(tmp, "sc.dat")
        Nnearests(Snapshots(1, [snap]), N=6, ppp=np.array([1, 1, 1]), fnfile=fn)
        rows = parse(fn)[0]
        for i, row in enumerate(rows):
            exp = set()
            for k in range(3):
                for s in (-2.0, 2.0):
                    r = grid[i].copy()
                    r[k] = (r[k] + s) % 8.0
                    exp.add(int(np.flatnonzero((grid == r).all(axis=1))[0]))
            if {x - 1 for x in row[2:]} != exp or row[0] != i + 1 or row[1] != 6:
                ok = False
                print("LATTICE MISMATCH", i)
    finally:
        shutil.rmtree(tmp)
    print("OK" if ok else "FAILED")
    return 0 if ok else 1


if __name__ == "__main__":
    sys.exit(main())
