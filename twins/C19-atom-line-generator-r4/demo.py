"""Demo for the refactoring 'atom-line-generator'.

Exercises the per-atom line loops of read_lammps_centertype and
read_lammps_vector (PyMatterSim/reader/lammps_reader_helper.py) through the
public wrappers and through DumpReader, on synthetic multi-frame dump files:
2D and 3D, coordinate styles x / xu / xs, unsorted atom ids, different particle
numbers, several type maps (subset, all types, a key that never occurs, an
empty selection) and several column-id lists.  Expected values are computed
here from the arrays the files were written from.  Reading several frames from
one open file also checks that exactly `N` atom lines are consumed per frame.
Exits 0 on success.
"""
import logging
import os
import shutil
import sys
import tempfile

import numpy as np

from PyMatterSim.reader.dump_reader import DumpReader
from PyMatterSim.reader.lammps_reader_helper import (
    read_additions, read_lammps_centertype_wrapper, read_lammps_vector_wrapper)
from PyMatterSim.reader.reader_utils import DumpFileType

logging.disable(logging.CRITICAL)


def write_dump(fname, rng, ndim, style, nparts, ntypes=4, nextra=3):
    """write a dump file; returns the per-frame data in id order"""
    frames = []
    with open(fname, "w", encoding="utf-8") as f:
        for k, npart in enumerate(nparts):
            lo = np.round(rng.uniform(-6, 2, size=ndim), 4)
            hi = np.round(lo + rng.uniform(2, 9, size=ndim), 4)
            length = hi - lo
            types = rng.integers(1, ntypes + 1, size=npart)
            frac = np.round(rng.uniform(-0.4, 1.4, size=(npart, ndim)), 5)
            if style == "xs":
                frac = np.round(rng.uniform(0.0, 1.0, size=(npart, ndim)), 5)
                coords = frac
            else:
                coords = np.round(lo + frac * length, 5)
            extra = np.round(rng.normal(size=(npart, nextra)), 5)
            timestep = 500 * k + 3
            names = {"x": ["x", "y", "z"], "xu": ["xu", "yu", "zu"],
                     "xs": ["xs", "ys", "zs"]}[style][:ndim]
            f.write("ITEM: TIMESTEP\n%d\nITEM: NUMBER OF ATOMS\n%d\n" % (timestep, npart))
            f.write("ITEM: BOX BOUNDS pp pp pp\n")
            for d in range(ndim):
                f.write("%.4f %.4f\n" % (lo[d], hi[d]))
            if ndim == 2:
                f.write("-0.5 0.5\n")
            f.write("ITEM: ATOMS id type %s %s\n"
                    % (" ".join(names), " ".join("c%d" % j for j in range(nextra))))
            for i in rng.permutation(npart):  # unsorted ids
                f.write("%d %d %s %s\n" % (
                    i + 1, types[i],
                    " ".join("%.5f" % c for c in coords[i]),
                    " ".join("%.5f" % c for c in extra[i])))
            frames.append(dict(timestep=timestep, lo=lo, hi=hi, types=types,
                               coords=coords, extra=extra, npart=npart))
    return frames


def expected_center(frame, style, moltypes):
    lo, hi = frame["lo"], frame["hi"]
    length = hi - lo
    keep = np.array([t in moltypes for t in frame["types"]], dtype=bool)
    newtypes = np.array([moltypes[t] for t in frame["types"][keep]], dtype=int)
    pos = frame["coords"][keep].astype(float)
    if style == "x":
        pos = pos.copy()
        low = pos < lo
        pos[low] = (pos + length)[low]
        high = pos > hi
        pos[high] = (pos - length)[high]
    elif style == "xs":
        pos = pos * length + lo
    return keep, newtypes, pos


def check_center(rng, tmp):
    maps = [{3: 1, 4: 2}, {1: 1, 2: 2, 3: 3, 4: 4}, {2: 7, 9: 5}, {4: 1}, {9: 1}]
    for ndim in (2, 3):
        for style in ("x", "xu", "xs"):
            fname = os.path.join(tmp, "center_%d_%s.atom" % (ndim, style))
            frames = write_dump(fname, rng, ndim, style, nparts=[9, 9, 1, 14])
            for moltypes in maps:
                for via in ("wrapper", "DumpReader"):
                    if via == "wrapper":
                        snaps = read_lammps_centertype_wrapper(fname, ndim, moltypes)
                    else:
                        reader = DumpReader(fname, ndim, filetype=DumpFileType.LAMMPSCENTER,
                                            moltypes=moltypes)
                        reader.read_onefile()
                        snaps = reader.snapshots
                    assert snaps.nsnapshots == len(frames) == len(snaps.snapshots)
                    for snap, frame in zip(snaps.snapshots, frames):
                        keep, newtypes, pos = expected_center(frame, style, moltypes)
                        assert snap.timestep == frame["timestep"]
                        assert snap.nparticle == keep.sum()
                        assert snap.positions.shape == (keep.sum(), ndim)
                        assert len(snap.particle_type) == keep.sum()
                        if keep.sum():
                            assert np.array_equal(snap.particle_type, newtypes)
                            assert np.allclose(snap.positions, pos, rtol=1e-12, atol=1e-12)
                        bounds = np.column_stack((frame["lo"], frame["hi"]))
                        assert np.array_equal(snap.boxbounds, bounds)
                        assert np.array_equal(snap.boxlength, frame["hi"] - frame["lo"])
                        assert np.array_equal(snap.hmatrix, np.diag(frame["hi"] - frame["lo"]))
                        assert snap.realbounds is None


def check_vector(rng, tmp):
    for ndim in (2, 3):
        fname = os.path.join(tmp, "vector_%d.atom" % ndim)
        frames = write_dump(fname, rng, ndim, "x", nparts=[6, 1, 11, 11, 2])
        first_extra = ndim + 3  # 1-based column id of "c0"
        for cols in ([first_extra], [first_extra + 1, first_extra + 2],
                     [first_extra + 2, first_extra, first_extra + 1],
                     [3, first_extra], [first_extra, first_extra]):
            for via in ("wrapper", "DumpReader"):
                if via == "wrapper":
                    snaps = read_lammps_vector_wrapper(fname, ndim, cols)
                else:
                    reader = DumpReader(fname, ndim, filetype=DumpFileType.LAMMPSVECTOR,
                                        columnsids=cols)
                    reader.read_onefile()
                    snaps = reader.snapshots
                assert snaps.nsnapshots == len(frames)
                for snap, frame in zip(snaps.snapshots, frames):
                    table = np.column_stack((np.arange(1, frame["npart"] + 1), frame["types"],
                                             frame["coords"], frame["extra"]))
                    assert snap.timestep == frame["timestep"]
                    assert snap.nparticle == frame["npart"]
                    assert np.array_equal(snap.particle_type, frame["types"])
                    assert snap.positions.shape == (frame["npart"], len(cols))
                    assert np.array_equal(snap.positions, table[:, [c - 1 for c in cols]])
                    assert np.array_equal(snap.boxbounds,
                                          np.column_stack((frame["lo"], frame["hi"])))
        # empty column list is rejected
        try:
            read_lammps_vector_wrapper(fname, ndim, [])
        except ValueError:
            pass
        else:
            raise AssertionError("empty columnsids accepted")
        # read_additions (constant particle number needed)
        fname = os.path.join(tmp, "adds_%d.atom" % ndim)
        frames = write_dump(fname, rng, ndim, "x", nparts=[7, 7, 7])
        for j in range(3):
            got = read_additions(fname, ncol=ndim + 2 + j)
            assert got.shape == (3, 7)
            for k in range(3):
                assert np.array_equal(got[k], frames[k]["extra"][:, j])


def main():
    rng = np.random.default_rng(19)
    tmp = tempfile.mkdtemp()
    try:
        check_center(rng, tmp)
        check_vector(rng, tmp)
    finally:
        shutil.rmtree(tmp, ignore_errors=True)
    print("atom-line-generator demo: OK")
    return 0


if __name__ == "__main__":
    sys.exit(main())
