import logging
import os
import shutil
import sys
import tempfile

import numpy as np

logging.disable(logging.CRITICAL)

from PyMatterSim.neighbors.calculate_neighbors import (  # noqa: E402
    Nnearests, cutoffneighbors, cutoffneighbors_particletype)
from PyMatterSim.neighbors.read_neighbors import read_neighbors  # noqa: E402
from PyMatterSim.reader.reader_utils import SingleSnapshot, Snapshots  # noqa: E402

HEADER = 'id     cn     neighborlist'
FAILURES = []


def check(cond, msg):
    if not cond:
        FAILURES.append(msg)
        print('FAIL:', msg)


# --------------------------------------------------------------------------
# synthetic configurations
# --------------------------------------------------------------------------
def make_frame(rng, n, hmatrix, ntypes=1, step=0):
    """n random particles inside the cell spanned by the rows of hmatrix"""
    hmatrix = np.asarray(hmatrix, dtype=float)
    ndim = hmatrix.shape[0]
    frac = rng.random((n, ndim))
    positions = frac @ hmatrix
    ptype = (np.arange(n) % ntypes) + 1
    rng.shuffle(ptype)
    if ntypes > 1:
        ptype[:ntypes] = np.arange(ntypes) + 1  # every type present
    boxlength = np.diag(hmatrix).copy()
    bounds = np.column_stack((np.zeros(ndim), boxlength))
    return SingleSnapshot(
        timestep=step, nparticle=n, particle_type=ptype.astype(np.int32),
        positions=positions, boxlength=boxlength, boxbounds=bounds,
        realbounds=bounds, hmatrix=hmatrix)


def make_lattice(ncell, ndim):
    """simple (hyper)cubic lattice, spacing 1, exactly representable numbers"""
    grids = np.meshgrid(*[np.arange(ncell, dtype=float)] * ndim, indexing='ij')
    positions = np.column_stack([g.ravel() for g in grids])
    n = positions.shape[0]
    hmatrix = np.eye(ndim) * float(ncell)
    boxlength = np.diag(hmatrix).copy()
    bounds = np.column_stack((np.zeros(ndim), boxlength))
    return SingleSnapshot(
        timestep=0, nparticle=n, particle_type=np.ones(n, dtype=np.int32),
        positions=positions, boxlength=boxlength, boxbounds=bounds,
        realbounds=bounds, hmatrix=hmatrix)


def pack(frames):
    return Snapshots(nsnapshots=len(frames), snapshots=list(frames))


CELLS = {
    '3d-ortho': np.diag([6.0, 7.0, 5.5]),
    '3d-tric': np.array([[6.0, 0.0, 0.0], [1.2, 6.5, 0.0], [-0.9, 0.7, 5.8]]),
    '3d-tric-neg': np.array([[6.0, 0.0, 0.0], [-1.5, 6.5, 0.0], [0.8, -1.1, 5.8]]),
    '2d-ortho': np.diag([9.0, 8.0]),
    '2d-tric-neg': np.array([[9.0, 0.0], [-2.0, 8.0]]),
}


# --------------------------------------------------------------------------
# independent reference (written without the library helpers)
# --------------------------------------------------------------------------
def ref_distances(frame, i, ppp):
    """distances from particle i under the fractional-coordinate
    minimum-image convention, one neighbour at a time"""
    h = np.asarray(frame.hmatrix, dtype=float)
    out = np.empty(frame.nparticle)
    for j in range(frame.nparticle):
        d = frame.positions[j] - frame.positions[i]
        s = np.linalg.solve(h.T, d)  # d = s @ h
        s = np.array([sk - round(sk) if pk else sk for sk, pk in zip(s, ppp)])
        out[j] = np.sqrt(np.sum((s @ h) ** 2))
    return out


def brute_image_distances(frame, i, ppp):
    """true minimum over the 3**d neighbouring images (orthogonal cells)"""
    h = np.asarray(frame.hmatrix, dtype=float)
    ndim = h.shape[0]
    shifts = np.array(np.meshgrid(*[[-1, 0, 1] if p else [0] for p in ppp],
                                  indexing='ij')).reshape(ndim, -1).T
    d = frame.positions - frame.positions[i]
    best = np.full(frame.nparticle, np.inf)
    for s in shifts:
        best = np.minimum(best, np.sqrt((((d + s @ h)) ** 2).sum(axis=1)))
    return best


def ref_sorted_others(dist, i):
    order = sorted((j for j in range(len(dist)) if j != i), key=lambda j: dist[j])
    return order


def parse_frames(text):
    """split a neighbour file into frames: list of list of int rows"""
    frames = []
    for line in text.split('\n')[:-1]:
        if line.split() == HEADER.split():
            frames.append([])
        else:
            frames[-1].append([int(t) for t in line.split()])
    return frames


def margin_ok(dist, i, rc, eps=1e-9):
    others = np.delete(dist, i)
    gaps = np.diff(np.sort(others))
    return (np.abs(others - rc) > eps).all() and (gaps > eps).all()


def finish(tmpdir):
    shutil.rmtree(tmpdir, ignore_errors=True)
    if FAILURES:
        print('%d check(s) failed' % len(FAILURES))
        sys.exit(1)
    print('all checks passed')
    sys.exit(0)


# --------------------------------------------------------------------------
# demo: read_neighbors - id-indexed rows, -1 shift only for neighbour lists,
# Nmax truncation, trimming to the largest coordination number, sequential
# frames from one open file
# --------------------------------------------------------------------------
def expected_array(rows, nparticle, nmax, is_list):
    """rows: list of (id, cn, values) as written in the file"""
    full = np.zeros((nparticle, nmax + 1))
    for pid, cn, vals in rows:
        k = cn if cn <= nmax else nmax
        full[pid - 1, 0] = k
        for c in range(k):
            full[pid - 1, 1 + c] = vals[c] - 1 if is_list else vals[c]
    maxcn = int(max(full[:, 0]))
    if maxcn < nmax:
        full = full[:, :maxcn + 1]
    return full.astype(np.int32) if is_list else full


def write_file(fn, header, frames, fmt):
    with open(fn, 'w', encoding='utf-8') as f:
        for rows in frames:
            f.write(header + '\n')
            for pid, cn, vals in rows:
                f.write('%d %d ' % (pid, cn) + ' '.join(fmt(v) for v in vals) + '\n')


def same(a, b):
    return a.dtype == b.dtype and a.shape == b.shape and a.tobytes() == b.tobytes()


def main():
    tmpdir = tempfile.mkdtemp()
    rng = np.random.default_rng(9001)

    # 1. neighbour lists, rows in shuffled id order, unequal cn (0 included)
    n = 30
    list_frames = []
    for _ in range(4):
        rows = []
        for pid in rng.permutation(n) + 1:
            cn = int(rng.integers(0, 12))
            others = [j for j in rng.permutation(n) + 1 if j != pid][:cn]
            rows.append((int(pid), cn, [int(j) for j in others]))
        list_frames.append(rows)
    fn = os.path.join(tmpdir, 'list.dat')
    write_file(fn, HEADER, list_frames, str)
    for nmax in (200, 12, 11, 10, 5, 1, 0):
        with open(fn, 'r', encoding='utf-8') as f:
            for k, rows in enumerate(list_frames):
                arr = read_neighbors(f, n, Nmax=nmax)
                check(same(arr, expected_array(rows, n, nmax, True)),
                      'neighbour list frame %d Nmax=%d' % (k, nmax))
            check(f.readline() == '', 'list file fully consumed Nmax=%d' % nmax)

    # 2. another neighbour property (weights): no shift, floats kept exactly
    special = [-0.0, 0.0, 1.0e-300, -2.5e+17, 0.1, -1.0, 1.0, 123456.789]
    w_frames = []
    for _ in range(3):
        rows = []
        for pid in rng.permutation(n) + 1:
            cn = int(rng.integers(0, 9))
            vals = [float(v) for v in rng.normal(size=cn)]
            for c in range(cn):
                if rng.random() < 0.3:
                    vals[c] = special[int(rng.integers(len(special)))]
            rows.append((int(pid), cn, vals))
        w_frames.append(rows)
    for header in ('id cn weights', 'id     cn     facearea'):
        fn = os.path.join(tmpdir, 'w.dat')
        write_file(fn, header, w_frames, repr)
        for nmax in (200, 8, 7, 3, 1):
            with open(fn, 'r', encoding='utf-8') as f:
                for k, rows in enumerate(w_frames):
                    arr = read_neighbors(f, n, Nmax=nmax)
                    check(same(arr, expected_array(rows, n, nmax, False)),
                          'weights frame %d Nmax=%d' % (k, nmax))
                check(f.readline() == '', 'weights file fully consumed')

    # 3. a neighbour-list frame followed by a weights frame in one file
    fn = os.path.join(tmpdir, 'mixed.dat')
    write_file(fn, HEADER, list_frames[:1], str)
    with open(fn, 'a', encoding='utf-8') as f:
        f.write('id cn weights\n')
        for pid, cn, vals in w_frames[0]:
            f.write('%d %d ' % (pid, cn) + ' '.join(repr(v) for v in vals) + '\n')
    with open(fn, 'r', encoding='utf-8') as f:
        a = read_neighbors(f, n, Nmax=6)
        b = read_neighbors(f, n, Nmax=6)
    check(same(a, expected_array(list_frames[0], n, 6, True)), 'mixed: list frame')
    check(same(b, expected_array(w_frames[0], n, 6, False)), 'mixed: weights frame')

    # 4. files written by the library itself (2D triclinic and 3D orthogonal)
    for name, ppp in (('2d-tric-neg', (1, 1)), ('3d-ortho', (1, 0, 1))):
        frames = [make_frame(rng, m, CELLS[name], ntypes=2, step=k) for k, m in enumerate((21, 21))]
        fn = os.path.join(tmpdir, 'lib.dat')
        rc = np.array([[1.6, 2.1], [1.2, 2.6]])
        for job in (lambda: Nnearests(pack(frames), N=5, ppp=np.array(ppp), fnfile=fn),
                    lambda: cutoffneighbors(pack(frames), r_cut=2.0, ppp=np.array(ppp), fnfile=fn),
                    lambda: cutoffneighbors_particletype(pack(frames), r_cut=rc, ppp=np.array(ppp), fnfile=fn)):
            job()
            with open(fn, 'r', encoding='utf-8') as f:
                parsed = parse_frames(f.read())
            for nmax in (200, 4):
                with open(fn, 'r', encoding='utf-8') as f:
                    for rows in parsed:
                        arr = read_neighbors(f, 21, Nmax=nmax)
                        want = expected_array([(r[0], r[1], r[2:]) for r in rows], 21, nmax, True)
                        check(same(arr, want), 'library file %s Nmax=%d' % (name, nmax))
    finish(tmpdir)


if __name__ == '__main__':
    main()
