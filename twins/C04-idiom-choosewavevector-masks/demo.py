"""Demo for the numpy-idiom rewrite inside utils.wavevector.choosewavevector.

1. choosewavevector(ndim, numofq, onlypositive) is compared (values, ORDER, dtype, shape) with a
   brute-force pure-python enumeration for 2D / 3D, odd / even / degenerate numofq and all
   documented values of onlypositive.
2. The default wave-vector set is used through the public class static.sq.sq on a binary
   2D and a ternary 3D system and S(q) is compared with a vectorised reference.
Exits 0 when everything agrees.
"""
import itertools
import math
import sys

import numpy as np
import pandas as pd

from PyMatterSim.reader.reader_utils import SingleSnapshot, Snapshots
from PyMatterSim.static.sq import sq
from PyMatterSim.utils.wavevector import choosewavevector


def expected_vectors(ndim, numofq, onlypositive):
    nhalf = int(numofq / 2)
    rows = []
    if ndim in (2, 3):
        for v in itertools.product(range(-nhalf, nhalf), repeat=ndim):
            n2 = sum(c * c for c in v)
            if n2 > 0 and math.isqrt(n2) ** 2 == n2:
                rows.append(v)
        axis = {"x": 0, "y": 1, "z": 2}
        if isinstance(onlypositive, str) and onlypositive in axis and axis[onlypositive] < ndim:
            k = axis[onlypositive]
            rows = [v for v in rows if v[k] > 0 and all(c == 0 for m, c in enumerate(v) if m != k)]
        if onlypositive is True:
            rows = [v for v in rows if all(c >= 0 for c in v)]
    return np.array(rows, dtype=np.int32).reshape(-1, ndim)


def make_snapshots(rng, ndim, types, nframes, box):
    box = np.asarray(box, dtype=float)
    n = len(types)
    frames = []
    for t in range(nframes):
        pos = rng.random((n, ndim)) * box
        frames.append(SingleSnapshot(
            timestep=t, nparticle=n, particle_type=np.asarray(types), positions=pos,
            boxlength=box, boxbounds=np.column_stack([np.zeros(ndim), box]),
            realbounds=None, hmatrix=np.diag(box)))
    return Snapshots(nsnapshots=nframes, snapshots=frames)


def reference(snaps, nvec, types, nspecies):
    box = snaps.snapshots[0].boxlength
    q = 2 * np.pi * nvec.astype(float) / box[None, :]
    cols = {"q": np.sqrt((q * q).sum(axis=1)), "Sq": 0.0}
    names = [(a, a) for a in range(nspecies)] + \
            [(a, b) for a in range(nspecies) for b in range(a + 1, nspecies)]
    for a, b in names:
        cols[f"Sq{a + 1}{b + 1}"] = 0.0
    count = [np.sum(types == a + 1) for a in range(nspecies)]
    for s in snaps.snapshots:
        phase = np.exp(-1j * (s.positions @ q.T))
        rho_all = phase.sum(axis=0)
        rho = [phase[types == a + 1].sum(axis=0) for a in range(nspecies)]
        cols["Sq"] = cols["Sq"] + np.abs(rho_all) ** 2 / len(types) / snaps.nsnapshots
        for a, b in names:
            cols[f"Sq{a + 1}{b + 1}"] = cols[f"Sq{a + 1}{b + 1}"] + \
                (rho[a] * rho[b].conj()).real / math.sqrt(count[a] * count[b]) / snaps.nsnapshots
    df = pd.DataFrame(cols).round(6)
    keys = np.unique(df["q"].to_numpy())
    sel = [df["q"].to_numpy() == k for k in keys]
    return pd.DataFrame({c: (keys if c == "q" else np.array([df[c].to_numpy()[m].mean() for m in sel]))
                         for c in df.columns})


def main():
    ncheck = 0
    for ndim in (1, 2, 3):
        for numofq in (0, 1, 2, 3, 4, 7, 10, 13):
            for onlypositive in (False, True, "x", "y", "z"):
                got = choosewavevector(ndim, numofq, onlypositive)
                exp = expected_vectors(ndim, numofq, onlypositive)
                tag = (ndim, numofq, onlypositive)
                assert isinstance(got, np.ndarray) and got.dtype == np.int32, tag
                assert got.shape == exp.shape, (tag, got.shape, exp.shape)
                assert np.array_equal(got, exp), tag          # same vectors in the same order
                assert got.flags.writeable, tag
                ncheck += 1
    # default of the third argument
    assert np.array_equal(choosewavevector(2, 9), expected_vectors(2, 9, False))

    rng = np.random.default_rng(5)
    for ndim, box, nspecies, qrange in ((2, [5.7, 4.1], 2, 6.0), (3, [3.6, 4.9, 4.2], 3, 5.0)):
        types = rng.integers(1, nspecies + 1, size=21)
        types[:nspecies] = np.arange(1, nspecies + 1)
        snaps = make_snapshots(rng, ndim, types, 2, box)
        for onlypositive in (False, True, "x", "y"):
            calc = sq(snaps, qrange=qrange, onlypositive=onlypositive)
            numofq = int(qrange * 2.0 / (2 * np.pi / np.asarray(box)).min())
            nvec = expected_vectors(ndim, numofq, onlypositive)
            assert np.array_equal(calc.df_qvector.to_numpy(), nvec), (ndim, onlypositive)
            got = calc.getresults()
            exp = reference(snaps, nvec, types, nspecies)
            assert list(got.columns) == list(exp.columns)
            assert got.shape == exp.shape, (got.shape, exp.shape)
            np.testing.assert_allclose(got.to_numpy(), exp.to_numpy(), rtol=0, atol=2e-6)
            ncheck += 1
    print(f"demo OK ({ncheck} checks)")
    return 0


if __name__ == "__main__":
    sys.exit(main())
