"""Demo for the q8_tetrahedral refactoring (per-particle generator helper).

Run: PYTHONPATH=<worktree> /venv/bin/python demo.py [--dump FILE]
Exits 0 when q8_tetrahedral agrees with an independent reference on every case.
"""
import os
import pickle
import shutil
import sys
import tempfile
from itertools import combinations

import numpy as np

from PyMatterSim.reader.reader_utils import SingleSnapshot, Snapshots
from PyMatterSim.static.geometric import q8_tetrahedral


def make_snapshots(frames, hmatrix):
    hmatrix = np.asarray(hmatrix, dtype=float)
    ndim = hmatrix.shape[0]
    boxlength = np.diag(hmatrix).copy()
    bounds = np.column_stack((np.zeros(ndim), boxlength))
    snaps = []
    for t, pos in enumerate(frames):
        pos = np.asarray(pos, dtype=float)
        snaps.append(SingleSnapshot(
            timestep=t * 100,
            nparticle=pos.shape[0],
            particle_type=np.ones(pos.shape[0], dtype=np.int32),
            positions=pos,
            boxlength=boxlength,
            boxbounds=bounds,
            realbounds=bounds,
            hmatrix=hmatrix,
        ))
    return Snapshots(nsnapshots=len(snaps), snapshots=snaps)


def reference_q(frames, hmatrix, ppp):
    """straightforward definition: 1 - 3/32 sum_{j<k} (cos psi_jk + 1/3)^2 over the 4 nearest"""
    hmatrix = np.asarray(hmatrix, dtype=float)
    hinv = np.linalg.inv(hmatrix)
    ppp = np.asarray(ppp)
    out = np.zeros((len(frames), len(frames[0])))
    for n, pos in enumerate(frames):
        pos = np.asarray(pos, dtype=float)
        for i in range(pos.shape[0]):
            others = [j for j in range(pos.shape[0]) if j != i]
            vecs = []
            for j in others:
                frac = (pos[j] - pos[i]) @ hinv
                frac = frac - np.rint(frac) * ppp
                vecs.append(frac @ hmatrix)
            vecs = np.array(vecs)
            dist = np.sqrt((vecs ** 2).sum(axis=1))
            four = np.argsort(dist, kind="stable")[:4]
            total = 0.0
            for a, b in combinations(four, 2):
                cospsi = float(vecs[a] @ vecs[b]) / (dist[a] * dist[b])
                total += (cospsi + 1.0 / 3.0) ** 2
            out[n, i] = 1.0 - 3.0 / 32.0 * total
    return out


def diamond(ncell, a):
    basis = np.array([[0, 0, 0], [0, .5, .5], [.5, 0, .5], [.5, .5, 0]])
    basis = np.vstack((basis, basis + 0.25))
    cells = np.array([[x, y, z] for x in range(ncell) for y in range(ncell) for z in range(ncell)])
    pos = (cells[:, None, :] + basis[None, :, :]).reshape(-1, 3) * a
    return pos


def main():
    dump = sys.argv[sys.argv.index("--dump") + 1] if "--dump" in sys.argv else None
    rng = np.random.default_rng(20240917)
    tmpdir = tempfile.mkdtemp()
    collected = {}
    try:
        cases = {}
        # 1. perfect tetrahedral coordination: q = 1 exactly (to rounding), particle order shuffled
        pos = diamond(2, 1.7)
        pos = pos[rng.permutation(pos.shape[0])] + 0.05  # shifted, unsorted ids
        cases["diamond"] = ([pos], np.eye(3) * 3.4, np.array([1, 1, 1]))
        # 2. random gas, orthogonal non-cubic box, three frames
        h = np.diag([6.0, 7.5, 5.0])
        cases["ortho"] = ([rng.random((40, 3)) @ h for _ in range(3)], h, np.array([1, 1, 1]))
        # 3. triclinic box with negative tilt factors
        h = np.array([[6.0, 0, 0], [-1.7, 5.5, 0], [0.9, -1.2, 6.5]])
        cases["triclinic"] = ([rng.random((33, 3)) @ h for _ in range(2)], h, np.array([1, 1, 1]))
        # 4. smallest admissible system, N = 5
        h = np.diag([4.0, 4.0, 4.0])
        cases["n5"] = ([rng.random((5, 3)) @ h], h, np.array([1, 1, 1]))
        # 5. not periodic along z
        h = np.diag([5.0, 5.0, 5.0])
        cases["slab"] = ([rng.random((25, 3)) @ h for _ in range(2)], h, np.array([1, 1, 0]))

        for name, (frames, h, ppp) in cases.items():
            snaps = make_snapshots(frames, h)
            outfile = os.path.join(tmpdir, name + ".npy")
            got = q8_tetrahedral(snaps, ppp=ppp, outputfile=outfile)
            ref = reference_q(frames, h, ppp)
            assert got.shape == (len(frames), len(frames[0])), name
            assert np.allclose(got, ref, rtol=1e-11, atol=1e-12), (name, np.abs(got - ref).max())
            assert np.array_equal(np.load(outfile), got), name
            collected[name] = got
        assert np.allclose(collected["diamond"], 1.0, rtol=0, atol=1e-12)
        assert not np.allclose(collected["ortho"], 1.0)
        # default arguments (ppp all periodic, no file written)
        frames, h, _ = cases["ortho"]
        assert np.array_equal(q8_tetrahedral(make_snapshots(frames, h)), collected["ortho"])
        if dump:
            with open(dump, "wb") as fout:
                pickle.dump(collected, fout)
    finally:
        shutil.rmtree(tmpdir, ignore_errors=True)
    print("q8-particle-generator demo: OK")
    return 0


if __name__ == "__main__":
    sys.exit(main())
