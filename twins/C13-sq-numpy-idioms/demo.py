import logging
import math
import shutil
import sys
import tempfile
import warnings

import numpy as np

logging.disable(logging.CRITICAL)

from PyMatterSim.reader.reader_utils import SingleSnapshot, Snapshots  # noqa: E402
from PyMatterSim.static.gr import conditional_gr, gr  # noqa: E402
from PyMatterSim.static.sq import conditional_sq, sq  # noqa: E402

RTOL = 1e-9
FAILS = []


def check(name, got, want, rtol=RTOL, atol=1e-9):
    got = np.asarray(got)
    want = np.asarray(want)
    ok = got.shape == want.shape and np.allclose(got, want, rtol=rtol, atol=atol, equal_nan=True)
    if not ok:
        err = np.nanmax(np.abs(got - want)) if got.shape == want.shape else "shape %s vs %s" % (got.shape, want.shape)
        FAILS.append(name)
        print("FAIL", name, err)
    else:
        print("ok  ", name)


def make_snapshot(rng, n, ndim, triclinic=False, negtilt=False):
    """random configuration in an orthogonal or triclinic (lower-triangular h-matrix) cell"""
    L = rng.uniform(4.0, 6.0, size=ndim)
    h = np.diag(L)
    if triclinic:
        sgn = -1.0 if negtilt else 1.0
        h[1, 0] = sgn * 0.35 * L[0]
        if ndim == 3:
            h[2, 0] = -sgn * 0.2 * L[0]
            h[2, 1] = sgn * 0.25 * L[1]
    pos = rng.uniform(0, 1, size=(n, ndim)) @ h
    bounds = np.c_[np.zeros(ndim), L]
    ptype = np.array([1, 2] * n)[:n]
    ptype[rng.permutation(n)[: n // 3]] = 2
    return SingleSnapshot(timestep=0, nparticle=n, particle_type=ptype, positions=pos,
                          boxlength=L, boxbounds=bounds, realbounds=bounds, hmatrix=h)


# ---------------------------------------------------------------- references
def pair_weight(A, kind):
    """W_ij = Re(A_i conj A_j); dot product for vectors, trace of the product for tensors"""
    A = np.asarray(A)
    if kind == "bool":
        a = A.astype(float)
        return np.outer(a, a)
    if kind == "scalar":
        return np.real(np.outer(A, np.conj(A)))
    if kind == "vector":
        return np.real(np.einsum("ia,ja->ij", A, np.conj(A)))
    if kind == "tensor":
        return np.real(np.einsum("iab,jba->ij", A, A))
    raise ValueError(kind)


def ref_gr(snap, A, kind, ppp, rdelta):
    """brute force O(N^2) weighted pair histogram with the documented normalisation"""
    n, ndim = snap.positions.shape
    V = float(np.prod(snap.boxlength))
    maxbin = int(snap.boxlength.min() / 2.0 / rdelta)
    edges = np.linspace(0.0, maxbin * rdelta, maxbin + 1)
    W = pair_weight(A, kind)
    cnt = np.zeros(maxbin)
    wsum = np.zeros(maxbin)
    hinv = np.linalg.inv(snap.hmatrix)
    for i in range(n):
        for j in range(i + 1, n):
            s = (snap.positions[j] - snap.positions[i]) @ hinv
            s = s - np.floor(s + 0.5) * np.asarray(ppp)
            d = math.sqrt(float(np.sum((s @ snap.hmatrix) ** 2)))
            k = int(np.searchsorted(edges, d, side="right")) - 1
            if d == edges[-1]:
                k = maxbin - 1
            if 0 <= k < maxbin:
                cnt[k] += 1.0
                wsum[k] += W[i, j]
    fac = {2: 1.0, 3: 4.0 / 3.0}[ndim]
    shell = fac * math.pi * (edges[1:] ** ndim - edges[:-1] ** ndim)
    nsel = float(np.sum(A)) if kind == "bool" else float(n)
    out = {
        "r": edges[1:] - 0.5 * rdelta,
        "gr": 2.0 * cnt / n / (shell * n / V),
        "gA": 2.0 * wsum / nsel / (shell * nsel / V),
    }
    if kind == "scalar" and not np.iscomplexobj(A):
        m1 = float(np.mean(A)) ** 2
        m2 = float(np.mean(np.asarray(A, dtype=float) ** 2))
        with np.errstate(all="ignore"):
            out["gA_norm"] = (out["gA"] - m1) / (m2 - m1)
    return out


def ref_sq(snap, qint, A, kind):
    """|sum_i A_i exp(-i q.r_i)|^2 / N and the Fourier amplitudes themselves"""
    q = qint.astype(float) * (2.0 * math.pi / snap.boxlength)[None, :]
    phase = np.exp(-1j * (q @ snap.positions.T))  # (nq, N)
    if kind == "bool":
        amp = phase[:, A].sum(axis=1) / math.sqrt(int(A.sum()))
        S = np.abs(amp) ** 2
    elif kind == "scalar":
        amp = (phase * np.asarray(A)[None, :]).sum(axis=1) / math.sqrt(snap.nparticle)
        S = np.abs(amp) ** 2
    else:
        amp = phase @ np.asarray(A) / math.sqrt(snap.nparticle)  # (nq, ncomp)
        S = (np.abs(amp) ** 2).sum(axis=1)
    return q, np.sqrt((q ** 2).sum(axis=1)), amp, S


def ref_average(qnorm, S):
    """mean of S (rounded to 8 decimals like the library output) over equal rounded |q|"""
    qr = np.round(qnorm, 8)
    Sr = np.round(S, 8)
    uq = np.unique(qr)
    return uq, np.array([Sr[qr == u].mean() for u in uq])


def check_gr(tag, snap, A, kind, ppp, rdelta, conditiontype=None):
    with warnings.catch_warnings():
        warnings.simplefilter("ignore")
        df = conditional_gr(snap, np.asarray(A), conditiontype, ppp, rdelta)
    ref = ref_gr(snap, A, kind, ppp, rdelta)
    cols = ["r", "gr", "gA"] + (["gA_norm"] if "gA_norm" in ref else [])
    assert list(df.columns) == cols, (tag, list(df.columns), cols)
    for c in cols:
        check(f"{tag}:{c}", df[c].values, ref[c])
    return df


def check_sq(tag, snap, qint, A, kind):
    full, ave = conditional_sq(snap, qint, np.asarray(A))
    q, qn, amp, S = ref_sq(snap, qint, A, kind)
    ndim = q.shape[1]
    check(f"{tag}:qvec", full[[f"q{i}" for i in range(ndim)]].values, q, atol=2e-8)
    check(f"{tag}:q", full["q"].values, qn, atol=2e-8)
    check(f"{tag}:Sq", full["Sq"].values, S, atol=2e-8)
    if kind == "vector":
        cols = [f"FFT{i}" for i in range(amp.shape[1])]
        check(f"{tag}:FFT", full[cols].values, amp, atol=2e-8)
    else:
        check(f"{tag}:FFT", full["FFT"].values, amp, atol=2e-8)
    uq, Sm = ref_average(qn, S)
    check(f"{tag}:ave-q", ave["q"].values, uq, atol=2e-8)
    check(f"{tag}:ave-Sq", ave["Sq"].values, Sm, atol=3e-8)
    return full, ave


def finish(tmpdir):
    shutil.rmtree(tmpdir, ignore_errors=True)
    if FAILS:
        print("FAILED:", FAILS)
        sys.exit(1)
    print("all checks passed")
    sys.exit(0)


# ---------------------------------------------------------------- demo proper
# exercises: |q| column, selected / scalar / vector Fourier sums of conditional_sq
# and the per-|q| average
def main():
    from PyMatterSim.utils.wavevector import choosewavevector
    tmpdir = tempfile.mkdtemp()
    rng = np.random.default_rng(11)
    for ndim in (2, 3):
        for n in (1, 2, 37):
            snap = make_snapshot(rng, n, ndim)          # unequal box lengths
            for nq, onlypos in ((4, False), (6, True)):
                qint = choosewavevector(ndim, nq, onlypos)
                tag = f"{ndim}D-n{n}-nq{nq}{'p' if onlypos else ''}"
                sel = snap.particle_type == 2
                if sel.sum() == 0:
                    sel = np.ones(n, dtype=bool)
                f_sel, a_sel = check_sq(f"{tag}/bool", snap, qint, sel, "bool")
                # all particles selected == A = 1 == total S(q)
                f_all, _ = check_sq(f"{tag}/boolall", snap, qint, np.ones(n, dtype=bool), "bool")
                f_one, _ = check_sq(f"{tag}/ones", snap, qint, np.ones(n), "scalar")
                check(f"{tag}/ones==all", f_one["Sq"].values, f_all["Sq"].values)
                # float, integer and complex scalar fields
                check_sq(f"{tag}/float", snap, qint, rng.normal(size=n), "scalar")
                check_sq(f"{tag}/int", snap, qint, rng.integers(-3, 4, size=n), "scalar")
                check_sq(f"{tag}/complex", snap, qint, rng.normal(size=n) + 1j * rng.normal(size=n), "scalar")
                # vector field == sum over its components
                v = rng.normal(size=(n, ndim))
                f_vec, _ = check_sq(f"{tag}/vector", snap, qint, v, "vector")
                comp = sum(conditional_sq(snap, qint, np.ascontiguousarray(v[:, k]))[0]["Sq"].values for k in range(ndim))
                check(f"{tag}/vector==sum of components", f_vec["Sq"].values, comp, atol=5e-8)
                for k in range(ndim):
                    fk = conditional_sq(snap, qint, np.ascontiguousarray(v[:, k]))[0]["FFT"].values
                    check(f"{tag}/FFT{k}", f_vec[f"FFT{k}"].values, fk, atol=2e-8)
                # complex vector field
                check_sq(f"{tag}/cvector", snap, qint, v + 1j * rng.normal(size=(n, ndim)), "vector")
                # the selection of species 2 reproduces the partial S_22 of the sq class
                if n == 37:
                    res = sq(Snapshots(nsnapshots=1, snapshots=[snap]), qvector=qint,
                             outputfile=f"{tmpdir}/sq.csv").getresults()
                    check(f"{tag}/bool==Sq22", a_sel["Sq"].values, res["Sq22"].values, atol=2e-6)
                    check(f"{tag}/q of sq class", a_sel["q"].values, res["q"].values, atol=2e-6)
    # a hand-made, unsorted wave-vector list with repeated and zero vectors
    snap = make_snapshot(rng, 23, 3)
    qint = np.array([[2, 0, 0], [0, 0, 0], [0, -2, 0], [1, 1, 0], [-2, 0, 0], [2, 0, 0], [0, 1, -1], [3, 4, 0]])
    check_sq("handmade/float", snap, qint, rng.normal(size=23), "scalar")
    check_sq("handmade/bool", snap, qint, rng.uniform(size=23) < 0.4, "bool")
    check_sq("handmade/vector", snap, qint, rng.normal(size=(23, 3)), "vector")
    # an empty selection is still an error (division by sqrt(0))
    try:
        conditional_sq(snap, qint, np.zeros(23, dtype=bool))
        FAILS.append("no ZeroDivisionError")
    except ZeroDivisionError:
        print("ok   ZeroDivisionError for empty selection")
    finish(tmpdir)


if __name__ == "__main__":
    main()
