"""
Demo for the loop restructuring in HessianMatrix.diagonalize_hessian
(0-based type indices precomputed once before the particle loop; the inner
`for j ... if (j != i) & (distance[j] <= r_cut)` replaced by a vectorised
neighbour pre-selection followed by a loop over the selected j only).

diagonalize_hessian is run on small synthetic configurations (2D / 3D,
orthogonal / triclinic with negative tilt, a non-periodic direction, binary and
single-type systems with unequal masses, LJ / IPL / Hertz through
PairInteractions.caller, shift on / off, integer-valued cutoff table, particle
types stored as floats, position / type arrays holding more rows than
`nparticle`, an isolated particle without any neighbour). The saved Hessian is
compared with a brute-force reference written here (derivatives expanded by
hand from the documented potentials), the frequencies with the eigenvalues of
that reference. pair_matrix is checked directly as well.

Run: PYTHONPATH=<worktree> /venv/bin/python demo.py     (exit code 0 = OK)
"""
import logging
import os
import shutil
import sys
import tempfile
import warnings

import numpy as np
import pandas as pd

from PyMatterSim.reader.reader_utils import SingleSnapshot
from PyMatterSim.static.hessians import (HessianMatrix, InteractionParams,
                                         ModelName)

logging.disable(logging.CRITICAL)
warnings.simplefilter("ignore")      # sqrt of negative eigenvalues inside np.where
failures = []


# ---------------------------------------------------------------- references
def ref_derivs(model, r, eps, sig, rc, shift):
    """[s1, s1rc, s2] from the documented potentials, expanded by hand"""
    name = model.model_name
    if name == ModelName.lennard_jones:
        def d1(x):
            return 4 * eps * (-12 * sig**12 / x**13 + 6 * sig**6 / x**7)
        s2 = 4 * eps * (156 * sig**12 / r**14 - 42 * sig**6 / r**8)
        return d1(r), (d1(rc) if shift else 0.0), s2
    if name == ModelName.inverse_power_law:
        n, A = model.ipl_n, model.ipl_A

        def d1(x):
            return -n * A * eps * sig**n / x**(n + 1)
        s2 = n * (n + 1) * A * eps * sig**n / r**(n + 2)
        return d1(r), (d1(rc) if shift else 0.0), s2
    alpha = model.harmonic_hertz_alpha
    u = (sig - r) / sig
    return (-eps * u**(alpha - 1) / sig, 0.0,
            eps * (alpha - 1) * u**(alpha - 2) / sig**2)


def ref_block(R, s1, s1rc, s2):
    r = np.sqrt(sum(c * c for c in R))
    n = np.asarray(R) / r
    nn = n[:, None] * n[None, :]
    return s2 * nn + (s1 - s1rc) / r * (np.eye(len(R)) - nn)


def ref_hessian(pos, types, h, ppp, masses, eps, sig, rcut, model, shift):
    N, d = pos.shape
    H = np.zeros((N * d, N * d))
    hinv = np.linalg.inv(h)
    for i in range(N):
        for j in range(N):
            if i == j:
                continue
            frac = (pos[i] - pos[j]) @ hinv
            frac = frac - np.rint(frac) * np.asarray(ppp)
            R = frac @ h
            r = float(np.sqrt((R * R).sum()))
            ti, tj = types[i] - 1, types[j] - 1
            if r > rcut[ti, tj]:
                continue
            s1, s1rc, s2 = ref_derivs(model, r, eps[ti, tj], sig[ti, tj], rcut[ti, tj], shift)
            B = ref_block(R, s1, s1rc, s2)
            H[i * d:(i + 1) * d, i * d:(i + 1) * d] += B / masses[ti + 1]
            H[i * d:(i + 1) * d, j * d:(j + 1) * d] = -B / np.sqrt(masses[ti + 1] * masses[tj + 1])
    return H


def close(a, b, rtol=1e-9):
    a, b = np.asarray(a, float), np.asarray(b, float)
    return a.shape == b.shape and np.abs(a - b).max() <= rtol * max(1.0, np.abs(b).max())


# ------------------------------------------------------------ 1. pair_matrix
rng = np.random.default_rng(7)
dummy = SingleSnapshot(0, 0, np.zeros(0, int), np.zeros((0, 2)), None, None, None, None)
for ndim in (2, 3):
    hm = HessianMatrix(dummy, {1: 1.0}, np.ones((1, 1)), np.ones((1, 1)),
                       np.ones((1, 1)), ppp=np.array([1] * ndim))
    vectors = [rng.normal(size=ndim) for _ in range(20)]
    vectors += [np.eye(ndim)[k] * 1.3 for k in range(ndim)]       # along an axis
    vectors += [-np.ones(ndim) * 0.4, np.array([0.7, -1e-6, 0.0][:ndim])]
    for R in vectors:
        for dudrs in ([-3.1, 0.2, 40.0], [0.9, 0, -2.0], [0.0, 0.0, 1.0],
                      [np.float64(-1.5), 0, np.float64(7.0)]):
            bi, bj = hm.pair_matrix(R, dudrs)
            ref = ref_block(R, *dudrs)
            if not (bi.shape == (ndim, ndim) and close(bi, ref, 1e-10)):
                failures.append(f"pair_matrix block i, ndim={ndim}, R={R}, dudrs={dudrs}")
            if not (np.array_equal(bj, -bi) and np.array_equal(bi, bi.T)):
                failures.append(f"pair_matrix block j / symmetry, ndim={ndim}, R={R}")

# ----------------------------------------------------- 2. diagonalize_hessian
cells = {
    "2d-ortho": np.array([[6.0, 0.0], [0.0, 5.0]]),
    "2d-negative-tilt": np.array([[6.0, 0.0], [-1.7, 5.0]]),
    "3d-ortho": np.array([[4.4, 0, 0], [0, 4.0, 0], [0, 0, 3.8]]),
    "3d-triclinic": np.array([[4.6, 0, 0], [-1.1, 4.2, 0], [0.8, -0.9, 3.9]]),
}
sig2 = np.array([[1.0, 1.18], [1.18, 1.4]])
eps2 = np.array([[1.0, 1.5], [1.5, 0.5]])
runs = [
    ("2d-ortho", InteractionParams(ModelName.inverse_power_law, ipl_n=10, ipl_A=1.0), True, None, ""),
    ("2d-negative-tilt", InteractionParams(ModelName.lennard_jones), True, None, "extra-rows"),
    ("2d-negative-tilt", InteractionParams(ModelName.harmonic_hertz, harmonic_hertz_alpha=2.0), True, None, "float-types"),
    ("3d-ortho", InteractionParams(ModelName.lennard_jones), False, None, "int-cutoffs isolated"),
    ("3d-triclinic", InteractionParams(ModelName.inverse_power_law, ipl_n=7.5, ipl_A=2.5), False, None, "extra-rows float-types"),
    ("3d-triclinic", InteractionParams(ModelName.harmonic_hertz, harmonic_hertz_alpha=2.5), True, [1, 1, 0], ""),
    ("3d-ortho", InteractionParams(ModelName.inverse_power_law, ipl_n=12, ipl_A=0.7), True, [0, 1, 1], "single-type"),
]
tmpdir = tempfile.mkdtemp()
try:
    for k, (cell, model, shift, ppp, opts) in enumerate(runs):
        h = cells[cell]
        ndim = h.shape[0]
        N = 26 if ndim == 2 else 22
        nrows = N + (2 if "extra-rows" in opts else 0)   # arrays longer than nparticle
        ppp = np.array([1] * ndim if ppp is None else ppp)
        pos = rng.uniform(0, 1, (nrows, ndim)) @ h
        if "single-type" in opts:                         # 1x1 parameter tables
            types = np.ones(nrows, dtype=np.int32)
            masses, eps, sig = {1: 1.7}, np.array([[0.8]]), np.array([[1.1]])
        else:
            types = rng.integers(1, 3, nrows).astype(np.int32)
            masses, eps, sig = {1: 1.0, 2: 2.3}, eps2, sig2
        if "float-types" in opts:
            types = types.astype(np.float64)
        rcut = sig.copy() if model.model_name == ModelName.harmonic_hertz else 1.7 * sig
        if "int-cutoffs" in opts:
            rcut = np.array([[2, 2], [2, 3]])             # integer dtype table
        if "isolated" in opts:                            # non-periodic: put one particle far away
            ppp = np.array([0] * ndim)
            pos[3] = pos.max(axis=0) + 50.0
        L = np.diag(h).copy()
        snapshot = SingleSnapshot(
            timestep=0, nparticle=N, particle_type=types, positions=pos, boxlength=L,
            boxbounds=np.column_stack([np.zeros(ndim), L]), realbounds=None, hmatrix=h)
        # the reference only ever sees the first nparticle rows
        pos, types = pos[:N], types[:N].astype(int)
        out = os.path.join(tmpdir, f"run{k}")
        HessianMatrix(snapshot, masses, eps, sig, rcut, ppp, shiftpotential=shift).diagonalize_hessian(
            model, saveevecs=False, savehessian=True, outputfile=out)
        got = np.load(out + ".hessianmatrix.npy")
        ref = ref_hessian(pos, types, h, ppp, masses, eps, sig, rcut, model, shift)
        label = f"run {k}: {cell} {model.model_name.name} shift={shift} ppp={ppp} {opts}"
        if np.count_nonzero(ref) < 4 * ndim * ndim:
            failures.append(label + ": reference has no interacting pairs (bad demo input)")
        if "isolated" in opts and (np.any(got[3 * ndim:4 * ndim]) or np.any(got[:, 3 * ndim:4 * ndim])):
            failures.append(label + ": isolated particle has non-zero Hessian rows/columns")
        if got.shape != (N * ndim, N * ndim):
            failures.append(label + f": hessian shape {got.shape}")
        elif not close(got, ref):
            failures.append(label + f": hessian differs, max abs err {np.abs(got - ref).max():.3e}")
        table = pd.read_csv(out + ".omega_PR.csv")
        ev = np.linalg.eigvalsh(ref)
        # undo "omega = sqrt(lambda) if lambda > 0 else lambda" before comparing
        # (robust for the translational zero modes, lambda ~ +-1e-14)
        om = table["omega"].values
        lam = np.where(om > 0, om * om, om)
        if not (len(table) == N * ndim and list(table.columns) == ["omega", "PR"]):
            failures.append(label + ": csv layout")
        elif not np.allclose(lam, ev, rtol=1e-8, atol=1e-9 * np.abs(ev).max()):
            failures.append(label + ": frequencies differ")
        elif not ((table["PR"].values > 0).all() and (table["PR"].values <= 1 + 1e-12).all()):
            failures.append(label + ": PR out of (0, 1]")
        if os.path.exists(out + ".evecs.npy"):
            failures.append(label + ": evecs written although saveevecs=False")
finally:
    shutil.rmtree(tmpdir)

if failures:
    print(f"{len(failures)} FAILURES")
    for f in failures[:20]:
        print("  ", f)
    sys.exit(1)
print(f"OK: pair_matrix (2D/3D) and {len(runs)} Hessians agree with the brute-force reference")
sys.exit(0)
