"""
Demo for the spherical-harmonics tables of PyMatterSim (property C08).

Run as:  PYTHONPATH=<worktree> /venv/bin/python demo.py

The library functions SphHarm1..SphHarm10, SphHarm_above and sph_harm_l are
compared with an independent reference written here:

    Y_lm(theta, phi) = sqrt((2l+1)/(4 pi) (l-m)!/(l+m)!) P_l^m(cos theta) e^{i m phi}

for m >= 0 (scipy.special.lpmv contains the Condon-Shortley phase) and
Y_l,-m = (-1)^m conj(Y_lm), with theta the polar and phi the azimuthal angle.
The demo exits 0 when every comparison holds.
"""

import math
import sys
import warnings

import numpy as np
from scipy.special import lpmv

from PyMatterSim.utils import spherical_harmonics as sh

TOL = 1e-10


def reference(l, theta, phi):
    """orthonormal Condon-Shortley Y_lm, m = -l..l, theta polar, phi azimuth"""
    out = np.zeros(2 * l + 1, dtype=np.complex128)
    x = math.cos(theta)
    for m in range(0, l + 1):
        norm = math.sqrt((2 * l + 1) / (4 * math.pi) * math.factorial(l - m) / math.factorial(l + m))
        value = norm * float(lpmv(m, l, x)) * complex(math.cos(m * phi), math.sin(m * phi))
        out[l + m] = value
        out[l - m] = (-1) ** m * value.conjugate()
    return out


def angle_samples():
    """edge angles plus random ones; phi in (-pi, pi], theta in [0, pi]"""
    rng = np.random.default_rng(20240508)
    thetas = [0.0, math.pi, math.pi / 2, 1e-3, math.pi - 1e-3, math.pi / 3]
    phis = [0.0, math.pi, -math.pi + 1e-12, -1e-300, -0.5, math.pi / 6]
    pairs = [(t, p) for t in thetas for p in phis]
    pairs += [(float(t), float(p)) for t, p in zip(rng.uniform(0, math.pi, 40), rng.uniform(-math.pi, math.pi, 40))]
    return pairs


def check(name, got, expected):
    got = np.asarray(got)
    if got.shape != expected.shape:
        print(f"FAIL {name}: shape {got.shape} != {expected.shape}")
        return 1
    if got.dtype != np.complex128:
        print(f"FAIL {name}: dtype {got.dtype}")
        return 1
    err = np.abs(got - expected).max()
    if not err < TOL:
        print(f"FAIL {name}: max abs error {err:.3e}")
        return 1
    return 0


def main():
    failures = 0
    tables = {
        1: sh.SphHarm1, 2: sh.SphHarm2, 3: sh.SphHarm3, 4: sh.SphHarm4, 5: sh.SphHarm5,
        6: sh.SphHarm6, 7: sh.SphHarm7, 8: sh.SphHarm8, 9: sh.SphHarm9, 10: sh.SphHarm10,
    }
    pairs = angle_samples()
    for theta, phi in pairs:
        # inputs as python floats and as numpy scalars (what boo.py passes)
        for conv in (float, np.float64):
            t, p = conv(theta), conv(phi)
            for l in range(1, 11):
                ref = reference(l, theta, phi)
                failures += check(f"SphHarm{l}({theta},{phi})", tables[l](t, p), ref)
                failures += check(f"sph_harm_l({l},{theta},{phi})", sh.sph_harm_l(l, t, p), ref)
                # numpy integer degree, as obtained from an array of degrees
                failures += check(f"sph_harm_l(np.int64({l}))", sh.sph_harm_l(np.int64(l), t, p), ref)
            for l in (11, 12, 15, 20):
                ref = reference(l, theta, phi)
                failures += check(f"SphHarm_above({l},{theta},{phi})", sh.SphHarm_above(l, t, p), ref)
                failures += check(f"sph_harm_l({l},{theta},{phi})", sh.sph_harm_l(l, t, p), ref)
                # identities named by the property
                got = sh.sph_harm_l(l, t, p)
                if abs((np.abs(got) ** 2).sum() - (2 * l + 1) / (4 * math.pi)) > TOL:
                    print(f"FAIL addition theorem l={l}")
                    failures += 1
                signs = (-1.0) ** np.arange(-l, l + 1)
                if np.abs(got[::-1] - signs * np.conj(got)).max() > TOL:
                    print(f"FAIL conjugation symmetry l={l}")
                    failures += 1

    # addition theorem and symmetry for the tables
    for theta, phi in pairs[:20]:
        for l in range(1, 11):
            got = sh.sph_harm_l(l, theta, phi)
            if abs((np.abs(got) ** 2).sum() - (2 * l + 1) / (4 * math.pi)) > TOL:
                print(f"FAIL addition theorem l={l}")
                failures += 1
            signs = (-1.0) ** np.arange(-l, l + 1)
            if np.abs(got[::-1] - signs * np.conj(got)).max() > TOL:
                print(f"FAIL conjugation symmetry l={l}")
                failures += 1

    # the dispatcher has no table for l < 1: it returns None
    for l in (0, -1, -11):
        if sh.sph_harm_l(l, 0.3, 0.4) is not None:
            print(f"FAIL sph_harm_l({l}) should be None")
            failures += 1

    failures += extra_checks()

    if failures:
        print(f"{failures} FAILURES")
        return 1
    print("all spherical-harmonics checks passed")
    return 0


def extra_checks():
    """checks specific to this refactoring: the l = 10 table next to the poles"""
    failures = 0
    # angles at which sin(theta) ** k underflows or is denormal: the values
    # must be the polar limit, Y_10,m = 0 for m != 0 and Y_10,0 = +-sqrt(21/4pi)
    pole = np.zeros(21, dtype=np.complex128)
    pole[10] = math.sqrt(21 / (4 * math.pi))
    with warnings.catch_warnings():
        warnings.simplefilter("error")  # default error state: no numpy warning expected
        for theta in (0.0, 1e-40, 1e-200, 5e-324, 1e-31):
            for phi in (0.0, -2.0, math.pi):
                for func in (sh.SphHarm10, lambda t, p: sh.sph_harm_l(10, t, p)):
                    got = func(theta, phi)
                    failures += check(f"SphHarm10 pole theta={theta}", got, pole)
                    if not np.all(np.isfinite(got.view(np.float64))):
                        print("FAIL non-finite value at the pole")
                        failures += 1
    # the caller's error state is the same after the call
    before = np.geterr()
    sh.SphHarm10(1e-200, 0.3)
    if np.geterr() != before:
        print("FAIL numpy error state leaked")
        failures += 1
    # and a non-default state of the caller is restored as well
    with np.errstate(under="warn", over="raise"):
        inside = np.geterr()
        with warnings.catch_warnings():
            warnings.simplefilter("ignore")
            got = sh.SphHarm10(1e-200, 0.3)
        failures += check("SphHarm10 under=warn", got, pole)
        if np.geterr() != inside:
            print("FAIL numpy error state not restored")
            failures += 1
    # dense scan in theta for l = 10 against the reference
    for theta in np.linspace(0.0, math.pi, 181):
        for phi in (-3.0, -0.1, 0.0, 2.5):
            failures += check(f"SphHarm10 scan {theta}", sh.SphHarm10(float(theta), phi), reference(10, float(theta), phi))
    return failures


if __name__ == "__main__":
    sys.exit(main())
