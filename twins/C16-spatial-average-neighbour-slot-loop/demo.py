# coding = utf-8
"""
Standalone demo for the coarse-graining routines of PyMatterSim
(utils/coarse_graining.py and utils/funcs.py:grid_gaussian).

Run as:  PYTHONPATH=<worktree> /venv/bin/python demo.py

Every check compares the value returned by a public library function with an
independent reference written in this file (plain loops / brute force over
periodic images).  The script exits 0 when everything agrees and 1 otherwise.
The sections executed are listed in SECTIONS.
"""

import itertools
import logging
import math
import os
import shutil
import sys
import tempfile
import warnings

import numpy as np

from PyMatterSim.reader.reader_utils import SingleSnapshot, Snapshots
from PyMatterSim.utils.coarse_graining import (gaussian_blurring,
                                               spatial_average, time_average)
from PyMatterSim.utils.funcs import grid_gaussian

SECTIONS = ("spatial_average",)

logging.disable(logging.INFO)  # keep the library's progress messages out of the output

RTOL = 1e-10
ATOL = 1e-13
FAILURES = []


def check(name, got, expected, exact=False):
    """record one comparison"""
    got = np.asarray(got)
    expected = np.asarray(expected)
    if got.shape != expected.shape:
        FAILURES.append(f"{name}: shape {got.shape} != {expected.shape}")
        print(f"FAIL {name}: shape {got.shape} != {expected.shape}")
        return
    if exact:
        good = np.array_equal(got, expected)
    else:
        good = np.allclose(got, expected, rtol=RTOL, atol=ATOL, equal_nan=True)
    if good:
        print(f"ok   {name}")
    else:
        FAILURES.append(name)
        print(f"FAIL {name}: max abs deviation "
              f"{np.nanmax(np.abs(got - expected)) if got.size else 0}")


# ---------------------------------------------------------------------------
# synthetic trajectories
# ---------------------------------------------------------------------------
def make_snapshots(rng, ndim, nframes, nparticle, lengths, tilts=None,
                   origin=None, timesteps=None, breathing=0.0):
    """
    Build a Snapshots object.  lengths = (lx, ly[, lz]);
    tilts = (xy,) in 2D or (xy, xz, yz) in 3D (LAMMPS convention,
    the rows of hmatrix are the cell vectors); origin = lower box corner.
    breathing changes the box size from frame to frame.
    """
    if origin is None:
        origin = np.zeros(ndim)
    origin = np.asarray(origin, dtype=float)
    if timesteps is None:
        timesteps = [1000 * n for n in range(nframes)]
    frames = []
    for n in range(nframes):
        scale = 1.0 + breathing * n
        box = np.asarray(lengths, dtype=float) * scale
        hmatrix = np.diag(box)
        if tilts is not None:
            if ndim == 2:
                hmatrix[1, 0] = tilts[0] * scale
            else:
                hmatrix[1, 0] = tilts[0] * scale
                hmatrix[2, 0] = tilts[1] * scale
                hmatrix[2, 1] = tilts[2] * scale
        fractional = rng.random((nparticle, ndim))
        positions = fractional @ hmatrix + origin[np.newaxis, :]
        boxbounds = np.column_stack((origin, origin + box))
        frames.append(
            SingleSnapshot(
                timestep=timesteps[n],
                nparticle=nparticle,
                particle_type=np.ones(nparticle, dtype=np.int32),
                positions=positions,
                boxlength=box,
                boxbounds=boxbounds,
                realbounds=boxbounds,
                hmatrix=hmatrix,
            )
        )
    return Snapshots(nsnapshots=nframes, snapshots=frames)


# ---------------------------------------------------------------------------
# time_average
# ---------------------------------------------------------------------------
def reference_time_average(timesteps, values, time_period, dt):
    """plain-loop reference: window of floor(period/interval) frames"""
    interval = (timesteps[1] - timesteps[0]) * dt
    window = int(math.floor(time_period / interval))
    nout = len(values) - window
    out = np.zeros((nout,) + values.shape[1:], dtype=np.complex128)
    middle = []
    for n in range(nout):
        acc = np.zeros(values.shape[1:], dtype=np.complex128)
        for m in range(n, n + window):
            acc = acc + values[m]
        out[n] = acc / window
        middle.append(n + window // 2)
    return out, np.array(middle)


def section_time_average(rng):
    nframes, nparticle = 11, 7
    # interval 1000 steps * 0.002 = 2.0 time units
    snaps = make_snapshots(rng, 2, nframes, nparticle, (6.0, 5.0))
    steps = [s.timestep for s in snaps.snapshots]
    real_prop = rng.normal(size=(nframes, nparticle))
    cplx_prop = real_prop + 1j * rng.normal(size=(nframes, nparticle))
    # exact multiples (4.0 -> 2, 6.0 -> 3 odd, 8.0 -> 4), fractional (5.0 -> 2,
    # 7.9 -> 3), one frame (2.0 -> 1) and the full trajectory but one (20.0 -> 10)
    for period in (2.0, 4.0, 5.0, 6.0, 7.9, 8.0, 20.0):
        for label, prop in (("real", real_prop), ("complex", cplx_prop)):
            got, mid = time_average(snaps, prop, time_period=period, dt=0.002)
            exp, exp_mid = reference_time_average(steps, prop, period, 0.002)
            check(f"time_average {label} period={period} values", got, exp)
            check(f"time_average {label} period={period} middle ids", mid, exp_mid, exact=True)
            if got.dtype != np.complex128:
                FAILURES.append(f"time_average dtype {got.dtype}")
    # non-default dt and non-uniform first interval definition:
    # interval = 500 steps * 0.01 = 5.0
    snaps2 = make_snapshots(rng, 3, 6, 4, (4.0, 4.0, 4.0),
                            timesteps=[500 * n + 250 for n in range(6)])
    steps2 = [s.timestep for s in snaps2.snapshots]
    prop2 = rng.normal(size=(6, 4))
    for period in (10.0, 15.0, 12.5):
        got, mid = time_average(snaps2, prop2, time_period=period, dt=0.01)
        exp, exp_mid = reference_time_average(steps2, prop2, period, 0.01)
        check(f"time_average dt=0.01 period={period} values", got, exp)
        check(f"time_average dt=0.01 period={period} middle ids", mid, exp_mid, exact=True)
    # numpy integer time steps as produced by some readers
    frames = [
        SingleSnapshot(np.int64(s.timestep), s.nparticle, s.particle_type, s.positions,
                       s.boxlength, s.boxbounds, s.realbounds, s.hmatrix)
        for s in snaps2.snapshots
    ]
    got, mid = time_average(Snapshots(6, frames), prop2, time_period=10.0, dt=0.01)
    exp, exp_mid = reference_time_average(steps2, prop2, 10.0, 0.01)
    check("time_average numpy-int timesteps values", got, exp)
    check("time_average numpy-int timesteps middle ids", mid, exp_mid, exact=True)
    # default time_period = 0.0: empty windows -> all-nan array of full length
    with warnings.catch_warnings():
        warnings.simplefilter("ignore")
        got, mid = time_average(snaps2, prop2)
    if got.shape != (6, 4) or not np.isnan(got).all():
        FAILURES.append("time_average default period")
        print("FAIL time_average default period")
    else:
        print("ok   time_average default period (all nan, full length)")
    check("time_average default period middle ids", mid, np.arange(6), exact=True)


# ---------------------------------------------------------------------------
# grid_gaussian
# ---------------------------------------------------------------------------
def section_grid_gaussian(rng):
    distances = np.concatenate((np.array([0.0, 1e-8, 1.0, 5.999]), rng.random(20) * 7.0,
                                -rng.random(5) * 3.0))
    for sigma in (1, 2, 0.37, 2.0, 5.5):
        exp = np.array([
            math.exp(-d * d / (2.0 * sigma * sigma)) / math.sqrt(2.0 * math.pi * sigma * sigma)
            for d in distances
        ])
        check(f"grid_gaussian sigma={sigma}", grid_gaussian(distances, sigma), exp)
    exp = np.array([math.exp(-d * d / 2.0) / math.sqrt(2.0 * math.pi) for d in distances])
    check("grid_gaussian default sigma", grid_gaussian(distances), exp)
    check("grid_gaussian empty", grid_gaussian(np.array([]), 2.0), np.array([]))
    mat = rng.random((3, 4))
    exp = np.exp(-mat * mat / 8.0) / np.sqrt(8.0 * np.pi)
    check("grid_gaussian 2d input", grid_gaussian(mat, 2.0), exp)


# ---------------------------------------------------------------------------
# spatial_average
# ---------------------------------------------------------------------------
def write_neighbor_file(path, frames, rng, shuffle=True):
    """frames: list (one per snapshot) of list (one per particle) of 0-based neighbour ids"""
    with open(path, "w", encoding="utf-8") as fout:
        for neighbors in frames:
            fout.write("id     cn     neighborlist\n")
            order = np.arange(len(neighbors))
            if shuffle:
                order = rng.permutation(len(neighbors))
            for i in order:
                fout.write("%d %d " % (i + 1, len(neighbors[i])))
                fout.write(" ".join(str(j + 1) for j in neighbors[i]))
                fout.write("\n")


def random_neighbors(rng, nframes, nparticle, max_cn, allow_duplicates=False):
    frames = []
    for _ in range(nframes):
        neighbors = []
        for i in range(nparticle):
            cn = int(rng.integers(0, max_cn + 1))
            others = [j for j in range(nparticle) if j != i]
            if allow_duplicates:
                chosen = list(rng.choice(others, size=cn, replace=True))
            else:
                chosen = list(rng.choice(others, size=min(cn, len(others)), replace=False))
            neighbors.append([int(j) for j in chosen])
        frames.append(neighbors)
    return frames


def reference_spatial_average(prop, frames, nmax):
    out = np.zeros(prop.shape, dtype=prop.dtype)
    for n, neighbors in enumerate(frames):
        for i, listed in enumerate(neighbors):
            listed = listed[:nmax]
            acc = np.array(prop[n, i], copy=True)
            for j in listed:
                acc = acc + prop[n, j]
            out[n, i] = acc / (1 + len(listed))
    return out


def section_spatial_average(rng, tmpdir):
    nframes, nparticle = 3, 13
    props = {
        "scalar": rng.normal(size=(nframes, nparticle)),
        "vector2": rng.normal(size=(nframes, nparticle, 2)),
        "vector3": rng.normal(size=(nframes, nparticle, 3)),
        "tensor": rng.normal(size=(nframes, nparticle, 3, 3)),
        "complex": rng.normal(size=(nframes, nparticle, 5)) + 1j * rng.normal(size=(nframes, nparticle, 5)),
    }
    # unequal coordination numbers (zero-padded table), cn = 0 entries, unsorted ids
    frames = random_neighbors(rng, nframes, nparticle, 6)
    frames[0][2] = []                      # isolated particle
    frames[1][0] = [12, 1, 5, 7, 3, 2, 9]  # the largest cn sits on the first particle
    path = os.path.join(tmpdir, "neighbors_unequal.dat")
    write_neighbor_file(path, frames, rng)
    for label, prop in props.items():
        before = prop.copy()
        got = spatial_average(prop, path)
        check(f"spatial_average unequal cn {label}", got, reference_spatial_average(prop, frames, 30))
        check(f"spatial_average leaves input untouched {label}", prop, before, exact=True)
    # Nmax smaller than some coordination numbers: only the first Nmax are used
    for nmax in (1, 3, 7):
        got = spatial_average(props["vector3"], path, Nmax=nmax)
        check(f"spatial_average Nmax={nmax}", got,
              reference_spatial_average(props["vector3"], frames, nmax))
    # equal coordination numbers (no padding), sorted ids, repeated neighbour ids
    frames_eq = []
    for _ in range(nframes):
        frames_eq.append([[int(j) for j in rng.choice([k for k in range(nparticle) if k != i], 4, replace=False)]
                          for i in range(nparticle)])
    path_eq = os.path.join(tmpdir, "neighbors_equal.dat")
    write_neighbor_file(path_eq, frames_eq, rng, shuffle=False)
    got = spatial_average(props["tensor"], path_eq)
    check("spatial_average equal cn tensor", got, reference_spatial_average(props["tensor"], frames_eq, 30))
    frames_dup = random_neighbors(rng, nframes, nparticle, 5, allow_duplicates=True)
    frames_dup[2][4] = [1, 1, 1]
    path_dup = os.path.join(tmpdir, "neighbors_dup.dat")
    write_neighbor_file(path_dup, frames_dup, rng)
    got = spatial_average(props["scalar"], path_dup)
    check("spatial_average repeated ids scalar", got, reference_spatial_average(props["scalar"], frames_dup, 30))
    # nobody has neighbours: result equals the input
    frames_none = [[[] for _ in range(nparticle)] for _ in range(nframes)]
    path_none = os.path.join(tmpdir, "neighbors_none.dat")
    write_neighbor_file(path_none, frames_none, rng)
    got = spatial_average(props["vector2"], path_none)
    check("spatial_average no neighbours", got, props["vector2"], exact=True)
    # fewer frames in the property than in the file, plus output file
    outfile = os.path.join(tmpdir, "cg.npy")
    got = spatial_average(props["scalar"][:2], path, outputfile=outfile)
    check("spatial_average first two frames", got, reference_spatial_average(props["scalar"][:2], frames[:2], 30))
    check("spatial_average saved file", np.load(outfile), got, exact=True)


# ---------------------------------------------------------------------------
# gaussian_blurring
# ---------------------------------------------------------------------------
def reference_blurring(snaps, condition, ngrids, sigma, ppp, cutoff):
    """brute force over periodic images, grid from meshgrid (x slowest)"""
    ndim = len(ngrids)
    ngrid = int(np.prod(ngrids))
    positions_out = np.zeros((snaps.nsnapshots, ngrid, ndim))
    values_out = np.zeros((condition.shape[0], ngrid) + condition.shape[2:])
    for n, snap in enumerate(snaps.snapshots):
        axes = [np.linspace(snap.boxbounds[d, 0], snap.boxbounds[d, 1], ngrids[d]) for d in range(ndim)]
        mesh = np.meshgrid(*axes, indexing="ij")
        grid = np.stack([m.ravel() for m in mesh], axis=1)
        positions_out[n] = grid
        ranges = [(-2, -1, 0, 1, 2) if ppp[d] else (0,) for d in range(ndim)]
        shifts = np.array([np.array(c) @ snap.hmatrix for c in itertools.product(*ranges)])
        for g in range(ngrid):
            total = np.zeros(condition.shape[2:])
            for p in range(snap.nparticle):
                delta = grid[g] - snap.positions[p]
                dist = np.sqrt(((delta[np.newaxis, :] + shifts) ** 2).sum(axis=1)).min()
                if dist < cutoff:
                    weight = math.exp(-dist * dist / (2 * sigma * sigma)) / math.sqrt(2 * math.pi * sigma * sigma)
                    total = total + weight * condition[n, p]
            values_out[n, g] = total
    return positions_out, values_out


def section_gaussian_blurring(rng, tmpdir):
    cases = [
        # label, ndim, lengths, tilts, origin, ngrids, sigma, ppp, cutoff, breathing
        ("2d rectangular 5x2", 2, (9.0, 7.0), None, (-1.5, 0.5), [5, 2], 1.3, np.array([1, 1]), 3.0, 0.02),
        ("2d square 4x4", 2, (8.0, 8.0), None, (0.0, 0.0), [4, 4], 2.0, np.array([1, 1]), 3.5, 0.0),
        ("2d triclinic +tilt 3x6", 2, (10.0, 9.0), (1.5,), (0.0, -2.0), [3, 6], 0.8, np.array([1, 1]), 3.0, 0.0),
        ("2d triclinic -tilt 6x3", 2, (10.0, 9.0), (-2.0,), (1.0, 1.0), [6, 3], 1.0, np.array([1, 1]), 3.2, 0.01),
        ("2d non-periodic y 3x4", 2, (8.0, 6.0), None, (0.0, 0.0), [3, 4], 1.1, np.array([1, 0]), 2.9, 0.0),
        ("2d single column 1x5", 2, (8.0, 6.0), None, (0.0, 0.0), [1, 5], 1.1, np.array([1, 1]), 2.5, 0.0),
        ("3d cubic 3x3x3", 3, (7.0, 7.0, 7.0), None, (0.0, 0.0, 0.0), [3, 3, 3], 1.2, np.array([1, 1, 1]), 3.0, 0.0),
        ("3d unequal 2x3x4", 3, (8.0, 7.0, 9.0), None, (-4.0, -3.5, -4.5), [2, 3, 4], 0.9, np.array([1, 1, 1]), 3.2, 0.03),
        ("3d triclinic mixed tilt 4x2x3", 3, (9.0, 8.0, 8.5), (1.0, -1.2, 0.7), (0.5, 0.0, -1.0), [4, 2, 3], 1.5,
         np.array([1, 1, 1]), 3.0, 0.0),
        ("3d slab non-periodic z 2x2x3", 3, (7.0, 7.5, 8.0), None, (0.0, 0.0, 0.0), [2, 2, 3], 1.0, np.array([1, 1, 0]), 3.1, 0.0),
        ("3d tiny cutoff (empty selections) 3x2x2", 3, (8.0, 8.0, 8.0), None, (0.0, 0.0, 0.0), [3, 2, 2], 0.5,
         np.array([1, 1, 1]), 0.4, 0.0),
    ]
    nframes, nparticle = 2, 17
    for label, ndim, lengths, tilts, origin, ngrids, sigma, ppp, cutoff, breathing in cases:
        snaps = make_snapshots(rng, ndim, nframes, nparticle, lengths, tilts, origin, breathing=breathing)
        conditions = {
            "scalar": rng.normal(size=(nframes, nparticle)),
            "vector": rng.normal(size=(nframes, nparticle, ndim)),
            "tensor": rng.normal(size=(nframes, nparticle, ndim, ndim)),
        }
        for rank, condition in conditions.items():
            got_pos, got_val = gaussian_blurring(snaps, condition, ngrids, sigma, ppp, cutoff)
            exp_pos, exp_val = reference_blurring(snaps, condition, ngrids, sigma, ppp, cutoff)
            check(f"gaussian_blurring {label} {rank} positions", got_pos, exp_pos)
            check(f"gaussian_blurring {label} {rank} values", got_val, exp_val)
    # a 0/1 mask as the property (float type), ngrids given as numpy array, defaults for
    # sigma / ppp / cutoff in a box large enough for the default cutoff of 6.0
    snaps = make_snapshots(rng, 3, 1, 25, (13.0, 14.0, 12.5))
    mask = (rng.random((1, 25)) > 0.5).astype(float)
    got_pos, got_val = gaussian_blurring(snaps, mask, np.array([2, 3, 2]))
    exp_pos, exp_val = reference_blurring(snaps, mask, [2, 3, 2], 2.0, np.array([1, 1, 1]), 6.0)
    check("gaussian_blurring defaults mask positions", got_pos, exp_pos)
    check("gaussian_blurring defaults mask values", got_val, exp_val)
    # 2D system with the default three-component ppp
    snaps = make_snapshots(rng, 2, 1, 25, (13.0, 14.0))
    scal = rng.normal(size=(1, 25))
    got_pos, got_val = gaussian_blurring(snaps, scal, [4, 3])
    exp_pos, exp_val = reference_blurring(snaps, scal, [4, 3], 2.0, np.array([1, 1]), 6.0)
    check("gaussian_blurring 2d default ppp positions", got_pos, exp_pos)
    check("gaussian_blurring 2d default ppp values", got_val, exp_val)
    # output files
    outfile = os.path.join(tmpdir, "blur")
    got_pos, got_val = gaussian_blurring(snaps, scal, [4, 3], outputfile=outfile)
    check("gaussian_blurring saved positions", np.load(outfile + "_positions.npy"), got_pos, exact=True)
    check("gaussian_blurring saved properties", np.load(outfile + "_properties.npy"), got_val, exact=True)
    # wrong rank must still be rejected
    try:
        gaussian_blurring(snaps, np.zeros(25), [4, 3])
    except ValueError:
        print("ok   gaussian_blurring rejects rank-1 condition")
    else:
        FAILURES.append("gaussian_blurring rank-1 condition accepted")


def main():
    rng = np.random.default_rng(20160916)
    tmpdir = tempfile.mkdtemp()
    try:
        if "time_average" in SECTIONS:
            section_time_average(rng)
        if "grid_gaussian" in SECTIONS:
            section_grid_gaussian(rng)
        if "spatial_average" in SECTIONS:
            section_spatial_average(rng, tmpdir)
        if "gaussian_blurring" in SECTIONS:
            section_gaussian_blurring(rng, tmpdir)
    finally:
        shutil.rmtree(tmpdir, ignore_errors=True)
    if FAILURES:
        print(f"{len(FAILURES)} check(s) FAILED")
        for name in FAILURES:
            print("  -", name)
        return 1
    print("all checks passed")
    return 0


if __name__ == "__main__":
    sys.exit(main())
