"""Demo for the writer refactoring (swap if/else arms, merge branches).

Checks write_dump_header / write_data_header against independently built
expected text (2D and 3D, negative bounds, addson None / names) and closes the
loop writer -> dump reader.
"""
import logging
import os
import shutil
import sys
import tempfile

import numpy as np

from PyMatterSim.reader.lammps_reader_helper import read_lammps_wrapper
from PyMatterSim.writer.lammps_writer import write_data_header, write_dump_header


def expected_dump_header(timestep, n, bounds, addson):
    lines = ["ITEM: TIMESTEP", str(timestep), "ITEM: NUMBER OF ATOMS", str(n),
             "ITEM: BOX BOUNDS pp pp pp"]
    for lo, hi in bounds:
        lines.append("%.6f %.6f" % (lo, hi))
    if len(bounds) == 3:
        lines.append("ITEM: ATOMS id type x y z %s" % (addson,))
    else:
        lines.append("%.6f %.6f" % (-0.5, 0.5))
        lines.append("ITEM: ATOMS id type x y %s" % (addson,))
    return "\n".join(lines) + "\n"


def expected_data_header(n, ntype, bounds):
    out = "LAMMPS data file\n\n%d atoms\n%d atom types\n\n" % (n, ntype)
    for name, (lo, hi) in zip("xyz", bounds):
        out += "%.6f %.6f %slo %shi\n" % (lo, hi, name, name)
    if len(bounds) != 3:
        out += "-0.5 0.5 zlo zhi\n"
    return out + "\nAtoms #atomic\n\n"


def main():
    logging.disable(logging.CRITICAL)
    rng = np.random.default_rng(19)
    tmp = tempfile.mkdtemp()
    try:
        for ndim in (2, 3):
            for trial in range(4):
                lo = rng.uniform(-20, 5, ndim)
                hi = lo + rng.uniform(1, 30, ndim)
                bounds = np.column_stack((lo, hi))
                n = int(rng.integers(1, 9))
                timestep = int(rng.integers(0, 10**7))
                for addson in (None, "", "order Q6"):
                    for b in (bounds, bounds.tolist()):
                        got = write_dump_header(timestep, n, b, addson)
                        assert got == expected_dump_header(timestep, n, bounds, addson), got
                        if addson is None:
                            assert write_dump_header(timestep, n, b) == got
                        got = write_data_header(n, ndim + trial, b)
                        assert got == expected_data_header(n, ndim + trial, bounds), got

                # writer -> reader loop (N+1 particles with unsorted ids)
                ids = rng.permutation(n) + 1
                types = rng.integers(1, 4, n)
                pos = lo + rng.uniform(0, 1, (n, ndim)) * (hi - lo)
                fname = os.path.join(tmp, "d%d_%d.atom" % (ndim, trial))
                with open(fname, "w", encoding="utf-8") as f:
                    for step in (timestep, timestep + 7):
                        f.write(write_dump_header(step, n, bounds, "").rstrip(" \n") + "\n")
                        for k in range(n):
                            f.write("%d %d %s\n" % (ids[k], types[k], " ".join("%.6f" % x for x in pos[k])))
                snaps = read_lammps_wrapper(fname, ndim)
                assert snaps.nsnapshots == 2
                for step, snap in zip((timestep, timestep + 7), snaps.snapshots):
                    assert snap.timestep == step and snap.nparticle == n
                    assert np.allclose(snap.boxbounds, np.round(bounds, 6), atol=1e-12)
                    assert np.array_equal(snap.particle_type[ids - 1], types)
                    assert np.allclose(snap.positions[ids - 1], pos, atol=2e-6)
    finally:
        shutil.rmtree(tmp)
    print("writer demo OK")
    return 0


if __name__ == "__main__":
    sys.exit(main())
