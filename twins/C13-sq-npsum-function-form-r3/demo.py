"""
Standalone check of PyMatterSim.static.sq.conditional_sq against a vectorised
reference written here, S_A(q) = |sum_i A_i exp(-i q.r_i)|^2 / N, for the three
condition kinds {bool selection, float scalar, float vector}, in 2D and 3D, with
integer wave-vector lists from utils.wavevector.choosewavevector and hand-made ones
(repeated |q|, a single wave vector, unsorted rows).

Run as:  PYTHONPATH=<worktree> /venv/bin/python demo.py
Exits 0 when every comparison holds.
"""

import logging
import shutil
import sys
import tempfile

import numpy as np

from PyMatterSim.reader.reader_utils import SingleSnapshot
from PyMatterSim.static.sq import conditional_sq
from PyMatterSim.utils.wavevector import choosewavevector

logging.disable(logging.INFO)  # keep the output short; results are unaffected

TOL = 2e-8  # the library rounds its tables to 8 decimals
FAILURES = []


def check(name, got, expected, tol=TOL):
    got = np.asarray(got)
    expected = np.asarray(expected)
    if got.shape != expected.shape:
        FAILURES.append(f"{name}: shape {got.shape} != {expected.shape}")
        return
    err = float(np.abs(got - expected).max()) if expected.size else 0.0
    if not np.isfinite(got).all() or err > tol:
        FAILURES.append(f"{name}: max abs error {err:.3e}")


def make_snapshot(rng, ndim, nparticle):
    boxlength = np.array([6.0, 7.5, 5.5])[:ndim]
    positions = rng.random((nparticle, ndim)) * boxlength - 0.25 * boxlength  # not all inside [0, L)
    particle_type = rng.integers(1, 4, size=nparticle)
    particle_type[:3] = [1, 2, 3]
    bounds = np.column_stack((np.zeros(ndim), boxlength))
    return SingleSnapshot(
        timestep=0,
        nparticle=nparticle,
        particle_type=particle_type,
        positions=positions,
        boxlength=boxlength,
        boxbounds=bounds,
        realbounds=bounds,
        hmatrix=np.diag(boxlength),
    )


def fourier(positions, qreal, amplitude, norm):
    """sum_i A_i exp(-i q.r_i) / sqrt(norm); amplitude is (N,) or (N, d)"""
    phase = np.exp(-1j * (positions @ qreal.T))  # (N, nq)
    if amplitude.ndim == 1:
        return (phase * amplitude[:, np.newaxis]).sum(axis=0) / np.sqrt(norm)
    return np.einsum("iq,ia->qa", phase, amplitude) / np.sqrt(norm)


def check_average(name, table, ave):
    """per-|q| average of the per-wave-vector table"""
    qs = np.unique(table["q"].values)
    expected = np.array([table["Sq"].values[table["q"].values == q].mean() for q in qs])
    if list(ave.columns) != ["q", "Sq"]:
        FAILURES.append(f"{name}: ave columns {list(ave.columns)}")
        return
    check(f"{name} ave q", ave["q"].values, qs, tol=1e-12)
    check(f"{name} ave Sq", ave["Sq"].values, expected, tol=1e-12)


def run_case(rng, ndim, nparticle, qint, tag):
    snap = make_snapshot(rng, ndim, nparticle)
    npart = snap.nparticle
    qreal = qint.astype(np.float64) * (2 * np.pi / snap.boxlength)[np.newaxis, :]
    qnorm = np.sqrt((qreal * qreal).sum(axis=1))
    qcols = [f"q{i}" for i in range(ndim)]
    qint_before = qint.copy()

    # --- bool selection of one species -> partial S_aa --------------------
    for species in (1, 2):
        sel = snap.particle_type == species
        table, ave = conditional_sq(snap, qvector=qint, condition=sel)
        if list(table.columns) != qcols + ["q", "Sq", "FFT"]:
            FAILURES.append(f"{tag} bool: columns {list(table.columns)}")
        F = fourier(snap.positions[sel], qreal, np.ones(int(sel.sum())), int(sel.sum()))
        check(f"{tag} bool{species} qvec", table[qcols].values, qreal)
        check(f"{tag} bool{species} q", table["q"].values, qnorm)
        check(f"{tag} bool{species} Sq", table["Sq"].values, np.abs(F) ** 2)
        check(f"{tag} bool{species} FFT", table["FFT"].values, F)
        check_average(f"{tag} bool{species}", table, ave)

    # all particles selected == A = 1 == total S(q)
    t_all, _ = conditional_sq(snap, qvector=qint, condition=np.ones(npart, dtype=bool))
    t_one, _ = conditional_sq(snap, qvector=qint, condition=np.ones(npart))
    Ftot = fourier(snap.positions, qreal, np.ones(npart), npart)
    check(f"{tag} total (bool) Sq", t_all["Sq"].values, np.abs(Ftot) ** 2)
    check(f"{tag} total (A=1) Sq", t_one["Sq"].values, np.abs(Ftot) ** 2)
    check(f"{tag} total FFT", t_one["FFT"].values, Ftot)

    # --- float scalar -----------------------------------------------------
    A = rng.normal(size=npart) + 0.4
    table, ave = conditional_sq(snap, qvector=qint, condition=A)
    if list(table.columns) != qcols + ["q", "Sq", "FFT"]:
        FAILURES.append(f"{tag} scalar: columns {list(table.columns)}")
    F = fourier(snap.positions, qreal, A, npart)
    check(f"{tag} scalar q", table["q"].values, qnorm)
    check(f"{tag} scalar Sq", table["Sq"].values, np.abs(F) ** 2)
    check(f"{tag} scalar FFT", table["FFT"].values, F)
    check_average(f"{tag} scalar", table, ave)

    # --- float vector: equals the sum over components ----------------------
    V = rng.normal(size=(npart, ndim))
    table, ave = conditional_sq(snap, qvector=qint, condition=V)
    fftcols = [f"FFT{i}" for i in range(ndim)]
    if list(table.columns) != qcols + ["q", "Sq"] + fftcols:
        FAILURES.append(f"{tag} vector: columns {list(table.columns)}")
    F = fourier(snap.positions, qreal, V, npart)
    check(f"{tag} vector q", table["q"].values, qnorm)
    check(f"{tag} vector Sq", table["Sq"].values, (np.abs(F) ** 2).sum(axis=1))
    check(f"{tag} vector FFT", table[fftcols].values, F)
    check_average(f"{tag} vector", table, ave)
    comp_sum = 0
    for a in range(ndim):
        comp, _ = conditional_sq(snap, qvector=qint, condition=V[:, a].copy())
        comp_sum = comp_sum + comp["Sq"].values
    check(f"{tag} vector == sum of components", table["Sq"].values, comp_sum, tol=4e-8)

    if not np.array_equal(qint, qint_before):
        FAILURES.append(f"{tag}: the caller's qvector was modified")


def main():
    tmpdir = tempfile.mkdtemp()
    try:
        rng = np.random.default_rng(987654321)
        q3 = choosewavevector(ndim=3, numofq=6, onlypositive=False)
        q3p = choosewavevector(ndim=3, numofq=8, onlypositive=True)
        q2 = choosewavevector(ndim=2, numofq=10, onlypositive=False)
        q2p = choosewavevector(ndim=2, numofq=12, onlypositive=True)
        hand3 = np.array([[2, -1, 0], [0, 0, 3], [-1, 2, 0], [1, 1, 1], [0, 0, -3], [2, -1, 0]])
        hand2 = np.array([[3, 4], [5, 0], [-4, 3], [0, 1]])
        single3 = np.array([[1, 0, 2]])
        cases = [
            (3, 57, q3, "3D/all"),
            (3, 40, q3p, "3D/positive"),
            (3, 23, hand3, "3D/hand"),
            (3, 31, single3, "3D/single"),
            (2, 64, q2, "2D/all"),
            (2, 35, q2p, "2D/positive"),
            (2, 29, hand2, "2D/hand"),
        ]
        for ndim, npart, qint, tag in cases:
            run_case(rng, ndim, npart, qint, tag)
    finally:
        shutil.rmtree(tmpdir, ignore_errors=True)

    if FAILURES:
        print("FAILED")
        for line in FAILURES:
            print("  " + line)
        return 1
    print("conditional_sq agrees with the reference in all cases")
    return 0


if __name__ == "__main__":
    sys.exit(main())
