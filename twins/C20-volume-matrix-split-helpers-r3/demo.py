"""demo for splitting VolumeMatrix into three private helpers

Calls VolumeMatrix (2D and 3D, boxes with different origins, frame index 0 and 1, raw and
transformed matrix, with and without output file) and compares the raw matrix with a
straightforward finite-difference reference written here (fresh copy of the coordinates for
every displacement, explicit double loop for the self term), checks the zero-sum rows, the
requested frame, the saved file and the transformation formula.
"""

import os
import shutil
import sys
import tempfile

import freud
import numpy as np

from PyMatterSim.neighbors.freud_neighbors import VolumeMatrix
from PyMatterSim.reader.reader_utils import SingleSnapshot, Snapshots


def random_snapshots(ndim, nparticle, nframes, lengths, origin, seed):
    rng = np.random.default_rng(seed)
    lengths = np.asarray(lengths, dtype=float)
    origin = np.asarray(origin, dtype=float)
    bounds = np.column_stack((origin, origin + lengths))
    frames = []
    for n in range(nframes):
        frames.append(
            SingleSnapshot(
                timestep=n,
                nparticle=nparticle,
                particle_type=np.ones(nparticle, dtype=int),
                positions=origin + rng.random((nparticle, ndim)) * lengths,
                boxlength=lengths.copy(),
                boxbounds=bounds.copy(),
                realbounds=bounds.copy(),
                hmatrix=np.diag(lengths),
            )
        )
    return Snapshots(nsnapshots=nframes, snapshots=frames)


def volumes(box, points):
    return np.array(freud.locality.Voronoi().compute((box, points)).volumes)


def reference_matrix(snap, ndim, deltar):
    npart = snap.nparticle
    centre = snap.boxbounds[:, 0] + snap.boxlength / 2
    base = np.zeros((npart, 3))
    base[:, :ndim] = snap.positions - centre
    box = freud.box.Box.from_box(snap.boxlength)
    vol0 = volumes(box, base)
    matrix = np.zeros((npart, npart * ndim))
    for i in range(npart):
        for j in range(ndim):
            plus, minus = base.copy(), base.copy()
            plus[i, j] += deltar
            minus[i, j] -= deltar
            derivative = (volumes(box, plus) - volumes(box, minus)) / (2 * deltar)
            for k in range(npart):
                if k != i:
                    matrix[k, ndim * i + j] = derivative[k]
    for k in range(npart):
        for j in range(ndim):
            matrix[k, ndim * k + j] = -sum(matrix[k, ndim * i + j] for i in range(npart) if i != k)
    return matrix / vol0[:, None]


CASES = [
    # ndim, nparticle, box lengths, box origin, seed
    (2, 13, [4.0, 5.0], [0.0, 0.0], 21),
    (2, 12, [4.0, 4.0], [-2.0, -2.0], 22),  # box centred on the origin
    (2, 11, [3.5, 4.5], [1.5, -6.0], 23),
    (3, 10, [3.0, 3.5, 4.0], [0.5, -2.0, 3.0], 24),
]


def main():
    tmp = tempfile.mkdtemp()
    try:
        for k, (ndim, npart, lengths, origin, seed) in enumerate(CASES):
            snaps = random_snapshots(ndim, npart, 2, lengths, origin, seed)
            before = [s.positions.copy() for s in snaps.snapshots]
            raw = []
            for nconfig, deltar in ((0, 0.01), (1, 0.004)):
                out = os.path.join(tmp, "raw_%d_%d" % (k, nconfig))
                got = VolumeMatrix(snaps, ndim=ndim, nconfig=nconfig, deltar=deltar, transform_matrix=False, outputfile=out)
                assert got.shape == (npart, npart * ndim) and got.dtype == np.float64
                want = reference_matrix(snaps.snapshots[nconfig], ndim, deltar)
                scale = np.abs(want).max()
                assert np.abs(got - want).max() < 1e-8 * scale, (k, nconfig, np.abs(got - want).max())
                # rows sum to zero over each displaced coordinate
                for j in range(ndim):
                    assert np.abs(got[:, j::ndim].sum(axis=1)).max() < 1e-10 * scale
                assert np.array_equal(np.load(out + ".npy"), got)
                raw.append(got)
            assert np.abs(raw[0] - raw[1]).max() > 1e-3, "frame 1 must not be frame 0"

            # no file requested -> nothing written, same matrix
            listing = sorted(os.listdir(tmp))
            again = VolumeMatrix(snaps, ndim=ndim, nconfig=1, deltar=0.004, transform_matrix=False)
            assert np.array_equal(again, raw[1]) and sorted(os.listdir(tmp)) == listing

            # transformed matrix: A^T (A A^T)^-1 A of the raw matrix of the same call
            out = os.path.join(tmp, "tr_%d" % k)
            got = VolumeMatrix(snaps, ndim=ndim, nconfig=0, deltar=0.01, transform_matrix=True, outputfile=out)
            a = raw[0]
            want = np.matmul(np.matmul(a.T, np.linalg.inv(np.matmul(a, a.T))), a)
            assert got.shape == (npart * ndim, npart * ndim)
            assert np.allclose(got, want, rtol=1e-9, atol=1e-9 * np.abs(want).max())
            assert np.array_equal(np.load(out + ".npy"), got)

            # the input snapshots are not modified
            for s, b in zip(snaps.snapshots, before):
                assert np.array_equal(s.positions, b)
    finally:
        shutil.rmtree(tmp)
    print("OK")
    return 0


if __name__ == "__main__":
    sys.exit(main())
