"""demo for the cal_neighbors row-writing loop refactoring (enumerate/zip instead of index loops)

Runs cal_neighbors on random 2D and 3D periodic configurations (boxes with different origins,
1-3 frames, odd particle numbers) and compares the three output files byte for byte with text
produced by a straightforward reference writer in this file (per-particle boolean selection of the
freud bond list). Also checks the tessellation invariants on the parsed files and the hand-off to
read_neighbors.
"""

import os
import shutil
import sys
import tempfile

import freud
import numpy as np

from PyMatterSim.neighbors.freud_neighbors import cal_neighbors
from PyMatterSim.neighbors.read_neighbors import read_neighbors
from PyMatterSim.reader.reader_utils import SingleSnapshot, Snapshots


def random_snapshots(ndim, nparticle, nframes, lengths, origin, seed):
    rng = np.random.default_rng(seed)
    lengths = np.asarray(lengths, dtype=float)
    origin = np.asarray(origin, dtype=float)
    bounds = np.column_stack((origin, origin + lengths))
    frames = []
    for n in range(nframes):
        frames.append(
            SingleSnapshot(
                timestep=n,
                nparticle=nparticle,
                particle_type=np.ones(nparticle, dtype=int),
                positions=origin + rng.random((nparticle, ndim)) * lengths,
                boxlength=lengths.copy(),
                boxbounds=bounds.copy(),
                realbounds=bounds.copy(),
                hmatrix=np.diag(lengths),
            )
        )
    return Snapshots(nsnapshots=nframes, snapshots=frames)


def reference_text(snaps, ndim):
    """expected content of (.neighbor.dat, bond file, .overall.dat)"""
    neighbor, bond, overall = [], [], ["id cn area_or_volume\n"]
    for snap in snaps.snapshots:
        neighbor.append("id   cn   neighborlist\n")
        bond.append("id   cn   edgelengthlist\n" if ndim == 2 else "id   cn   facearealist\n")
        centre = snap.boxbounds[:, 0] + snap.boxlength / 2
        points = np.zeros((snap.nparticle, 3))
        points[:, :ndim] = snap.positions - centre
        voro = freud.locality.Voronoi()
        voro.compute((freud.box.Box.from_box(snap.boxlength), points))
        pairs = np.array(voro.nlist)
        weights = np.array(voro.nlist.weights)
        for i in range(snap.nparticle):
            mine = pairs[:, 0] == i
            cn = int(mine.sum())
            neighbor.append("%d %d " % (i + 1, cn) + "".join("%d " % (j + 1) for j in pairs[mine, 1]) + "\n")
            bond.append("%d %d " % (i + 1, cn) + "".join("%.6f " % float(w) for w in weights[mine]) + "\n")
            overall.append("%d %d %.6f\n" % (i + 1, cn, voro.volumes[i]))
    return "".join(neighbor), "".join(bond), "".join(overall)


def check_invariants(base, suffix, snaps, ndim):
    nparticle = snaps.snapshots[0].nparticle
    with open(base + ".overall.dat", encoding="utf-8") as f:
        rows = f.readlines()
    assert rows[0] == "id cn area_or_volume\n"
    table = np.array([[float(w) for w in row.split()] for row in rows[1:]])
    assert table.shape == (nparticle * snaps.nsnapshots, 3)
    fn = open(base + ".neighbor.dat", encoding="utf-8")
    fw = open(base + suffix, encoding="utf-8")
    for n, snap in enumerate(snaps.snapshots):
        nl = read_neighbors(fn, nparticle)
        wt = read_neighbors(fw, nparticle)
        frame = table[n * nparticle : (n + 1) * nparticle]
        assert np.array_equal(frame[:, 0], np.arange(1, nparticle + 1))  # every id once, in order
        assert np.array_equal(frame[:, 1], nl[:, 0]) and np.array_equal(frame[:, 1], wt[:, 0])
        assert abs(frame[:, 2].sum() - np.prod(snap.boxlength)) < 1e-6 * nparticle
        bonds = {}
        for i in range(nparticle):
            cn = nl[i, 0]
            assert (wt[i, 1 : cn + 1] >= 0).all() and (nl[i, cn + 1 :] == 0).all() and (wt[i, cn + 1 :] == 0).all()
            for j, w in zip(nl[i, 1 : cn + 1], wt[i, 1 : cn + 1]):
                bonds.setdefault((i, int(j)), []).append(w)
        for (i, j), w in bonds.items():
            assert (j, i) in bonds, "neighbour relation must be symmetric"
            # (tiny faces between two images of the same pair may be listed on one side only)
            big = sorted(x for x in w if x > 1e-2)
            assert np.allclose(big, sorted(x for x in bonds[(j, i)] if x > 1e-2), atol=2e-5, rtol=0)
    assert fn.readline() == "" and fw.readline() == ""
    fn.close()
    fw.close()


CASES = [
    # ndim, nparticle, nframes, box lengths, box origin, seed
    (2, 37, 2, [6.0, 7.0], [0.0, 0.0], 11),
    (2, 25, 3, [5.0, 5.0], [-2.5, -2.5], 12),  # box centred on the origin: no shift needed
    (2, 31, 1, [4.0, 6.5], [1.5, -3.0], 13),
    (3, 29, 2, [4.0, 5.0, 6.0], [0.0, 0.0, 0.0], 14),
    (3, 27, 1, [5.0, 5.0, 5.0], [-2.5, -2.5, -2.5], 15),
    (3, 21, 3, [4.0, 4.5, 5.0], [2.0, -7.0, 0.5], 16),
]


def main():
    tmp = tempfile.mkdtemp()
    try:
        for k, (ndim, nparticle, nframes, lengths, origin, seed) in enumerate(CASES):
            snaps = random_snapshots(ndim, nparticle, nframes, lengths, origin, seed)
            base = os.path.join(tmp, "case%d" % k)
            cal_neighbors(snaps, outputfile=base)
            suffix = ".edgelength.dat" if ndim == 2 else ".facearea.dat"
            other = ".facearea.dat" if ndim == 2 else ".edgelength.dat"
            assert not os.path.exists(base + other)
            want = reference_text(snaps, ndim)
            for ext, text in zip((".neighbor.dat", suffix, ".overall.dat"), want):
                with open(base + ext, encoding="utf-8") as f:
                    got = f.read()
                assert got == text, "content of %s differs for case %d" % (ext, k)
            check_invariants(base, suffix, snaps, ndim)
    finally:
        shutil.rmtree(tmp)
    print("OK")
    return 0


if __name__ == "__main__":
    sys.exit(main())
