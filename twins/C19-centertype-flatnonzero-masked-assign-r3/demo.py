"""Demo for the read_lammps_centertype refactoring (flatnonzero / masked assignment).

Writes synthetic molecular dumps (2D / 3D; x, xu, xs coordinates; unsorted
ids; atoms outside the box; type maps selecting none / some / all atoms) and
compares read_lammps_centertype_wrapper with a plain-Python reference reader.
"""
import logging
import os
import shutil
import sys
import tempfile

import numpy as np

from PyMatterSim.reader.dump_reader import DumpReader
from PyMatterSim.reader.lammps_reader_helper import read_lammps_centertype_wrapper
from PyMatterSim.reader.reader_utils import DumpFileType
from PyMatterSim.writer.lammps_writer import write_dump_header


def reference(fname, ndim, moltypes):
    """straightforward reader: list of (timestep, types, positions, bounds)"""
    with open(fname, "r", encoding="utf-8") as f:
        lines = f.read().split("\n")
    frames = []
    k = 0
    while k < len(lines) and lines[k].startswith("ITEM: TIMESTEP"):
        timestep = int(lines[k + 1])
        n = int(lines[k + 3])
        bounds = [[float(x) for x in lines[k + 5 + d].split()[:2]] for d in range(ndim)]
        names = lines[k + 8].split()[2:]
        atoms = {}
        for line in lines[k + 9: k + 9 + n]:
            item = line.split()
            atoms[int(item[0])] = (int(item[1]), [float(x) for x in item[2: 2 + ndim]])
        types, pos = [], []
        for aid in sorted(atoms):
            atype, xyz = atoms[aid]
            if atype not in moltypes:
                continue
            out = []
            for d in range(ndim):
                lo, hi = bounds[d]
                length = hi - lo
                p = xyz[d]
                if "xs" in names and "x" not in names and "xu" not in names:
                    p = p * length + lo
                elif "x" in names:
                    if p < lo:
                        p = p + length
                    if p > hi:
                        p = p - length
                out.append(p)
            types.append(moltypes[atype])
            pos.append(out)
        frames.append((timestep, types, np.array(pos).reshape(len(pos), ndim), np.array(bounds)))
        k += 9 + n
    return frames


def write_case(fname, ndim, coord, nframes, n, rng):
    names = {"x": ["x", "y", "z"], "xu": ["xu", "yu", "zu"], "xs": ["xs", "ys", "zs"]}[coord][:ndim]
    with open(fname, "w", encoding="utf-8") as f:
        for frame in range(nframes):
            lo = rng.uniform(-5, 2, ndim)
            hi = lo + rng.uniform(3, 12, ndim)
            bounds = np.column_stack((lo, hi))
            header = write_dump_header(100 * frame + 3, n, bounds, "mol")
            header = header.replace("id type x y z", "id type " + " ".join(names))
            header = header.replace("id type x y mol", "id type " + " ".join(names) + " mol")
            f.write(header)
            ids = rng.permutation(n) + 1
            types = rng.integers(1, 6, n)
            if coord == "xs":
                pos = rng.uniform(0, 1, (n, ndim))
            else:  # some atoms slightly outside the box on either side
                pos = lo + rng.uniform(-0.4, 1.4, (n, ndim)) * (hi - lo)
            for i in range(n):
                f.write("%d %d %s %d\n" % (ids[i], types[i], " ".join("%.8f" % x for x in pos[i]), i // 3 + 1))


def main():
    logging.disable(logging.CRITICAL)
    rng = np.random.default_rng(1919)
    tmp = tempfile.mkdtemp()
    ncheck = 0
    try:
        for ndim in (2, 3):
            for coord in ("x", "xu", "xs"):
                for n in (1, 7, 24):
                    fname = os.path.join(tmp, "mol_%d_%s_%d.atom" % (ndim, coord, n))
                    write_case(fname, ndim, coord, 3, n, rng)
                    for moltypes in ({3: 1, 5: 2}, {5: 7, 1: 4, 2: 4}, {1: 1, 2: 2, 3: 3, 4: 4, 5: 5}, {9: 1}):
                        ref = reference(fname, ndim, moltypes)
                        got = read_lammps_centertype_wrapper(fname, ndim, moltypes)
                        via = DumpReader(fname, ndim, DumpFileType.LAMMPSCENTER, moltypes)
                        via.read_onefile()
                        for snaps in (got, via.snapshots):
                            assert snaps.nsnapshots == len(ref) == 3
                            for snap, (timestep, types, pos, bounds) in zip(snaps.snapshots, ref):
                                assert snap.timestep == timestep
                                assert snap.nparticle == len(types)
                                assert len(snap.particle_type) == len(types)
                                assert snap.positions.shape == (len(types), ndim)
                                assert np.array_equal(snap.boxbounds, bounds)
                                if types:
                                    assert snap.particle_type.dtype.kind == "i"
                                    assert np.array_equal(snap.particle_type, types)
                                    assert np.allclose(snap.positions, pos, rtol=1e-13, atol=1e-13)
                                ncheck += 1
    finally:
        shutil.rmtree(tmp)
    print("centertype demo OK (%d frames checked)" % ncheck)
    return 0


if __name__ == "__main__":
    sys.exit(main())
