import logging
import os
import shutil
import sys
import tempfile

import numpy as np

logging.disable(logging.CRITICAL)

from PyMatterSim.neighbors.calculate_neighbors import (  # noqa: E402
    Nnearests, cutoffneighbors, cutoffneighbors_particletype)
from PyMatterSim.neighbors.read_neighbors import read_neighbors  # noqa: E402
from PyMatterSim.reader.reader_utils import SingleSnapshot, Snapshots  # noqa: E402

HEADER = 'id     cn     neighborlist'
FAILURES = []


def check(cond, msg):
    if not cond:
        FAILURES.append(msg)
        print('FAIL:', msg)


# --------------------------------------------------------------------------
# synthetic configurations
# --------------------------------------------------------------------------
def make_frame(rng, n, hmatrix, ntypes=1, step=0):
    """n random particles inside the cell spanned by the rows of hmatrix"""
    hmatrix = np.asarray(hmatrix, dtype=float)
    ndim = hmatrix.shape[0]
    frac = rng.random((n, ndim))
    positions = frac @ hmatrix
    ptype = (np.arange(n) % ntypes) + 1
    rng.shuffle(ptype)
    if ntypes > 1:
        ptype[:ntypes] = np.arange(ntypes) + 1  # every type present
    boxlength = np.diag(hmatrix).copy()
    bounds = np.column_stack((np.zeros(ndim), boxlength))
    return SingleSnapshot(
        timestep=step, nparticle=n, particle_type=ptype.astype(np.int32),
        positions=positions, boxlength=boxlength, boxbounds=bounds,
        realbounds=bounds, hmatrix=hmatrix)


def make_lattice(ncell, ndim):
    """simple (hyper)cubic lattice, spacing 1, exactly representable numbers"""
    grids = np.meshgrid(*[np.arange(ncell, dtype=float)] * ndim, indexing='ij')
    positions = np.column_stack([g.ravel() for g in grids])
    n = positions.shape[0]
    hmatrix = np.eye(ndim) * float(ncell)
    boxlength = np.diag(hmatrix).copy()
    bounds = np.column_stack((np.zeros(ndim), boxlength))
    return SingleSnapshot(
        timestep=0, nparticle=n, particle_type=np.ones(n, dtype=np.int32),
        positions=positions, boxlength=boxlength, boxbounds=bounds,
        realbounds=bounds, hmatrix=hmatrix)


def pack(frames):
    return Snapshots(nsnapshots=len(frames), snapshots=list(frames))


CELLS = {
    '3d-ortho': np.diag([6.0, 7.0, 5.5]),
    '3d-tric': np.array([[6.0, 0.0, 0.0], [1.2, 6.5, 0.0], [-0.9, 0.7, 5.8]]),
    '3d-tric-neg': np.array([[6.0, 0.0, 0.0], [-1.5, 6.5, 0.0], [0.8, -1.1, 5.8]]),
    '2d-ortho': np.diag([9.0, 8.0]),
    '2d-tric-neg': np.array([[9.0, 0.0], [-2.0, 8.0]]),
}


# --------------------------------------------------------------------------
# independent reference (written without the library helpers)
# --------------------------------------------------------------------------
def ref_distances(frame, i, ppp):
    """distances from particle i under the fractional-coordinate
    minimum-image convention, one neighbour at a time"""
    h = np.asarray(frame.hmatrix, dtype=float)
    out = np.empty(frame.nparticle)
    for j in range(frame.nparticle):
        d = frame.positions[j] - frame.positions[i]
        s = np.linalg.solve(h.T, d)  # d = s @ h
        s = np.array([sk - round(sk) if pk else sk for sk, pk in zip(s, ppp)])
        out[j] = np.sqrt(np.sum((s @ h) ** 2))
    return out


def brute_image_distances(frame, i, ppp):
    """true minimum over the 3**d neighbouring images (orthogonal cells)"""
    h = np.asarray(frame.hmatrix, dtype=float)
    ndim = h.shape[0]
    shifts = np.array(np.meshgrid(*[[-1, 0, 1] if p else [0] for p in ppp],
                                  indexing='ij')).reshape(ndim, -1).T
    d = frame.positions - frame.positions[i]
    best = np.full(frame.nparticle, np.inf)
    for s in shifts:
        best = np.minimum(best, np.sqrt((((d + s @ h)) ** 2).sum(axis=1)))
    return best


def ref_sorted_others(dist, i):
    order = sorted((j for j in range(len(dist)) if j != i), key=lambda j: dist[j])
    return order


def parse_frames(text):
    """split a neighbour file into frames: list of list of int rows"""
    frames = []
    for line in text.split('\n')[:-1]:
        if line.split() == HEADER.split():
            frames.append([])
        else:
            frames[-1].append([int(t) for t in line.split()])
    return frames


def margin_ok(dist, i, rc, eps=1e-9):
    others = np.delete(dist, i)
    gaps = np.diff(np.sort(others))
    return (np.abs(others - rc) > eps).all() and (gaps > eps).all()


def finish(tmpdir):
    shutil.rmtree(tmpdir, ignore_errors=True)
    if FAILURES:
        print('%d check(s) failed' % len(FAILURES))
        sys.exit(1)
    print('all checks passed')
    sys.exit(0)


# --------------------------------------------------------------------------
# demo: cutoffneighbors_particletype - cutoff row chosen by the centre type,
# column by the neighbour type; file text, ordering, cn column
# --------------------------------------------------------------------------
def expected_text(frames, rcm, ppp):
    lines = []
    for frame in frames:
        lines.append(HEADER)
        t = frame.particle_type
        for i in range(frame.nparticle):
            dist = ref_distances(frame, i, ppp)
            sel = [j for j in ref_sorted_others(dist, i)
                   if dist[j] <= rcm[t[i] - 1][t[j] - 1]]
            lines.append('%d %d ' % (i + 1, len(sel)) + ' '.join(str(j + 1) for j in sel))
    return '\n'.join(lines) + '\n'


def margins_ok(frames, rcm, ppp, eps=1e-9):
    for frame in frames:
        t = frame.particle_type
        for i in range(frame.nparticle):
            dist = ref_distances(frame, i, ppp)
            for j in range(frame.nparticle):
                if j != i and abs(dist[j] - rcm[t[i] - 1][t[j] - 1]) <= eps:
                    return False
            d = np.sort(np.delete(dist, i))
            if d.size > 1 and not (np.diff(d) > eps).all():
                return False
    return True


def main():
    tmpdir = tempfile.mkdtemp()
    rng = np.random.default_rng(31337)
    masks = {3: [(1, 1, 1), (1, 0, 1), (0, 0, 0)], 2: [(1, 1), (0, 1), (0, 0)]}
    matrices = {
        2: np.array([[1.3, 2.4], [0.7, 1.9]]),                       # not symmetric
        3: np.array([[1.1, 2.6, 0.4], [1.9, 0.8, 2.2], [3.0, 1.0, 1.6]]),
    }
    case = 0
    for name, cell in CELLS.items():
        ndim = cell.shape[0]
        for ntypes, rcm in matrices.items():
            # same particles (hence same types) in every frame, moved around
            first = make_frame(rng, 26, cell, ntypes=ntypes)
            frames = [first]
            for k in (1, 2):
                moved = make_frame(rng, 26, cell, ntypes=ntypes, step=k)
                frames.append(SingleSnapshot(
                    timestep=k, nparticle=26, particle_type=first.particle_type,
                    positions=moved.positions, boxlength=first.boxlength,
                    boxbounds=first.boxbounds, realbounds=first.realbounds,
                    hmatrix=first.hmatrix))
            for ppp in masks[ndim]:
                rc = rcm.copy()
                while not margins_ok(frames, rc, ppp):
                    rc = rc + 1.0e-3
                fn = os.path.join(tmpdir, 'tc_%d.dat' % case)
                case += 1
                cutoffneighbors_particletype(pack(frames), r_cut=rc, ppp=np.array(ppp), fnfile=fn)
                with open(fn, 'r', encoding='utf-8') as f:
                    text = f.read()
                check(text == expected_text(frames, rc, ppp),
                      'file text %s ntypes=%d ppp=%s' % (name, ntypes, ppp))
                parsed = parse_frames(text)
                check([len(p) for p in parsed] == [26, 26, 26], 'frame/row counts')
                for frame, rows in zip(frames, parsed):
                    t = frame.particle_type
                    for i, r in enumerate(rows):
                        check(r[0] == i + 1 and r[1] == len(r[2:]) and (i + 1) not in r[2:],
                              'id / cn / self %s' % name)
                        if 'ortho' in name:
                            d = brute_image_distances(frame, i, ppp)
                            want = {j + 1 for j in range(26)
                                    if j != i and d[j] <= rc[t[i] - 1, t[j] - 1]}
                            check(set(r[2:]) == want, 'brute-force images %s' % name)
                # sequential read-back, zero padded / truncated
                for nmax in (200, 3):
                    with open(fn, 'r', encoding='utf-8') as f:
                        for rows in parsed:
                            arr = read_neighbors(f, 26, Nmax=nmax)
                            width = min(max(r[1] for r in rows), nmax)
                            want = np.zeros((26, width + 1), dtype=np.int64)
                            for r in rows:
                                k = min(r[1], nmax)
                                want[r[0] - 1, 0] = k
                                want[r[0] - 1, 1:k + 1] = np.array(r[2:2 + k], dtype=np.int64) - 1
                            check(arr.dtype == np.int32 and arr.shape == want.shape
                                  and (arr == want).all(), 'read-back %s Nmax=%d' % (name, nmax))
                        check(f.readline() == '', 'file fully consumed')

    # boundary inclusive on an exactly representable lattice, two "types"
    for ndim, ppp in ((3, (1, 1, 1)), (2, (1, 1))):
        lat = make_lattice(4, ndim)
        t = (np.arange(lat.nparticle) % 2 + 1).astype(np.int32)
        lat = SingleSnapshot(0, lat.nparticle, t, lat.positions, lat.boxlength,
                             lat.boxbounds, lat.realbounds, lat.hmatrix)
        rc = np.array([[1.0, 0.5], [1.0, 1.0]])  # type 1 sees only type 1 at distance 1
        fn = os.path.join(tmpdir, 'lat_%d.dat' % ndim)
        cutoffneighbors_particletype(pack([lat]), r_cut=rc, ppp=np.array(ppp), fnfile=fn)
        with open(fn, 'r', encoding='utf-8') as f:
            rows = parse_frames(f.read())[0]
        for r in rows:
            i = r[0] - 1
            d = brute_image_distances(lat, i, ppp)
            want = {j + 1 for j in range(lat.nparticle)
                    if j != i and d[j] <= rc[t[i] - 1, t[j] - 1]}
            check(r[1] == len(want) and set(r[2:]) == want, 'typed lattice %dd' % ndim)
        check(any(r[1] > 0 for r in rows), 'typed lattice not empty')
    finish(tmpdir)


if __name__ == '__main__':
    main()
