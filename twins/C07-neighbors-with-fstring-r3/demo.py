"""Demo for the `with`/f-string refactoring of PyMatterSim.neighbors.calculate_neighbors.

Exercises Nnearests, cutoffneighbors and cutoffneighbors_particletype on synthetic
2D / 3D, orthogonal / triclinic (negative tilt) configurations with several frames and
compares the written neighbour files (exact text for the cutoff writers, parsed integers
for Nnearests) with a brute-force minimum-image reference written here.
"""

import itertools
import os
import shutil
import sys
import tempfile

import numpy as np

from PyMatterSim.neighbors.calculate_neighbors import (
    Nnearests,
    cutoffneighbors,
    cutoffneighbors_particletype,
)
from PyMatterSim.neighbors.read_neighbors import read_neighbors
from PyMatterSim.reader.reader_utils import SingleSnapshot, Snapshots


def make_snapshots(hmatrix, nparticle, nframes, ntypes, rng):
    hmatrix = np.asarray(hmatrix, dtype=float)
    ndim = hmatrix.shape[0]
    frames = []
    ptype = (np.arange(nparticle) % ntypes + 1).astype(np.int32)
    rng.shuffle(ptype)
    for n in range(nframes):
        frac = rng.random((nparticle, ndim))
        pos = frac @ hmatrix
        # move some particles by whole cell vectors (unwrapped images)
        pos[::7] += hmatrix[0]
        pos[3::11] -= hmatrix[-1]
        boxlength = np.diag(hmatrix).copy()
        bounds = np.column_stack((np.zeros(ndim), boxlength))
        frames.append(
            SingleSnapshot(
                timestep=n,
                nparticle=nparticle,
                particle_type=ptype,
                positions=pos,
                boxlength=boxlength,
                boxbounds=bounds,
                realbounds=bounds,
                hmatrix=hmatrix,
            )
        )
    return Snapshots(nsnapshots=nframes, snapshots=frames)


def brute_distances(pos, i, hmatrix, ppp):
    """true minimum-image distances from particle i by scanning periodic images"""
    ndim = hmatrix.shape[0]
    ranges = [(-2, -1, 0, 1, 2) if ppp[k] else (0,) for k in range(ndim)]
    rij = pos - pos[i]
    best = np.full(pos.shape[0], np.inf)
    for shift in itertools.product(*ranges):
        vec = rij + np.asarray(shift, dtype=float) @ hmatrix
        best = np.minimum(best, np.sqrt((vec * vec).sum(axis=1)))
    return best


def expected_cutoff_text(snapshots, ppp, cutoff_of):
    lines = []
    for snap in snapshots.snapshots:
        lines.append("id     cn     neighborlist\n")
        for i in range(snap.nparticle):
            dist = brute_distances(snap.positions, i, snap.hmatrix, ppp)
            sel = [j for j in range(snap.nparticle) if j != i and dist[j] <= cutoff_of(snap, i, j)]
            sel.sort(key=lambda j: dist[j])
            lines.append("%d %d " % (i + 1, len(sel)) + " ".join(str(j + 1) for j in sel) + "\n")
    return "".join(lines)


def check(cond, msg):
    if not cond:
        print("FAIL:", msg)
        sys.exit(1)


def main():
    rng = np.random.default_rng(20240917)
    tmp = tempfile.mkdtemp()
    try:
        cases = [
            ("3d-orthogonal", [[5.0, 0, 0], [0, 6.0, 0], [0, 0, 7.0]], [1, 1, 1], 41),
            ("3d-triclinic", [[6.0, 0, 0], [1.2, 6.5, 0], [-0.8, 0.9, 7.0]], [1, 1, 1], 37),
            ("2d-negative-tilt", [[6.0, 0], [-1.5, 5.0]], [1, 1], 30),
            ("3d-open-z", [[5.0, 0, 0], [0, 5.0, 0], [0, 0, 5.0]], [1, 1, 0], 25),
        ]
        for name, hmat, ppp, npart in cases:
            ppp = np.array(ppp)
            hmat = np.asarray(hmat, dtype=float)
            snaps = make_snapshots(hmat, npart, 2, 2, rng)

            # ---- global cutoff
            fn = os.path.join(tmp, name + ".cut.dat")
            rcut = 1.45
            cutoffneighbors(snaps, r_cut=rcut, ppp=ppp, fnfile=fn)
            with open(fn, encoding="utf-8") as f:
                got = f.read()
            want = expected_cutoff_text(snaps, ppp, lambda s, i, j: rcut)
            check(got == want, f"{name}: cutoffneighbors text differs")

            # ---- type specific cutoff
            fn = os.path.join(tmp, name + ".cuttype.dat")
            rc = np.array([[1.2, 1.5], [1.5, 1.8]])
            cutoffneighbors_particletype(snaps, r_cut=rc, ppp=ppp, fnfile=fn)
            with open(fn, encoding="utf-8") as f:
                got = f.read()
            want = expected_cutoff_text(
                snaps, ppp, lambda s, i, j: rc[s.particle_type[i] - 1, s.particle_type[j] - 1]
            )
            check(got == want, f"{name}: cutoffneighbors_particletype text differs")
            # the file must be closed and complete: it can be read back frame by frame
            with open(fn, encoding="utf-8") as f:
                for snap in snaps.snapshots:
                    table = read_neighbors(f, snap.nparticle, Nmax=npart)
                    check(table.shape[0] == snap.nparticle, f"{name}: read back")
                check(f.readline() == "", f"{name}: trailing content in file")

            # ---- N nearest
            fn = os.path.join(tmp, name + ".nn.dat")
            nn = 5
            Nnearests(snaps, N=nn, ppp=ppp, fnfile=fn)
            with open(fn, encoding="utf-8") as f:
                text = f.read().split("\n")
            pos = 0
            for snap in snaps.snapshots:
                check(text[pos] == "id     cn     neighborlist", f"{name}: Nnearests header")
                pos += 1
                for i in range(snap.nparticle):
                    row = [int(t) for t in text[pos].split()]
                    pos += 1
                    dist = brute_distances(snap.positions, i, snap.hmatrix, ppp)
                    order = [j for j in np.argsort(dist) if j != i][:nn]
                    check(row == [i + 1, nn] + [j + 1 for j in order], f"{name}: Nnearests row {i}")
            check(all(t.strip() == "" for t in text[pos:]), f"{name}: Nnearests trailing text")
        print("OK")
    finally:
        shutil.rmtree(tmp, ignore_errors=True)


if __name__ == "__main__":
    main()
