"""Demo for the "compute once in a local" refactoring of participation_ratio,
local_vector_alignment and phase_quotient.

Run as: PYTHONPATH=<worktree> /venv/bin/python demo.py [dump.npz]
Synthetic fields in 2D and 3D, unequal coordination numbers (zero-padded neighbour table),
neighbour-file lines in shuffled id order; results compared with plain-Python references.
"""

import logging
import os
import shutil
import sys
import tempfile

import numpy as np

logging.disable(logging.CRITICAL)

from PyMatterSim.static.vector import (  # noqa: E402
    local_vector_alignment,
    participation_ratio,
    phase_quotient,
)


def make_neighbors(rng, npart, maxcn, filename):
    neighbors = []
    for i in range(npart):
        cn = int(rng.integers(1, maxcn + 1))
        others = np.delete(np.arange(npart), i)
        neighbors.append(rng.choice(others, size=cn, replace=False))
    order = rng.permutation(npart)
    with open(filename, "w", encoding="utf-8") as f:
        f.write("id     cn     neighborlist\n")
        for i in order:
            f.write(f"{i + 1} {len(neighbors[i])} " + " ".join(str(j + 1) for j in neighbors[i]) + "\n")
    return neighbors


def ref_pr(vector):
    e2 = [sum(float(c) ** 2 for c in row) for row in vector]
    return sum(e2) ** 2 / (len(e2) * sum(x * x for x in e2))


def ref_alignment(vector, neighbors):
    out = np.zeros(len(vector))
    for i, neigh in enumerate(neighbors):
        out[i] = sum(float(np.dot(vector[i], vector[j])) for j in neigh) / len(neigh)
    return out


def ref_pq(vector, neighbors):
    num, den = 0.0, 0.0
    for i, neigh in enumerate(neighbors):
        for j in neigh:
            dot = float(np.dot(vector[i], vector[j]))
            num += dot
            den += abs(dot)
    return num / den


def main():
    rng = np.random.default_rng(77015)
    tmpdir = tempfile.mkdtemp()
    dump = {}
    try:
        case = 0
        for ndim in (2, 3):
            for npart in (17, 40):
                nfile = os.path.join(tmpdir, f"neighbors_{case}.dat")
                neighbors = make_neighbors(rng, npart, 8, nfile)
                positions = rng.random((npart, ndim)) * 9.0
                unit = rng.normal(size=(npart, ndim))
                unit /= np.linalg.norm(unit, axis=1)[:, np.newaxis]
                localised = np.zeros((npart, ndim))
                localised[3] = rng.normal(size=ndim)
                fields = {
                    "random": rng.normal(size=(npart, ndim)),
                    "linear": positions @ rng.normal(size=(ndim, ndim)).T,
                    "uniform": np.tile(rng.normal(size=ndim), (npart, 1)),
                    "unitmag": unit,
                    "localised": localised,
                }
                for name, vector in fields.items():
                    pr = participation_ratio(vector)
                    assert abs(pr - ref_pr(vector)) < 1e-12 * max(1.0, abs(pr))
                    assert 1.0 / npart - 1e-12 <= pr <= 1.0 + 1e-12
                    pr_scaled = participation_ratio(vector * 37.5)
                    assert abs(pr_scaled - pr) < 1e-12
                    if name in ("uniform", "unitmag"):
                        assert abs(pr - 1.0) < 1e-12
                    if name == "localised":
                        assert abs(pr - 1.0 / npart) < 1e-12
                    dump[f"pr_{case}_{name}"] = np.array(pr)
                    dump[f"prs_{case}_{name}"] = np.array(pr_scaled)

                    lva = local_vector_alignment(vector, nfile)
                    assert lva.shape == (npart,)
                    np.testing.assert_allclose(lva, ref_alignment(vector, neighbors), rtol=1e-11, atol=1e-12)
                    dump[f"lva_{case}_{name}"] = lva

                    if name == "localised":
                        # every neighbour dot product vanishes -> 0/0; nothing to compare
                        continue
                    pq = phase_quotient(vector, nfile)
                    assert abs(pq - ref_pq(vector, neighbors)) < 1e-11
                    assert -1.0 - 1e-12 <= pq <= 1.0 + 1e-12
                    if name == "uniform":
                        assert abs(pq - 1.0) < 1e-12
                        np.testing.assert_allclose(lva, (vector[0] ** 2).sum(), rtol=1e-12)
                    dump[f"pq_{case}_{name}"] = np.array(pq)
                case += 1

        # float32 and integer inputs keep their result dtype / value
        v32 = rng.normal(size=(12, 3)).astype(np.float32)
        pr32 = participation_ratio(v32)
        dump["pr32"] = np.array(pr32)
        assert abs(float(pr32) - ref_pr(v32)) < 1e-5
        vint = rng.integers(-4, 5, size=(15, 2))
        vint[0] = (1, 2)
        print_ = participation_ratio(vint)
        dump["print"] = np.array(print_)
        assert abs(float(print_) - ref_pr(vint)) < 1e-12
    finally:
        shutil.rmtree(tmpdir, ignore_errors=True)

    if len(sys.argv) > 1:
        np.savez(sys.argv[1], **dump)
    print("participation_ratio / local_vector_alignment / phase_quotient demo OK:", len(dump), "values checked")


if __name__ == "__main__":
    main()
