"""Demo for the numpy-idiom rewrite inside
PyMatterSim.neighbors.freud_neighbors.VolumeMatrix.

Synthetic 2D and 3D snapshots are built for two box conventions:
  * box [0, L]      -> convert_configuration returns a shifted copy
  * box [-L/2, L/2] -> convert_configuration hands back snapshot.positions
                       itself (3D), so VolumeMatrix must copy before perturbing
The result for transform_matrix=False is compared with a straightforward
reference (fresh copy of the points for every finite difference, own freud
calls) and with the volume-conservation identity sum_i V_i * A[i, :] ~ 0.
The snapshot arrays must be bit-for-bit unchanged, repeated calls must agree
and the npy file must hold the returned values.  Exits 0 on success.
"""
import os
import shutil
import sys
import tempfile

import freud
import numpy as np

from PyMatterSim.neighbors.freud_neighbors import VolumeMatrix, convert_configuration
from PyMatterSim.reader.reader_utils import SingleSnapshot, Snapshots


def jittered_lattice(rng, ncell, ndim, spacing):
    """well separated points: a jittered square / cubic lattice in [0, L)"""
    grids = np.meshgrid(*[np.arange(ncell)] * ndim, indexing="ij")
    pos = np.column_stack([g.ravel() for g in grids]).astype(np.float64)
    pos = (pos + 0.5 + rng.uniform(-0.25, 0.25, size=pos.shape)) * spacing
    return pos


def make_snapshot(rng, ndim, ncell, centred, timestep=0):
    spacing = 1.1
    boxlength = np.full(ndim, ncell * spacing)
    pos = jittered_lattice(rng, ncell, ndim, spacing)
    if centred:
        pos = pos - boxlength / 2
        boxbounds = np.column_stack((-boxlength / 2, boxlength / 2))
    else:
        origin = np.arange(1, ndim + 1) * 0.75
        pos = pos + origin
        boxbounds = np.column_stack((origin, origin + boxlength))
    return SingleSnapshot(
        timestep=timestep,
        nparticle=pos.shape[0],
        particle_type=np.ones(pos.shape[0], dtype=np.int32),
        positions=pos,
        boxlength=boxlength,
        boxbounds=boxbounds,
        realbounds=boxbounds.copy(),
        hmatrix=np.diag(boxlength),
    )


def snapshot_bytes(snapshots):
    out = []
    for snap in snapshots.snapshots:
        out.append((snap.positions.tobytes(), snap.particle_type.tobytes(), snap.boxlength.tobytes(),
                    snap.boxbounds.tobytes(), snap.realbounds.tobytes(), snap.hmatrix.tobytes()))
    return out


def reference_matrix(snapshot, ndim, deltar):
    """finite differences of the Voronoi volumes, every evaluation from a fresh copy"""
    centre = snapshot.boxbounds[:, 0] + snapshot.boxlength / 2
    base = snapshot.positions - centre
    if ndim == 2:
        base = np.column_stack((base, np.zeros(base.shape[0])))
    box = freud.box.Box.from_box(snapshot.boxlength)

    def volumes(points):
        return np.array(freud.locality.Voronoi().compute((box, points)).volumes, dtype=np.float64)

    npart = base.shape[0]
    original = volumes(base)
    matrix = np.zeros((npart, npart * ndim))
    for i in range(npart):
        for j in range(ndim):
            plus = base.copy()
            plus[i, j] += deltar
            minus = base.copy()
            minus[i, j] -= deltar
            deriv = (volumes(plus) - volumes(minus)) / (2 * deltar)
            for k in range(npart):
                if k != i:
                    matrix[k, ndim * i + j] = deriv[k]
    for i in range(npart):
        for j in range(ndim):
            matrix[i, ndim * i + j] = -matrix[i, j::ndim].sum()
    return matrix / original[:, None], original


def check(rng, ndim, ncell, centred, tmpdir, nconfig=0, deltar=0.01):
    label = f"{ndim}d-{'centred' if centred else 'offset'}-nconfig{nconfig}"
    snaps = [make_snapshot(rng, ndim, ncell, centred, timestep=t) for t in range(nconfig + 1)]
    snapshots = Snapshots(nsnapshots=len(snaps), snapshots=snaps)
    before = snapshot_bytes(snapshots)

    outfile = os.path.join(tmpdir, label + ".raw.npy")
    raw = VolumeMatrix(snapshots, ndim=ndim, nconfig=nconfig, deltar=deltar,
                       transform_matrix=False, outputfile=outfile)
    assert snapshot_bytes(snapshots) == before, f"{label}: snapshot arrays modified"
    npart = snaps[nconfig].nparticle
    assert raw.shape == (npart, npart * ndim), label
    assert np.array_equal(np.load(outfile), raw), f"{label}: file differs from returned matrix"

    # something else in between, then the same call again
    convert_configuration(snapshots)
    transformed = VolumeMatrix(snapshots, ndim=ndim, nconfig=nconfig, deltar=deltar)
    raw_again = VolumeMatrix(snapshots, ndim=ndim, nconfig=nconfig, deltar=deltar, transform_matrix=False)
    assert snapshot_bytes(snapshots) == before, f"{label}: snapshot arrays modified (2nd round)"
    assert raw_again.tobytes() == raw.tobytes(), f"{label}: repeated call differs"
    assert transformed.shape == (npart * ndim, npart * ndim), label

    outfile_t = os.path.join(tmpdir, label + ".transformed.npy")
    transformed_again = VolumeMatrix(snapshots, ndim=ndim, nconfig=nconfig, deltar=deltar, outputfile=outfile_t)
    assert transformed_again.tobytes() == transformed.tobytes(), f"{label}: repeated transformed call differs"
    assert np.array_equal(np.load(outfile_t), transformed_again), f"{label}: transformed file differs"

    # independent reference
    expected, original = reference_matrix(snaps[nconfig], ndim, deltar)
    np.testing.assert_allclose(raw, expected, rtol=1e-7, atol=1e-9, err_msg=label)
    # total volume is conserved: sum_i V_i A[i, col] = 0 up to the O(deltar^2) error of
    # the translation-invariance closure used for the i-i entries
    np.testing.assert_allclose(original @ raw, 0.0, atol=1e-3, err_msg=label)
    # the list handed out by convert_configuration aliases positions only in the centred 3D case
    points = convert_configuration(snapshots)[1][nconfig]
    assert np.shares_memory(points, snaps[nconfig].positions) == (centred and ndim == 3), label
    assert points.shape == (npart, 3), label


def main():
    rng = np.random.default_rng(424242)
    tmpdir = tempfile.mkdtemp()
    try:
        check(rng, ndim=2, ncell=4, centred=False, tmpdir=tmpdir)
        check(rng, ndim=2, ncell=4, centred=True, tmpdir=tmpdir)
        check(rng, ndim=3, ncell=3, centred=False, tmpdir=tmpdir)
        check(rng, ndim=3, ncell=3, centred=True, tmpdir=tmpdir)
        # non-default configuration index and displacement
        check(rng, ndim=2, ncell=3, centred=True, tmpdir=tmpdir, nconfig=1, deltar=0.004)
        check(rng, ndim=3, ncell=3, centred=True, tmpdir=tmpdir, nconfig=2, deltar=0.02)
    finally:
        shutil.rmtree(tmpdir, ignore_errors=True)
    print("VolumeMatrix demo: OK")
    return 0


if __name__ == "__main__":
    sys.exit(main())
