"""Demo for the per-grid-point part of gaussian_blurring: minimum-image distance,
distance cut, normalised Gaussian weight, weighted sums for scalar / vector / tensor
properties; plus grid_gaussian itself.

Run: PYTHONPATH=<worktree> /venv/bin/python demo.py
Exits 0 on the unchanged and on the refactored tree.
"""
import itertools
import math
import sys

import numpy as np

from PyMatterSim.reader.reader_utils import SingleSnapshot, Snapshots
from PyMatterSim.utils.coarse_graining import gaussian_blurring
from PyMatterSim.utils.funcs import grid_gaussian

rng = np.random.default_rng(99)
failures = 0


def check(name, ok):
    global failures
    if not ok:
        failures += 1
    print(("ok   " if ok else "FAIL ") + name)


def snapshot(positions, bounds, hmatrix, step=0):
    bounds = np.array(bounds, dtype=float)
    return SingleSnapshot(
        timestep=step, nparticle=len(positions), particle_type=np.ones(len(positions), dtype=int),
        positions=np.array(positions, dtype=float), boxlength=bounds[:, 1] - bounds[:, 0],
        boxbounds=bounds, realbounds=bounds, hmatrix=np.array(hmatrix, dtype=float))


def gauss(r, sigma):
    return math.exp(-r * r / (2 * sigma * sigma)) / math.sqrt(2 * math.pi * sigma * sigma)


# ---- grid_gaussian against the closed form
d = rng.uniform(0, 9, size=40)
for sigma in (1, 2.0, 0.35):
    got = grid_gaussian(d, sigma)
    ref = np.array([gauss(r, sigma) for r in d])
    check(f"grid_gaussian sigma={sigma}", got.shape == d.shape and np.allclose(got, ref, rtol=1e-12, atol=0))
check("grid_gaussian default sigma=1", np.allclose(grid_gaussian(d), [gauss(r, 1) for r in d], rtol=1e-12, atol=0))
check("grid_gaussian empty", grid_gaussian(d[:0], 2.0).shape == (0,))

# ---- hand case, orthogonal 2D box 10 x 4, 3 x 2 grid, one particle near the corner
# grid points: x in {0,5,10}, y in {0,4}; particle at (9.5, 0.5) with value 3
snap = snapshot([[9.5, 0.5]], [[0, 10], [0, 4]], [[10, 0], [0, 4]])
snaps = Snapshots(nsnapshots=1, snapshots=[snap])
cond = np.array([[3.0]])
gpos, gval = gaussian_blurring(snaps, cond, [3, 2], sigma=1.0, ppp=np.array([1, 1]), gaussian_cut=2.0)
expect_pos = [[0, 0], [0, 4], [5, 0], [5, 4], [10, 0], [10, 4]]
# minimum-image distance of the particle to each grid point (periodic in x and y)
dists = [math.hypot(0.5, 0.5)] * 2 + [math.hypot(4.5, 0.5)] * 2 + [math.hypot(0.5, 0.5)] * 2
expect_val = [3.0 * gauss(r, 1.0) if r < 2.0 else 0.0 for r in dists]
check("hand case positions (x slowest)", np.allclose(gpos[0], expect_pos, atol=1e-13))
check("hand case values", np.allclose(gval[0], expect_val, rtol=1e-12, atol=1e-15))
check("hand case: points outside the cut are exactly 0", gval[0, 2] == 0.0 and gval[0, 3] == 0.0)
# same without periodicity in x: the two points at x = 0 are now 9.5 away -> zero
gpos, gval = gaussian_blurring(snaps, cond, [3, 2], sigma=1.0, ppp=np.array([0, 1]), gaussian_cut=2.0)
check("hand case ppp=[0,1]", np.allclose(gval[0], [0, 0, 0, 0, expect_val[4], expect_val[5]], rtol=1e-12, atol=1e-15))


# ---- random systems against a per-particle scalar reference
def reference_values(snaps, cond, gpos, sigma, ppp, cut):
    out = np.zeros(gpos.shape[:2] + cond.shape[2:])
    for n, snp in enumerate(snaps.snapshots):
        hinv = np.linalg.inv(snp.hmatrix)
        ndim = gpos.shape[2]
        for g in range(gpos.shape[1]):
            acc = np.zeros(cond.shape[2:])
            for p in range(snp.nparticle):
                frac = (gpos[n, g] - snp.positions[p]) @ hinv
                frac = np.array([frac[k] - round(frac[k]) if ppp[k] else frac[k] for k in range(ndim)])
                dr = frac @ snp.hmatrix
                r = math.sqrt(float(np.dot(dr, dr)))
                if r < cut:
                    acc = acc + gauss(r, sigma) * cond[n, p]
            out[n, g] = acc
    return out


def random_snaps(nsnap, npart, ndim, tilt):
    lst = []
    for n in range(nsnap):
        L = rng.uniform(4, 6, size=ndim)
        lo = rng.uniform(-1, 1, size=ndim)
        h = np.diag(L)
        if tilt:
            h[1, 0] = tilt * L[0]
            if ndim == 3:
                h[2, 0], h[2, 1] = 0.3 * tilt * L[0], -0.6 * tilt * L[1]
        pos = rng.uniform(0, 1, size=(npart, ndim)) @ h + lo
        lst.append(snapshot(pos, np.column_stack((lo, lo + L)), h, step=n * 5))
    return Snapshots(nsnapshots=nsnap, snapshots=lst)


for ndim, ngrids, tilt in ((2, [4, 3], 0.0), (2, [2, 5], -0.45), (3, [2, 3, 2], 0.0), (3, [3, 2, 4], -0.3), (3, [2, 2, 2], 0.4)):
    snaps = random_snaps(2, 8, ndim, tilt)
    for sigma, cut, ppp in ((2.0, 6.0, np.array([1, 1, 1])), (0.6, 1.0, np.array([1, 0, 1])), (1.5, 0.3, np.array([0, 0, 0]))):
        for rank, shape in (("scalar", (2, 8)), ("vector", (2, 8, 3)), ("tensor", (2, 8, 3, 2))):
            cond = rng.normal(size=shape)
            gpos, gval = gaussian_blurring(snaps, cond, ngrids, sigma, ppp, cut)
            ref = reference_values(snaps, cond, gpos, sigma, ppp, cut)
            tag = f"{ndim}D grids={ngrids} tilt={tilt} sigma={sigma} cut={cut} ppp={list(ppp)} {rank}"
            check(tag, gval.shape == ref.shape and gval.dtype == np.float64
                  and np.allclose(gval, ref, rtol=1e-11, atol=1e-13))
            # x slowest ordering of the grid
            axes = [np.linspace(snaps.snapshots[1].boxbounds[k, 0], snaps.snapshots[1].boxbounds[k, 1], ngrids[k])
                    for k in range(ndim)]
            check(tag + " grid order", np.allclose(gpos[1], list(itertools.product(*axes)), rtol=1e-13, atol=1e-13))

# a cut so small that no particle contributes anywhere -> all zeros, shape kept
snaps = random_snaps(1, 5, 2, 0.0)
gpos, gval = gaussian_blurring(snaps, rng.normal(size=(1, 5, 2, 2)), [3, 3], 1.0, np.array([1, 1]), 1e-9)
check("empty selections give zeros", gval.shape == (1, 9, 2, 2) and not gval.any())

print("failures:", failures)
sys.exit(1 if failures else 0)
