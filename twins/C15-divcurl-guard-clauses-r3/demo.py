"""Demo for the divergence_curl guard-clause refactoring.

Run as: PYTHONPATH=<worktree> /venv/bin/python demo.py [dump.npz]
Builds synthetic 2D / 3D (orthogonal and triclinic, negative tilt) configurations with
unequal coordination numbers and unsorted neighbour-file ids, and compares
PyMatterSim.static.vector.divergence_curl with a straightforward reference.
The optional argument stores the raw library outputs (used for the before/after bit comparison).
"""

import logging
import os
import shutil
import sys
import tempfile

import numpy as np

logging.disable(logging.CRITICAL)

from PyMatterSim.reader.reader_utils import SingleSnapshot  # noqa: E402
from PyMatterSim.static.vector import divergence_curl  # noqa: E402


def make_snapshot(rng, ndim, triclinic, npart):
    if ndim == 3:
        hmatrix = np.diag([7.0, 6.0, 5.5])
        if triclinic:
            hmatrix[1, 0] = -1.3  # negative xy tilt
            hmatrix[2, 0] = 0.8
            hmatrix[2, 1] = -0.6
    else:
        hmatrix = np.diag([8.0, 6.5])
        if triclinic:
            hmatrix[1, 0] = -1.1
    frac = rng.random((npart, ndim))
    positions = frac @ hmatrix
    boxlength = np.diag(hmatrix).copy()
    boxbounds = np.column_stack((np.zeros(ndim), boxlength))
    return SingleSnapshot(
        timestep=0,
        nparticle=npart,
        particle_type=np.ones(npart, dtype=int),
        positions=positions,
        boxlength=boxlength,
        boxbounds=boxbounds,
        realbounds=boxbounds,
        hmatrix=hmatrix,
    )


def make_neighbors(rng, npart, maxcn, filename):
    """unequal coordination numbers (1..maxcn), lines written in shuffled id order"""
    neighbors = []
    for i in range(npart):
        cn = int(rng.integers(1, maxcn + 1))
        others = np.delete(np.arange(npart), i)
        neighbors.append(rng.choice(others, size=cn, replace=False))
    order = rng.permutation(npart)
    with open(filename, "w", encoding="utf-8") as f:
        f.write("id     cn     neighborlist\n")
        for i in order:
            f.write(f"{i + 1} {len(neighbors[i])} " + " ".join(str(j + 1) for j in neighbors[i]) + "\n")
    return neighbors


def reference(snapshot, vector, ppp, neighbors):
    npart, ndim = vector.shape
    hmat = snapshot.hmatrix
    div = np.zeros(npart)
    curl = np.zeros((npart, 3))
    for i in range(npart):
        dsum = 0.0
        csum = np.zeros(3)
        for j in neighbors[i]:
            d = snapshot.positions[j] - snapshot.positions[i]
            s = np.linalg.solve(hmat.T, d)  # fractional coordinates
            s = s - np.rint(s) * ppp
            d = hmat.T @ s
            du = vector[j] - vector[i]
            dsum += float(np.dot(d, du))
            if ndim == 3:
                csum += np.array(
                    [
                        d[1] * du[2] - d[2] * du[1],
                        d[2] * du[0] - d[0] * du[2],
                        d[0] * du[1] - d[1] * du[0],
                    ]
                )
        div[i] = dsum / len(neighbors[i])
        curl[i] = csum / len(neighbors[i])
    return div, curl


def main():
    rng = np.random.default_rng(20240915)
    tmpdir = tempfile.mkdtemp()
    dump = {}
    try:
        case = 0
        for ndim in (2, 3):
            for triclinic in (False, True):
                for ppp in ([1] * ndim, [1, 0, 1][:ndim], [0] * ndim):
                    ppp = np.array(ppp)
                    npart = 23 + case  # not a "nice" number
                    snapshot = make_snapshot(rng, ndim, triclinic, npart)
                    nfile = os.path.join(tmpdir, f"neighbors_{case}.dat")
                    neighbors = make_neighbors(rng, npart, 7, nfile)
                    amat = rng.normal(size=(ndim, ndim))
                    fields = {
                        "random": rng.normal(size=(npart, ndim)),
                        "linear": snapshot.positions @ amat.T,
                        "uniform": np.tile(rng.normal(size=ndim), (npart, 1)),
                        "localised": np.zeros((npart, ndim)),
                    }
                    fields["localised"][npart // 2] = 1.0
                    for name, vector in fields.items():
                        out = divergence_curl(snapshot, vector, ppp, nfile)
                        rdiv, rcurl = reference(snapshot, vector, ppp, neighbors)
                        if ndim == 2:
                            assert isinstance(out, np.ndarray) and out.shape == (npart,), "2D returns divergence only"
                            div = out
                        else:
                            assert isinstance(out, tuple) and len(out) == 2, "3D returns (divergence, curl)"
                            div, curl = out
                            assert curl.shape == (npart, 3)
                            np.testing.assert_allclose(curl, rcurl, rtol=1e-10, atol=1e-10)
                            dump[f"curl_{case}_{name}"] = curl
                        np.testing.assert_allclose(div, rdiv, rtol=1e-10, atol=1e-10)
                        dump[f"div_{case}_{name}"] = div
                        if name == "uniform":
                            assert np.all(div == 0.0)
                            if ndim == 3:
                                assert np.all(curl == 0.0)
                        if name == "linear" and not ppp.any():
                            # no wrapping: u_ij = A r_ij exactly -> analytic neighbour averages
                            for i in range(npart):
                                d = snapshot.positions[neighbors[i]] - snapshot.positions[i]
                                expect = np.mean(np.einsum("na,ab,nb->n", d, amat, d))
                                assert abs(div[i] - expect) < 1e-9
                    case += 1

        # rigid rotation u = w x r without PBC: divergence 0, curl = <w |d|^2 - d (d.w)>
        npart = 31
        snapshot = make_snapshot(rng, 3, True, npart)
        nfile = os.path.join(tmpdir, "neighbors_rot.dat")
        neighbors = make_neighbors(rng, npart, 9, nfile)
        w = np.array([0.3, -1.2, 0.7])
        vector = np.cross(np.tile(w, (npart, 1)), snapshot.positions)
        div, curl = divergence_curl(snapshot, vector, np.array([0, 0, 0]), nfile)
        np.testing.assert_allclose(div, 0.0, atol=1e-10)
        for i in range(npart):
            d = snapshot.positions[neighbors[i]] - snapshot.positions[i]
            expect = (w[np.newaxis, :] * (d * d).sum(axis=1)[:, np.newaxis] - d * (d @ w)[:, np.newaxis]).mean(axis=0)
            np.testing.assert_allclose(curl[i], expect, rtol=1e-9, atol=1e-9)
        dump["rot_div"] = div
        dump["rot_curl"] = curl
    finally:
        shutil.rmtree(tmpdir, ignore_errors=True)

    if len(sys.argv) > 1:
        np.savez(sys.argv[1], **dump)
    print("divergence_curl demo OK:", len(dump), "arrays checked")


if __name__ == "__main__":
    main()
