"""
Demo for the refactoring 'table-dispatch-sph-harm-l'
(if-chain in sph_harm_l -> scan over a module-level tuple of the ten table functions).

sph_harm_l(l, theta, phi) must return the table of the requested degree:
    l in 1..10 -> closed forms SphHarm{l}, order m = -l..l
    l > 10     -> delegated branch SphHarm_above
    otherwise  -> None
Checked against an independent reference Y_lm (associated Legendre recurrence
with Condon-Shortley phase, written below) for many angles, for integer-like
degrees of several scalar kinds.
"""
import math
import sys

import numpy as np

from PyMatterSim.utils import spherical_harmonics as sh


def legendre_plm(l, m, x):
    """associated Legendre P_l^m(x), m >= 0, including Condon-Shortley phase"""
    pmm = 1.0
    if m > 0:
        somx2 = math.sqrt((1.0 - x) * (1.0 + x))
        fact = 1.0
        for _ in range(m):
            pmm *= -fact * somx2
            fact += 2.0
    if l == m:
        return pmm
    pmmp1 = x * (2 * m + 1) * pmm
    if l == m + 1:
        return pmmp1
    pll = 0.0
    for ll in range(m + 2, l + 1):
        pll = (x * (2 * ll - 1) * pmmp1 - (ll + m - 1) * pmm) / (ll - m)
        pmm, pmmp1 = pmmp1, pll
    return pll


def ylm_reference(l, theta, phi):
    """orthonormal Y_lm(polar theta, azimuth phi), m = -l..l"""
    out = np.zeros(2 * l + 1, dtype=complex)
    for m in range(0, l + 1):
        norm = math.sqrt((2 * l + 1) / (4 * math.pi) * math.factorial(l - m) / math.factorial(l + m))
        val = norm * legendre_plm(l, m, math.cos(theta)) * complex(math.cos(m * phi), math.sin(m * phi))
        out[l + m] = val
        out[l - m] = (-1) ** m * val.conjugate()
    return out


def main():
    rng = np.random.default_rng(8)
    angles = [(0.0, 0.0), (math.pi, math.pi), (math.pi / 2, -math.pi / 2), (0.3, -3.0)]
    angles += [(float(t), float(p)) for t, p in zip(rng.uniform(0, np.pi, 25), rng.uniform(-np.pi, np.pi, 25))]
    nfail = 0
    for theta, phi in angles:
        # every degree, closed form and delegated
        for l in list(range(1, 11)) + [11, 12, 16, 20]:
            got = sh.sph_harm_l(l, theta, phi)
            ref = ylm_reference(l, theta, phi)
            if got.shape != (2 * l + 1,) or not np.allclose(got, ref, rtol=1e-9, atol=1e-9):
                print("MISMATCH l=%d theta=%r phi=%r" % (l, theta, phi))
                nfail += 1
            # sum rule and m <-> -m symmetry
            if abs((np.abs(got) ** 2).sum() - (2 * l + 1) / (4 * np.pi)) > 1e-9:
                print("SUM RULE l=%d" % l)
                nfail += 1
            signs = (-1.0) ** np.arange(-l, l + 1)
            if not np.allclose(got[::-1], signs * got.conj(), atol=1e-9):
                print("SYMMETRY l=%d" % l)
                nfail += 1
            # the dispatcher returns exactly what the per-degree function returns
            direct = getattr(sh, "SphHarm%d" % l)(theta, phi) if l <= 10 else sh.SphHarm_above(l, theta, phi)
            if got.tobytes() != direct.tobytes():
                print("DISPATCH differs from direct call l=%d" % l)
                nfail += 1
        # integer-like degrees of other scalar kinds select the same table
        for l in (np.int64(6), np.int32(4), np.uint8(10), 6.0, np.float64(2.0), True, np.int64(12), np.array(3), np.array([7])):
            got = sh.sph_harm_l(l, theta, phi)
            ref = ylm_reference(int(np.asarray(l).reshape(-1)[0]), theta, phi)
            if not np.allclose(got, ref, rtol=1e-9, atol=1e-9):
                print("MISMATCH (scalar kind) l=%r" % (l,))
                nfail += 1
        # degrees without a table give None
        for l in (0, -1, -7, 0.5, 2.5, float("nan")):
            if sh.sph_harm_l(l, theta, phi) is not None:
                print("expected None for l=%r" % (l,))
                nfail += 1
    # a non-integral degree above 10 still ends in the delegated branch (TypeError from range)
    try:
        sh.sph_harm_l(10.5, 0.3, 0.2)
        print("expected TypeError for l=10.5")
        nfail += 1
    except TypeError:
        pass
    if nfail:
        print("FAILED: %d problems" % nfail)
        return 1
    print("OK table-dispatch-sph-harm-l: %d angle pairs" % len(angles))
    return 0


if __name__ == "__main__":
    sys.exit(main())
