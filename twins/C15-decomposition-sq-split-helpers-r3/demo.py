"""Demo for splitting vector_decomposition_sq into private helpers.

Run as: PYTHONPATH=<worktree> /venv/bin/python demo.py [dump.npz]
Synthetic 2D / 3D configurations in non-cubic boxes, several vector fields and wave-vector lists;
the returned tables (and the csv written for outputfile with / without the .csv suffix) are
compared with a direct Fourier sum and projection written here.
"""

import logging
import os
import shutil
import sys
import tempfile

import numpy as np
import pandas as pd

logging.disable(logging.CRITICAL)

from PyMatterSim.reader.reader_utils import SingleSnapshot  # noqa: E402
from PyMatterSim.static.vector import vector_decomposition_sq  # noqa: E402
from PyMatterSim.utils.wavevector import choosewavevector  # noqa: E402


def make_snapshot(rng, ndim, npart):
    boxlength = np.array([9.0, 7.5, 6.0])[:ndim]
    positions = rng.random((npart, ndim)) * boxlength
    boxbounds = np.column_stack((np.zeros(ndim), boxlength))
    return SingleSnapshot(
        timestep=0,
        nparticle=npart,
        particle_type=np.ones(npart, dtype=int),
        positions=positions,
        boxlength=boxlength,
        boxbounds=boxbounds,
        realbounds=boxbounds,
        hmatrix=np.diag(boxlength),
    )


def reference(snapshot, qvector, vector):
    """direct Fourier sum, projection on the unit wave vector and remainder"""
    npart = snapshot.nparticle
    qreal = qvector.astype(float) * (2 * np.pi / snapshot.boxlength)[None, :]
    fft = np.zeros(qreal.shape, dtype=complex)
    for k, q in enumerate(qreal):
        phase = np.exp(-1j * (snapshot.positions @ q))
        fft[k] = (phase[:, None] * vector).sum(axis=0) / np.sqrt(npart)
    qnorm = np.sqrt((qreal**2).sum(axis=1))
    qhat = qreal / qnorm[:, None]
    lpart = qhat * (qhat * fft).sum(axis=1)[:, None]
    tpart = fft - lpart
    return qreal, qnorm, fft, lpart, tpart


def check(snapshot, qvector, vector, outputfile, dump, tag):
    ndim = qvector.shape[1]
    table, ave = vector_decomposition_sq(snapshot, qvector, vector, outputfile=outputfile)
    qreal, qnorm, fft, lpart, tpart = reference(snapshot, qvector, vector)
    nq = qvector.shape[0]

    expected_columns = (
        [f"q{i}" for i in range(ndim)]
        + ["q", "Sq"]
        + [f"FFT{i}" for i in range(ndim)]
        + [f"T_FFT{i}" for i in range(ndim)]
        + ["Sq_T"]
        + [f"L_FFT{i}" for i in range(ndim)]
        + ["Sq_L"]
    )
    assert list(table.columns) == expected_columns, list(table.columns)
    assert len(table) == nq

    tol = 2e-8  # tables are rounded to 8 decimals
    np.testing.assert_allclose(table[[f"q{i}" for i in range(ndim)]].values, qreal, atol=tol)
    np.testing.assert_allclose(table["q"].values, qnorm, atol=tol)
    got_fft = table[[f"FFT{i}" for i in range(ndim)]].values
    got_t = table[[f"T_FFT{i}" for i in range(ndim)]].values
    got_l = table[[f"L_FFT{i}" for i in range(ndim)]].values
    np.testing.assert_allclose(got_fft, fft, atol=tol)
    np.testing.assert_allclose(got_t, tpart, atol=tol)
    np.testing.assert_allclose(got_l, lpart, atol=tol)
    np.testing.assert_allclose(table["Sq"].values, (np.abs(fft) ** 2).sum(axis=1), atol=1e-6)
    np.testing.assert_allclose(table["Sq_T"].values, (np.abs(tpart) ** 2).sum(axis=1), atol=1e-6)
    np.testing.assert_allclose(table["Sq_L"].values, (np.abs(lpart) ** 2).sum(axis=1), atol=1e-6)

    # identities of the property: L + T = FFT, L parallel to q, T orthogonal to q, S = S_L + S_T
    scale = 1.0 + np.abs(got_fft).max()
    np.testing.assert_allclose(got_l + got_t, got_fft, atol=1e-7)
    qhat = qreal / qnorm[:, None]
    assert np.abs((qhat * got_t).sum(axis=1)).max() < 1e-6 * scale
    assert np.abs(got_l - qhat * (qhat * got_l).sum(axis=1)[:, None]).max() < 1e-6 * scale
    np.testing.assert_allclose(table["Sq"].values, table["Sq_L"].values + table["Sq_T"].values, atol=1e-6 * scale**2)

    # averaged table: mean over rows sharing the (rounded) wavenumber, ascending q
    assert list(ave.columns) == ["q", "Sq", "Sq_T", "Sq_L"]
    qs = table["q"].values
    uniq = np.unique(qs)
    np.testing.assert_array_equal(ave["q"].values, uniq)
    for col in ("Sq", "Sq_T", "Sq_L"):
        expect = np.array([table[col].values[qs == u].mean() for u in uniq])
        np.testing.assert_allclose(ave[col].values, expect, rtol=1e-12, atol=1e-12)

    if outputfile:
        written = outputfile if outputfile.endswith(".csv") else outputfile + ".csv"
        assert os.path.isfile(written)
        if written != outputfile:
            assert not os.path.exists(outputfile)
        with open(written, "r", encoding="utf-8") as f:
            text = f.read()
        assert text.splitlines()[0] == "q,Sq,Sq_T,Sq_L"
        back = pd.read_csv(written)
        np.testing.assert_allclose(back.values, ave.values, atol=6e-9)
        dump[f"{tag}_csv"] = np.array(text)

    dump[f"{tag}_table"] = table.values
    dump[f"{tag}_ave"] = ave.values
    dump[f"{tag}_cols"] = np.array(list(table.columns) + list(ave.columns))


def main():
    rng = np.random.default_rng(4242)
    tmpdir = tempfile.mkdtemp()
    dump = {}
    try:
        qlists = {
            2: [
                choosewavevector(2, 6, False),
                np.array([[1, 0], [0, 1], [-1, 0], [0, -1], [1, 1], [-1, 1], [2, -3], [3, 2], [5, 0]]),
                np.array([[0, 2]]),  # single wave vector
            ],
            3: [
                choosewavevector(3, 4, True),
                np.array([[1, 0, 0], [0, -1, 0], [0, 0, 1], [1, -1, 1], [-2, 1, 3], [2, 2, -1], [0, 3, -4]]),
            ],
        }
        case = 0
        for ndim in (2, 3):
            for qvector in qlists[ndim]:
                qvector = qvector[(qvector != 0).any(axis=1)]  # q = 0 has no direction
                assert len(qvector) > 0
                npart = 19 + 7 * case
                snapshot = make_snapshot(rng, ndim, npart)
                localised = np.zeros((npart, ndim))
                localised[5] = rng.normal(size=ndim)
                fields = {
                    "random": rng.normal(size=(npart, ndim)),
                    "linear": (snapshot.positions - snapshot.boxlength / 2) @ rng.normal(size=(ndim, ndim)).T,
                    "uniform": np.tile(rng.normal(size=ndim), (npart, 1)),
                    "localised": localised,
                }
                for k, (name, vector) in enumerate(fields.items()):
                    if k == 0:
                        outputfile = os.path.join(tmpdir, f"spectra_{case}")  # suffix appended
                    elif k == 1:
                        outputfile = os.path.join(tmpdir, f"spectra_{case}.csv")
                    else:
                        outputfile = ""
                    check(snapshot, qvector, vector, outputfile, dump, f"c{case}_{name}")
                # nothing but the requested csv files is written
                assert sorted(os.listdir(tmpdir)) == sorted(f"spectra_{c}.csv" for c in range(case + 1))
                case += 1
    finally:
        shutil.rmtree(tmpdir, ignore_errors=True)

    if len(sys.argv) > 1:
        np.savez(sys.argv[1], **dump)
    print("vector_decomposition_sq demo OK:", len(dump), "objects checked")


if __name__ == "__main__":
    main()
