"""
Demo for the refactoring of PyMatterSim/static/sq.py:conditional_sq (see notes.md).

Synthetic 2D / 3D orthogonal configurations; wavevector lists of 1, 7, 2048, 2049 and
4500 rows (below, at, just above and well above the block length used by the refactored
code, with a remainder block), every kind of condition (boolean selection, float / int /
complex scalar, float vector).  The public conditional_sq is compared, wavevector by
wavevector, with the definition S(q) = |sum_i A_i exp(-i q.r_i)|^2 / N evaluated here
with one matrix product, and the per-|q| average with an explicit average written here.
Exits 0 when everything agrees.
"""
import logging
import sys

import numpy as np

from PyMatterSim.reader.reader_utils import SingleSnapshot
from PyMatterSim.static.sq import conditional_sq

TOL = 5e-8  # the library rounds its tables to 8 decimals


def make_snapshot(rng, n, ndim):
    L = rng.uniform(4.0, 6.0, size=ndim)
    pos = rng.random((n, ndim)) * L
    bounds = np.column_stack([np.zeros(ndim), L])
    return SingleSnapshot(timestep=0, nparticle=n, particle_type=rng.integers(1, 3, n),
                          positions=pos, boxlength=L, boxbounds=bounds,
                          realbounds=bounds, hmatrix=np.diag(L))


def reference(snap, qint, cond):
    """definition, all wavevectors and particles at once"""
    q = qint.astype(float) * (2 * np.pi / snap.boxlength)[None, :]
    if cond.dtype == bool:
        pos, A = snap.positions[cond], np.ones(int(cond.sum()))
    else:
        pos, A = snap.positions, cond
    phase = np.exp(-1j * (q @ pos.T))                      # (nq, N)
    fft = phase @ A / np.sqrt(pos.shape[0])                # (nq,) or (nq, ndim)
    sq = (np.abs(fft)**2).sum(axis=1) if fft.ndim == 2 else np.abs(fft)**2
    return q, fft, sq


def main():
    logging.getLogger("PyMatterSim.static.sq").handlers[:] = []
    logging.getLogger("PyMatterSim.static.sq").addHandler(logging.NullHandler())
    rng = np.random.default_rng(77)
    failures = []

    def check(ok, what):
        if not ok:
            failures.append(what)

    for ndim in (2, 3):
        n = 23
        snap = make_snapshot(rng, n, ndim)
        species = snap.particle_type == 2
        conds = {
            "bool": species,
            "all": np.ones(n, dtype=bool),
            "ones": np.ones(n),
            "float": rng.normal(size=n),
            "int": rng.integers(-2, 3, n),
            "complex": rng.normal(size=n) + 1j * rng.normal(size=n),
            "vector": rng.normal(size=(n, ndim)),
        }
        for nq in (1, 7, 2048, 2049, 4500):
            qint = rng.integers(-7, 8, size=(nq, ndim))
            qint[0] = 0                    # q = 0 included
            if nq > 2100:
                qint[2047:2051] = qint[5:9]    # equal wavevectors on both sides of a block border
            for name, cond in conds.items():
                tag = f"{ndim}D nq={nq} {name}"
                orig = cond.copy()
                table, ave = conditional_sq(snap, qint, cond)
                check(np.array_equal(orig, cond), f"{tag}: input modified")
                q, fft, sq = reference(snap, qint, cond)
                cols = [f"q{i}" for i in range(ndim)] + ["q", "Sq"] + \
                    ([f"FFT{i}" for i in range(ndim)] if name == "vector" else ["FFT"])
                check(list(table.columns) == cols, f"{tag}: columns {list(table.columns)}")
                check(table.shape[0] == nq and list(table.index) == list(range(nq)), f"{tag}: rows")
                check(np.allclose(table[cols[:ndim]].values, q, atol=TOL, rtol=0), f"{tag}: q components")
                check(np.allclose(table["q"].values, np.sqrt((q * q).sum(axis=1)), atol=TOL, rtol=0), f"{tag}: |q|")
                check(np.allclose(table["Sq"].values, sq, atol=TOL, rtol=1e-9), f"{tag}: Sq")
                got_fft = table[cols[ndim + 2:]].values
                got_fft = got_fft if name == "vector" else got_fft[:, 0]
                check(np.allclose(got_fft, fft, atol=2 * TOL, rtol=0), f"{tag}: FFT")
                # per-|q| average: ascending unique |q| (of the rounded table), plain mean of Sq
                keys = table["q"].values
                uniq = np.unique(keys)
                means = np.array([table["Sq"].values[keys == u].mean() for u in uniq])
                check(list(ave.columns) == ["q", "Sq"] and ave.shape[0] == uniq.shape[0]
                      and np.allclose(ave["q"].values, uniq, atol=1e-12, rtol=0)
                      and np.allclose(ave["Sq"].values, means, atol=1e-10, rtol=1e-10), f"{tag}: |q| average")
                if nq > 2100:  # same wavevector, same value, whatever the block
                    check(np.array_equal(table["Sq"].values[2047:2051], table["Sq"].values[5:9]),
                          f"{tag}: equal wavevectors in different blocks differ")
                if name == "all":
                    other = conditional_sq(snap, qint, conds["ones"])[0]
                    check(np.allclose(table["Sq"].values, other["Sq"].values, atol=TOL, rtol=0),
                          f"{tag}: full selection != A = 1")
                    check(abs(table["Sq"].values[0] - n) < TOL, f"{tag}: S(0) != N")
                if name == "vector":
                    comp = sum(conditional_sq(snap, qint, cond[:, k].copy())[0]["Sq"].values for k in range(ndim))
                    check(np.allclose(table["Sq"].values, comp, atol=ndim * TOL, rtol=0), f"{tag}: vector != components")
        # the selection of a species is the partial S_aa of the sub-configuration
        qint = rng.integers(-5, 6, size=(2500, ndim))
        ns = int(species.sum())
        sub = SingleSnapshot(timestep=0, nparticle=ns, particle_type=snap.particle_type[species],
                             positions=snap.positions[species], boxlength=snap.boxlength,
                             boxbounds=snap.boxbounds, realbounds=snap.realbounds, hmatrix=snap.hmatrix)
        a = conditional_sq(snap, qint, species)[0]["Sq"].values
        b = conditional_sq(sub, qint, np.ones(ns))[0]["Sq"].values
        check(np.allclose(a, b, atol=TOL, rtol=0), f"{ndim}D: partial S_aa")
        # empty selection is refused with a division by zero
        try:
            conditional_sq(snap, qint, np.zeros(n, dtype=bool))
            check(False, f"{ndim}D: empty selection accepted")
        except ZeroDivisionError:
            pass
        # empty wavevector list: empty tables
        t0, a0 = conditional_sq(snap, np.zeros((0, ndim), dtype=int), conds["float"])
        check(t0.shape[0] == 0 and a0.shape[0] == 0 and "Sq" in t0.columns, f"{ndim}D: empty wavevector list")

    if failures:
        print("FAILED:")
        for f in failures:
            print("  -", f)
        return 1
    print("demo OK (selected / scalar / vector Fourier sums, wavevector blocks with remainder, per-|q| average)")
    return 0


if __name__ == "__main__":
    sys.exit(main())
