"""Demo for the q8_tetrahedral refactoring (index double loop -> itertools.combinations).

* a diamond lattice (perfect tetrahedral coordination) gives exactly 1 for every atom,
  in an orthogonal box and in an equivalent triclinic box with negative tilt,
  with shuffled particle order;
* random configurations (orthogonal, triclinic, one non-periodic direction, N = 5)
  agree with a brute-force reference  1 - 3/32 sum_{j<k} (cos psi_jk + 1/3)^2
  over the four nearest neighbours.
"""
import os
import shutil
import sys
import tempfile

import numpy as np

from PyMatterSim.reader.reader_utils import SingleSnapshot, Snapshots
from PyMatterSim.static.geometric import q8_tetrahedral


def make_snapshots(positions_list, hmatrix):
    boxlength = np.diag(hmatrix).copy()
    bounds = np.column_stack((np.zeros(3), boxlength))
    frames = []
    for n, pos in enumerate(positions_list):
        npart = pos.shape[0]
        frames.append(SingleSnapshot(
            timestep=n, nparticle=npart, particle_type=np.ones(npart, dtype=int),
            positions=pos, boxlength=boxlength, boxbounds=bounds,
            realbounds=bounds, hmatrix=hmatrix))
    return Snapshots(nsnapshots=len(frames), snapshots=frames)


def diamond(ncell, a):
    basis = np.array([[0, 0, 0], [0, 2, 2], [2, 0, 2], [2, 2, 0],
                      [1, 1, 1], [1, 3, 3], [3, 1, 3], [3, 3, 1]]) / 4.0
    cells = np.array([[i, j, k] for i in range(ncell) for j in range(ncell) for k in range(ncell)])
    return (cells[:, None, :] + basis[None, :, :]).reshape(-1, 3) * a


def reference_q(positions, hmatrix, ppp):
    npart = positions.shape[0]
    q = np.zeros(npart)
    hinv = np.linalg.inv(hmatrix)
    for i in range(npart):
        vecs = []
        for j in range(npart):
            if j == i:
                continue
            s = (positions[j] - positions[i]) @ hinv
            s = s - np.rint(s) * ppp
            vecs.append(s @ hmatrix)
        vecs = np.array(vecs)
        dist = np.sqrt((vecs ** 2).sum(axis=1))
        four = vecs[np.argsort(dist)[:4]]
        unit = four / np.sqrt((four ** 2).sum(axis=1))[:, None]
        total = 0.0
        for j in range(4):
            for k in range(j + 1, 4):
                total += (unit[j] @ unit[k] + 1.0 / 3.0) ** 2
        q[i] = 1.0 - 3.0 / 32.0 * total
    return q


def main():
    rng = np.random.default_rng(4242)
    tmpdir = tempfile.mkdtemp()
    try:
        # ---- perfect tetrahedral coordination -> exactly one
        a = 1.7
        pos = diamond(2, a)
        L = 2 * a
        ortho = np.diag([L, L, L])
        # the same crystal described by a tilted cell (lattice-compatible, negative tilt)
        tric = np.array([[L, 0.0, 0.0], [-a, L, 0.0], [a, -a, L]])
        for name, h in (("diamond-ortho", ortho), ("diamond-triclinic", tric)):
            frames = [pos[rng.permutation(len(pos))] + rng.random(3) for _ in range(2)]
            out = os.path.join(tmpdir, name + ".npy")
            q = q8_tetrahedral(make_snapshots(frames, h), outputfile=out)
            assert q.shape == (2, 64)
            np.testing.assert_allclose(q, 1.0, rtol=0, atol=1e-12, err_msg=name)
            np.testing.assert_array_equal(np.load(out), q)
            print(f"{name}: max |q-1| = {np.abs(q - 1).max():.2e}")

        # ---- random configurations against the brute-force reference
        cases = [
            ("random-ortho", np.diag([4.0, 5.0, 4.5]), np.array([1, 1, 1]), 23),
            ("random-triclinic", np.array([[4.0, 0, 0], [-1.3, 5.0, 0], [0.9, -1.1, 4.5]]), np.array([1, 1, 1]), 23),
            ("random-ppp101", np.diag([4.0, 5.0, 4.5]), np.array([1, 0, 1]), 17),
            ("random-N5", np.diag([3.0, 3.0, 3.0]), np.array([1, 1, 1]), 5),
        ]
        for name, h, ppp, npart in cases:
            frames = [rng.random((npart, 3)) @ h for _ in range(2)]
            q = q8_tetrahedral(make_snapshots(frames, h), ppp=ppp)
            ref = np.array([reference_q(f, h, ppp) for f in frames])
            np.testing.assert_allclose(q, ref, rtol=1e-10, atol=1e-12, err_msg=name)
            print(f"{name}: ok, mean q = {q.mean():.6f}")

        # ---- depends only on the four nearest: moving a far particle (still far) changes nothing for atom 0
        h = np.diag([10.0, 10.0, 10.0])
        base = np.array([[5, 5, 5], [5.5, 5, 5], [5, 5.6, 5], [5, 5, 5.7], [4.4, 4.6, 4.5],
                         [8.0, 8.0, 8.0], [1.0, 2.0, 8.5]], dtype=float)
        moved = base.copy()
        moved[5] = [8.3, 1.7, 2.2]
        qa = q8_tetrahedral(make_snapshots([base], h))[0, 0]
        qb = q8_tetrahedral(make_snapshots([moved], h))[0, 0]
        assert qa == qb
        print("four-nearest dependence: ok")
    finally:
        shutil.rmtree(tmpdir, ignore_errors=True)
    print("demo passed")
    return 0


if __name__ == "__main__":
    sys.exit(main())
