"""Standalone check of PyMatterSim.dynamic.dynamics against a straightforward
reference implementation written here (definitions averaged over all time origins).

FOCUS: cage_relative() now consumes a generator helper (one neighbour-mean per particle index); cases b, c, f use neighbour files with unequal coordination numbers and unsorted ids, plus direct calls on a zero-padded table.

Run as: PYTHONPATH=<worktree> /venv/bin/python demo.py
Exits 0 when every comparison holds.
"""
import logging
import os
import shutil
import sys
import tempfile

import numpy as np
import pandas as pd

logging.disable(logging.CRITICAL)

from PyMatterSim.dynamic.dynamics import Dynamics, LogDynamics, cage_relative  # noqa: E402
from PyMatterSim.reader.reader_utils import SingleSnapshot, Snapshots  # noqa: E402
from PyMatterSim.utils.wavevector import choosewavevector  # noqa: E402

RTOL = 1e-10
FAILS = []


def check(name, got, want, rtol=RTOL, atol=1e-12):
    got = np.asarray(got, dtype=float)
    want = np.asarray(want, dtype=float)
    ok = got.shape == want.shape and np.allclose(got, want, rtol=rtol, atol=atol, equal_nan=True)
    if not ok:
        FAILS.append(name)
        print("FAIL", name)
        print("  got ", got.ravel()[:8])
        print("  want", want.ravel()[:8])
    return ok


# ----------------------------------------------------------------------------
# synthetic trajectories
# ----------------------------------------------------------------------------
def make_hmatrix(ndim, rng, triclinic):
    lengths = rng.uniform(6.0, 8.0, size=ndim)
    h = np.diag(lengths)
    if triclinic:
        if ndim == 2:
            h[1, 0] = -0.9          # negative tilt xy
        else:
            h[1, 0] = -0.9          # xy
            h[2, 0] = 0.7           # xz
            h[2, 1] = -0.5          # yz
    return h, lengths


def wrap(pos, h, ppp):
    """wrap unwrapped positions into the cell along the periodic axes"""
    frac = pos @ np.linalg.inv(h)
    frac = frac - np.floor(frac) * np.asarray(ppp)[np.newaxis, :]
    return frac @ h


def make_traj(T, N, ndim, seed, kind="diffusive", triclinic=False, step=0.08,
              timesteps=None, ppp=None):
    rng = np.random.default_rng(seed)
    h, lengths = make_hmatrix(ndim, rng, triclinic)
    ppp = np.ones(ndim, dtype=int) if ppp is None else np.asarray(ppp)
    types = rng.integers(1, 3, size=N)
    types[0] = 1
    types[-1] = 2
    frac0 = rng.uniform(0, 1, size=(N, ndim))
    pos0 = frac0 @ h
    vel = rng.normal(0, step, size=(N, ndim))
    frames = [pos0]
    for t in range(1, T):
        if kind == "ballistic":
            frames.append(pos0 + vel * t)
        elif kind == "arrested":
            frames.append(pos0 + rng.normal(0, 0.01, size=(N, ndim)))
        elif kind == "mixed":
            move = rng.normal(0, step, size=(N, ndim))
            move[: N // 2] *= 0.05
            frames.append(frames[-1] + move)
        else:
            frames.append(frames[-1] + rng.normal(0, step, size=(N, ndim)))
    if timesteps is None:
        timesteps = [100 + 50 * t for t in range(T)]
    bounds = np.column_stack((np.zeros(ndim), lengths))
    xu, x = [], []
    for t in range(T):
        common = dict(timestep=int(timesteps[t]), nparticle=N, particle_type=types.copy(),
                      boxlength=lengths.copy(), boxbounds=bounds.copy(),
                      realbounds=bounds.copy(), hmatrix=h.copy())
        xu.append(SingleSnapshot(positions=frames[t].copy(), **common))
        x.append(SingleSnapshot(positions=wrap(frames[t], h, ppp), **common))
    return Snapshots(nsnapshots=T, snapshots=xu), Snapshots(nsnapshots=T, snapshots=x), ppp


def write_neighbors(path, T, N, seed, cnmax=5):
    """neighbour file with unequal coordination numbers and unsorted ids;
    returns the python-side lists [frame][particle] -> 0-based neighbour ids"""
    rng = np.random.default_rng(seed)
    table = []
    with open(path, "w", encoding="utf-8") as f:
        for t in range(T):
            f.write("id     cn     neighborlist\n")
            order = rng.permutation(N)
            frame = [None] * N
            for i in order:
                cn = int(rng.integers(1, cnmax + 1))
                others = np.delete(np.arange(N), i)
                nb = rng.choice(others, size=cn, replace=False)
                frame[i] = nb
                f.write("%d %d %s\n" % (i + 1, cn, " ".join(str(j + 1) for j in nb)))
            table.append(frame)
    return table


# ----------------------------------------------------------------------------
# reference implementation
# ----------------------------------------------------------------------------
def ref_displacement(snaps, n0, n1, pbc, ppp, nblist):
    s0 = snaps.snapshots[n0]
    dr = snaps.snapshots[n1].positions - s0.positions
    if pbc:
        frac = dr @ np.linalg.inv(s0.hmatrix)
        frac = frac - np.rint(frac) * np.asarray(ppp)[np.newaxis, :]
        dr = frac @ s0.hmatrix
    if nblist is not None:
        rel = np.empty_like(dr)
        for i in range(dr.shape[0]):
            acc = np.zeros(dr.shape[1])
            for j in nblist[i]:
                acc = acc + dr[j]
            rel[i] = dr[i] - acc / len(nblist[i])
        dr = rel
    return dr


def ref_observables(dr, q, a2, fast):
    d2 = (dr * dr).sum(axis=1)
    isf = float(np.mean([np.cos(q[i] * dr[i, k]) for i in range(dr.shape[0]) for k in range(dr.shape[1])]))
    Q = float(np.mean(d2 > a2)) if fast else float(np.mean(d2 < a2))
    return isf, Q, float(d2.mean()), float((d2 * d2).mean())


def ref_relaxation(snaps, dt, ppp, diam_map, a, fast, pbc, qconst, condition, nbtable, log):
    T = snaps.nsnapshots
    ndim = len(ppp)
    types = snaps.snapshots[0].particle_type
    diam = np.array([diam_map[int(t)] for t in types])
    qall = qconst / diam
    a2all = (a * diam) ** 2
    factor = {3: 3.0 / 5.0, 2: 1.0 / 2.0}[ndim]
    t0 = snaps.snapshots[0].timestep
    rows = []
    for k in range(1, T):
        origins = [0] if log else list(range(0, T - k))
        vals = []
        nsel = len(types)
        for n0 in origins:
            nb = None
            if nbtable is not None:
                nb = nbtable[0] if log else nbtable[n0]
            dr = ref_displacement(snaps, n0, n0 + k, pbc, ppp, nb)
            q, a2 = qall, a2all
            if condition is not None:
                sel = condition if log else condition[n0]
                dr, q, a2 = dr[sel], qall[sel], a2all[sel]
                nsel = int(np.sum(sel))
            vals.append(ref_observables(dr, q, a2, fast))
        vals = np.array(vals)
        isf, Q, r2, r4 = vals.mean(axis=0)
        Q2 = (vals[:, 1] ** 2).mean()
        rows.append([(snaps.snapshots[k].timestep - t0) * dt, isf, Q, Q2, r2, r4, nsel])
    rows = np.array(rows)
    out = pd.DataFrame({"t": rows[:, 0], "isf": rows[:, 1], "Qt": rows[:, 2]})
    # N in chi4: the selection size at frame 0 (the origin of the last processed pair)
    nlast = len(types)
    if condition is not None:
        nlast = int(np.sum(condition if log else condition[0]))
    out["X4_Qt"] = 0.0 if log else (rows[:, 3] - rows[:, 2] ** 2) * nlast
    out["msd"] = rows[:, 4]
    out["alpha2"] = factor * rows[:, 5] / rows[:, 4] ** 2 - 1
    return out


def ref_sq(snapshot, qvector, mask):
    twopidl = 2 * np.pi / snapshot.boxlength
    qv = qvector.astype(float) * twopidl[np.newaxis, :]
    pos = snapshot.positions[mask]
    amp = np.exp(-1j * (qv @ pos.T)).sum(axis=1) / np.sqrt(pos.shape[0])
    df = pd.DataFrame({"q": np.linalg.norm(qv, axis=1), "Sq": (amp * np.conj(amp)).real}).round(8)
    return df["Sq"].groupby(df["q"]).mean().reset_index()


def ref_sq4(snaps, sq_snaps, dt, ppp, diam_map, a, fast, pbc, t, qrange, condition, nbtable):
    T = snaps.nsnapshots
    ndim = len(ppp)
    types = snaps.snapshots[0].particle_type
    diam = np.array([diam_map[int(x)] for x in types])
    a2 = (a * diam) ** 2
    time0 = (snaps.snapshots[1].timestep - snaps.snapshots[0].timestep) * dt
    lag = round(t / time0)
    twopidl = 2 * np.pi / sq_snaps.snapshots[0].boxlength
    numofq = int(qrange * 2.0 / twopidl.min())
    qvector = choosewavevector(ndim=ndim, numofq=numofq, onlypositive=False)
    total = None
    for n0 in range(T - lag):
        nb = None if nbtable is None else nbtable[n0]
        dr = ref_displacement(snaps, n0, n0 + lag, pbc, ppp, nb)
        d2 = (dr * dr).sum(axis=1)
        mask = (d2 > a2) if fast else (d2 < a2)
        if condition is not None:
            mask = np.array([bool(m) and bool(c) for m, c in zip(mask, condition[n0])])
        one = ref_sq(sq_snaps.snapshots[n0], qvector, mask)
        total = one if total is None else total + one
    return total / (T - lag)


# ----------------------------------------------------------------------------
# cases
# ----------------------------------------------------------------------------
COLS = "t isf Qt X4_Qt msd alpha2".split()


def compare_relax(tag, got, want):
    assert list(got.columns) == COLS, (tag, list(got.columns))
    for c in COLS:
        check(f"{tag}:{c}", got[c].values, want[c].values)


def run_case(tmp, tag, T, N, ndim, seed, kind, coords, fast, use_cond, use_nb, triclinic=False,
             a=0.3, qconst=2 * np.pi, diam_map=None, dt=0.002, do_sq4=False, ppp=None):
    diam_map = diam_map or {1: 1.0, 2: 1.3}
    xu, x, ppp = make_traj(T, N, ndim, seed, kind=kind, triclinic=triclinic, ppp=ppp,
                           step=0.3 if fast else 0.08)
    kwargs = dict(dt=dt, ppp=ppp, diameters=diam_map, a=a, cal_type="fast" if fast else "slow")
    if coords == "xu":
        kwargs["xu_snapshots"] = xu
        snaps, sq_snaps, pbc = xu, xu, False
    elif coords == "x":
        kwargs["x_snapshots"] = x
        snaps, sq_snaps, pbc = x, x, True
    else:
        kwargs["xu_snapshots"] = xu
        kwargs["x_snapshots"] = x
        snaps, sq_snaps, pbc = xu, x, False
    nbtable = None
    if use_nb:
        nbfile = os.path.join(tmp, f"nb_{tag}.dat")
        nbtable = write_neighbors(nbfile, T, N, seed + 1)
        kwargs["neighborfile"] = nbfile
        kwargs["max_neighbors"] = 8
    rng = np.random.default_rng(seed + 2)
    condition = None
    if use_cond:
        condition = rng.uniform(size=(T, N)) < 0.6
        condition[:, 0] = True
        condition[:, 1] = True
        # unequal selection sizes from frame to frame
        if T > 2:
            condition[1, 2:] = False
            condition[1, 2: 2 + N // 3] = True

    # linear sampling
    dyn = Dynamics(**kwargs)
    out = os.path.join(tmp, f"relax_{tag}.csv")
    got = dyn.relaxation(qconst=qconst, condition=condition, outputfile=out)
    want = ref_relaxation(snaps, dt, ppp, diam_map, a, fast, pbc, qconst, condition, nbtable, log=False)
    compare_relax(f"{tag}/lin", got, want)
    with open(out, "r", encoding="utf-8") as f:
        lines = f.read().splitlines()
    if lines[0] != "t,isf,Qt,X4_Qt,msd,alpha2" or len(lines) != T:
        FAILS.append(f"{tag}/lin/csv-layout")
    check(f"{tag}/lin/csv", pd.read_csv(out).values, got.values, rtol=1e-13)
    # a second call on the same object gives the same answer
    again = dyn.relaxation(qconst=qconst, condition=condition)
    check(f"{tag}/lin/again", again.values, got.values, rtol=0, atol=0)

    # log sampling (first frame is the only origin)
    logdyn = LogDynamics(**kwargs)
    cond0 = None if condition is None else condition[0]
    outl = os.path.join(tmp, f"logrelax_{tag}.csv")
    gotl = logdyn.relaxation(qconst=qconst, condition=cond0, outputfile=outl)
    wantl = ref_relaxation(snaps, dt, ppp, diam_map, a, fast, pbc, qconst, cond0, nbtable, log=True)
    compare_relax(f"{tag}/log", gotl, wantl)
    with open(outl, "r", encoding="utf-8") as f:
        lines = f.read().splitlines()
    if lines[0] != "t,isf,Qt,X4_Qt,msd,alpha2" or len(lines) != T:
        FAILS.append(f"{tag}/log/csv-layout")
    check(f"{tag}/log/csv", pd.read_csv(outl).values, gotl.values, rtol=1e-13)

    if do_sq4:
        lag = 2 if T > 3 else 1
        t = lag * (snaps.snapshots[1].timestep - snaps.snapshots[0].timestep) * dt
        outs = os.path.join(tmp, f"sq4_{tag}.csv")
        gots = dyn.sq4(t=t, qrange=3.0, condition=condition, outputfile=outs)
        wants = ref_sq4(snaps, sq_snaps, dt, ppp, diam_map, a, fast, pbc, t, 3.0, condition, nbtable)
        assert list(gots.columns) == ["q", "Sq"], list(gots.columns)
        check(f"{tag}/sq4:q", gots["q"].values, wants["q"].values, rtol=1e-9, atol=1e-8)
        check(f"{tag}/sq4:Sq", gots["Sq"].values, wants["Sq"].values, rtol=1e-7, atol=2e-8)
        check(f"{tag}/sq4/csv", pd.read_csv(outs).values, gots.values, rtol=1e-13)
        # integer 0/1 condition is accepted as well as a boolean one
        if condition is not None:
            gots_i = dyn.sq4(t=t, qrange=3.0, condition=condition.astype(int))
            check(f"{tag}/sq4/intcond", gots_i.values, gots.values, rtol=0, atol=0)
    return got, gotl


def main():
    tmp = tempfile.mkdtemp()
    try:
        # cage_relative directly: zero-padded table, unequal coordination numbers
        rng = np.random.default_rng(7)
        for ndim in (2, 3):
            N = 9
            dr = rng.normal(size=(N, ndim))
            cn = rng.integers(1, 5, size=N)
            tab = np.zeros((N, 6), dtype=np.int32)
            tab[:, 0] = cn
            for i in range(N):
                tab[i, 1:cn[i] + 1] = rng.choice(np.delete(np.arange(N), i), size=cn[i], replace=False)
            want = np.array([dr[i] - np.mean([dr[j] for j in tab[i, 1:cn[i] + 1]], axis=0) for i in range(N)])
            got = cage_relative(dr, tab)
            check(f"cage_relative/{ndim}d", got, want)
            if got is dr or got.shape != dr.shape:
                FAILS.append("cage_relative/fresh-array")

        cases = [
            # tag, T, N, ndim, seed, kind, coords, fast, cond, nb, triclinic
            ("a", 6, 14, 3, 11, "diffusive", "xu", False, False, False, False),
            ("b", 5, 13, 2, 12, "mixed", "xu", True, True, True, False),
            ("c", 7, 12, 3, 13, "ballistic", "x", False, True, True, True),
            ("d", 4, 15, 2, 14, "diffusive", "x", True, False, False, True),
            ("e", 5, 12, 3, 15, "diffusive", "both", True, True, False, False),
            ("f", 2, 10, 2, 16, "diffusive", "both", False, False, True, False),
            ("g", 3, 11, 3, 17, "arrested", "x", False, True, False, False),
        ]
        results = {}
        for (tag, T, N, ndim, seed, kind, coords, fast, cond, nb, tri) in cases:
            results[tag] = run_case(tmp, tag, T, N, ndim, seed, kind, coords, fast, cond, nb,
                                    triclinic=tri, a=0.35 if fast else 0.3,
                                    qconst=2 * np.pi if tag != "c" else 5.1,
                                    do_sq4=tag in ("b", "c", "e", "g", "a"))

        # wrapped + periodic flags == unwrapped when no displacement exceeds half a box
        for ndim, seed in ((2, 31), (3, 32)):
            xu, x, ppp = make_traj(6, 12, ndim, seed, kind="diffusive", triclinic=True, step=0.05)
            for cal in ("slow", "fast"):
                r_u = Dynamics(xu_snapshots=xu, ppp=ppp, diameters={1: 1.0, 2: 1.2}, cal_type=cal).relaxation()
                r_w = Dynamics(x_snapshots=x, ppp=ppp, diameters={1: 1.0, 2: 1.2}, cal_type=cal).relaxation()
                check(f"wrap-vs-unwrap/{ndim}d/{cal}", r_w.values, r_u.values, rtol=1e-8, atol=1e-10)
                l_u = LogDynamics(xu_snapshots=xu, ppp=ppp, diameters={1: 1.0, 2: 1.2}, cal_type=cal).relaxation()
                l_w = LogDynamics(x_snapshots=x, ppp=ppp, diameters={1: 1.0, 2: 1.2}, cal_type=cal).relaxation()
                check(f"wrap-vs-unwrap-log/{ndim}d/{cal}", l_w.values, l_u.values, rtol=1e-8, atol=1e-10)

        # any cal_type other than "slow" means fast (documented two-valued option)
        xu, x, ppp = make_traj(4, 10, 3, 41, step=0.25)
        r1 = Dynamics(xu_snapshots=xu, ppp=ppp, cal_type="fast").relaxation()
        r2 = LogDynamics(xu_snapshots=xu, ppp=ppp, cal_type="fast").relaxation()
        if not (r1["Qt"].between(0, 1).all() and r2["Qt"].between(0, 1).all()):
            FAILS.append("fast/range")
        if not (r2["X4_Qt"] == 0).all():
            FAILS.append("log/x4-zero")
        for other in ("FAST", "quick", ""):
            o1 = Dynamics(xu_snapshots=xu, ppp=ppp, cal_type=other)
            check(f"cal_type={other!r}/lin", o1.relaxation().values, r1.values, rtol=0, atol=0)
            check(f"cal_type={other!r}/sq4", o1.sq4(t=o1.time[0], qrange=2.5).values,
                  Dynamics(xu_snapshots=xu, ppp=ppp, cal_type="fast").sq4(t=o1.time[0], qrange=2.5).values,
                  rtol=0, atol=0)
            o2 = LogDynamics(xu_snapshots=xu, ppp=ppp, cal_type=other).relaxation()
            check(f"cal_type={other!r}/log", o2.values, r2.values, rtol=0, atol=0)
        s1 = Dynamics(xu_snapshots=xu, ppp=ppp, cal_type="slow").relaxation()
        if np.array_equal(s1["Qt"].values, r1["Qt"].values):
            FAILS.append("slow-vs-fast/identical")
    finally:
        shutil.rmtree(tmp, ignore_errors=True)

    if FAILS:
        print("FAILED:", FAILS)
        return 1
    print("all checks passed")
    return 0


if __name__ == "__main__":
    sys.exit(main())
