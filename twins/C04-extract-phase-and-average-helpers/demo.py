"""Demo for the helper extraction in static/sq.py (_phase_factors, _mode_product,
sq._average_and_save).

The helpers are reached from every public entry point of the module, so the demo runs
  * sq(...).getresults() for 1, 2, 3, 4, 5 and 6 species in 2D and 3D (default wave vectors,
    explicit wave vectors, csv output with and without the per-vector table), and
  * conditional_sq(...) with a boolean selection, a scalar field and a vector field
and compares every number with a vectorised reference written here.
Exits 0 when everything agrees.
"""
import math
import os
import shutil
import sys
import tempfile

import numpy as np
import pandas as pd

from PyMatterSim.reader.reader_utils import SingleSnapshot, Snapshots
from PyMatterSim.static.sq import conditional_sq, sq
from PyMatterSim.utils.wavevector import choosewavevector

ATOL = 2.0e-6


def make_snapshots(rng, ndim, types, nframes, box):
    box = np.asarray(box, dtype=float)
    n = len(types)
    frames = []
    for t in range(nframes):
        pos = rng.random((n, ndim)) * box * 1.2 - 0.1 * box
        frames.append(SingleSnapshot(
            timestep=t, nparticle=n, particle_type=np.asarray(types), positions=pos,
            boxlength=box, boxbounds=np.column_stack([np.zeros(ndim), box]),
            realbounds=None, hmatrix=np.diag(box)))
    return Snapshots(nsnapshots=nframes, snapshots=frames)


def column_names(nspecies):
    names = ["q", "Sq"] + [f"Sq{a}{a}" for a in range(1, nspecies + 1)]
    names += [f"Sq{a}{b}" for a in range(1, nspecies + 1) for b in range(a + 1, nspecies + 1)]
    return names


def pervector_reference(snaps, nvec, types, nspecies):
    box = snaps.snapshots[0].boxlength
    q = 2 * np.pi * nvec.astype(float) / box[None, :]
    cols = {c: 0.0 for c in column_names(nspecies)}
    cols["q"] = np.sqrt((q * q).sum(axis=1))
    counts = [int(np.sum(types == a)) for a in range(1, nspecies + 1)]
    for s in snaps.snapshots:
        phase = np.exp(-1j * (s.positions @ q.T))
        rho_all = phase.sum(axis=0)
        cols["Sq"] = cols["Sq"] + np.abs(rho_all) ** 2 / len(types) / snaps.nsnapshots
        rho = {a: phase[types == a].sum(axis=0) for a in range(1, nspecies + 1)}
        for a in range(1, nspecies + 1):
            for b in range(a, nspecies + 1):
                norm = math.sqrt(counts[a - 1] * counts[b - 1]) * snaps.nsnapshots
                cols[f"Sq{a}{b}"] = cols[f"Sq{a}{b}"] + (rho[a] * rho[b].conj()).real / norm
    return pd.DataFrame(cols)


def average(df, decimals):
    df = df.round(decimals)
    qr = df["q"].to_numpy()
    keys = np.unique(qr)
    return pd.DataFrame({c: (keys if c == "q" else np.array([df[c].to_numpy()[qr == k].mean() for k in keys]))
                         for c in df.columns})


def main():
    rng = np.random.default_rng(33)
    tmp = tempfile.mkdtemp()
    nrun = 0
    try:
        boxes = {2: [4.9, 6.3], 3: [3.8, 4.6, 5.1]}
        for ndim in (2, 3):
            box = boxes[ndim]
            for nsp in (1, 2, 3, 4, 5, 6):
                types = rng.integers(1, nsp + 1, size=18)
                types[:nsp] = np.arange(nsp, 0, -1)
                nexpect = nsp if 2 <= nsp <= 5 else 0     # 1 or > 5 species: only the total
                names = column_names(nexpect)
                snaps = make_snapshots(rng, ndim, types, 2, box)

                # default wave vectors, csv of the averaged table only
                out = os.path.join(tmp, f"a_{ndim}_{nsp}.csv")
                nvec = choosewavevector(ndim, int(5.0 * 2.0 / (2 * np.pi / np.asarray(box)).min()))
                got = sq(snaps, qrange=5.0, outputfile=out).getresults()
                pervec = pervector_reference(snaps, nvec, types, nexpect)
                exp = average(pervec, 6)
                assert list(got.columns) == names and got.shape == exp.shape, (ndim, nsp)
                np.testing.assert_allclose(got.to_numpy(), exp.to_numpy(), rtol=0, atol=ATOL)
                saved = pd.read_csv(out)
                assert list(saved.columns) == names
                np.testing.assert_allclose(saved.to_numpy(), got.to_numpy(), rtol=0, atol=1e-6)
                assert not os.path.exists(out[:-4] + "_qvectors.csv")

                # no output file at all: nothing is written
                before = sorted(os.listdir(tmp))
                got2 = sq(snaps, qrange=5.0).getresults()
                assert sorted(os.listdir(tmp)) == before
                assert got2.equals(got)

                # explicit vectors, per-vector table + averaged table
                nvec = rng.integers(-4, 5, size=(19, ndim))
                nvec = nvec[(nvec != 0).any(axis=1)]
                out = os.path.join(tmp, f"b_{ndim}_{nsp}.csv")
                got = sq(snaps, qvector=nvec, saveqvectors=True, outputfile=out).getresults()
                pervec = pervector_reference(snaps, nvec, types, nexpect)
                exp = average(pervec, 6)
                assert list(got.columns) == names and got.shape == exp.shape, (ndim, nsp)
                np.testing.assert_allclose(got.to_numpy(), exp.to_numpy(), rtol=0, atol=ATOL)
                saved = pd.read_csv(out[:-4] + "_qvectors.csv")
                assert list(saved.columns) == [f"q{i}" for i in range(ndim)] + names
                np.testing.assert_array_equal(saved.iloc[:, :ndim].to_numpy(), nvec)
                np.testing.assert_allclose(saved.iloc[:, ndim:].to_numpy(), pervec.to_numpy(),
                                           rtol=0, atol=1.1e-6)
                nrun += 3

            # ---------------- conditional_sq: bool / scalar / vector condition
            types = np.array([1, 2] * 8 + [1])
            snaps = make_snapshots(rng, ndim, types, 1, box)
            snap = snaps.snapshots[0]
            n = snap.nparticle
            nvec = rng.integers(-3, 4, size=(15, ndim))
            nvec = nvec[(nvec != 0).any(axis=1)]
            q = 2 * np.pi * nvec.astype(float) / np.asarray(box)[None, :]
            qabs = np.sqrt((q * q).sum(axis=1))
            phase = np.exp(-1j * (snap.positions @ q.T))             # (N, nq)

            cond = rng.random(n) > 0.5
            cond[:2] = [True, False]
            full, ave = conditional_sq(snap, nvec, cond)
            fft = phase[cond].sum(axis=0) / math.sqrt(cond.sum())
            ref = pd.DataFrame({"q": qabs, "Sq": np.abs(fft) ** 2})
            assert list(full.columns) == [f"q{i}" for i in range(ndim)] + ["q", "Sq", "FFT"]
            np.testing.assert_allclose(full.iloc[:, :ndim].to_numpy(), q, rtol=0, atol=1e-8)
            np.testing.assert_allclose(full["Sq"].to_numpy(), ref["Sq"].to_numpy(), rtol=0, atol=1e-8)
            np.testing.assert_allclose(full["FFT"].to_numpy(), fft, rtol=0, atol=1e-8)
            expave = average(ref, 8)
            assert list(ave.columns) == ["q", "Sq"] and ave.shape == expave.shape
            np.testing.assert_allclose(ave.to_numpy(), expave.to_numpy(), rtol=0, atol=2e-8)

            scal = rng.normal(size=n)
            full, ave = conditional_sq(snap, nvec, scal)
            fft = (phase * scal[:, None]).sum(axis=0) / math.sqrt(n)
            ref = pd.DataFrame({"q": qabs, "Sq": np.abs(fft) ** 2})
            np.testing.assert_allclose(full["Sq"].to_numpy(), ref["Sq"].to_numpy(), rtol=0, atol=1e-8)
            np.testing.assert_allclose(full["FFT"].to_numpy(), fft, rtol=0, atol=1e-8)
            np.testing.assert_allclose(ave.to_numpy(), average(ref, 8).to_numpy(), rtol=0, atol=2e-8)

            vec = rng.normal(size=(n, ndim))
            full, ave = conditional_sq(snap, nvec, vec)
            fft = np.einsum("nq,nd->qd", phase, vec) / math.sqrt(n)
            ref = pd.DataFrame({"q": qabs, "Sq": (np.abs(fft) ** 2).sum(axis=1)})
            assert list(full.columns) == [f"q{i}" for i in range(ndim)] + ["q", "Sq"] + \
                [f"FFT{i}" for i in range(ndim)]
            np.testing.assert_allclose(full["Sq"].to_numpy(), ref["Sq"].to_numpy(), rtol=0, atol=1e-8)
            for i in range(ndim):
                np.testing.assert_allclose(full[f"FFT{i}"].to_numpy(), fft[:, i], rtol=0, atol=1e-8)
            np.testing.assert_allclose(ave.to_numpy(), average(ref, 8).to_numpy(), rtol=0, atol=2e-8)
            nrun += 3
    finally:
        shutil.rmtree(tmp)
    print(f"demo OK ({nrun} runs)")
    return 0


if __name__ == "__main__":
    sys.exit(main())
