import logging
import math
import shutil
import sys
import tempfile
import warnings

import numpy as np

logging.disable(logging.CRITICAL)

from PyMatterSim.reader.reader_utils import SingleSnapshot, Snapshots  # noqa: E402
from PyMatterSim.static.gr import conditional_gr, gr  # noqa: E402
from PyMatterSim.static.sq import conditional_sq, sq  # noqa: E402

RTOL = 1e-9
FAILS = []


def check(name, got, want, rtol=RTOL, atol=1e-9):
    got = np.asarray(got)
    want = np.asarray(want)
    ok = got.shape == want.shape and np.allclose(got, want, rtol=rtol, atol=atol, equal_nan=True)
    if not ok:
        err = np.nanmax(np.abs(got - want)) if got.shape == want.shape else "shape %s vs %s" % (got.shape, want.shape)
        FAILS.append(name)
        print("FAIL", name, err)
    else:
        print("ok  ", name)


def make_snapshot(rng, n, ndim, triclinic=False, negtilt=False):
    """random configuration in an orthogonal or triclinic (lower-triangular h-matrix) cell"""
    L = rng.uniform(4.0, 6.0, size=ndim)
    h = np.diag(L)
    if triclinic:
        sgn = -1.0 if negtilt else 1.0
        h[1, 0] = sgn * 0.35 * L[0]
        if ndim == 3:
            h[2, 0] = -sgn * 0.2 * L[0]
            h[2, 1] = sgn * 0.25 * L[1]
    pos = rng.uniform(0, 1, size=(n, ndim)) @ h
    bounds = np.c_[np.zeros(ndim), L]
    ptype = np.array([1, 2] * n)[:n]
    ptype[rng.permutation(n)[: n // 3]] = 2
    return SingleSnapshot(timestep=0, nparticle=n, particle_type=ptype, positions=pos,
                          boxlength=L, boxbounds=bounds, realbounds=bounds, hmatrix=h)


# ---------------------------------------------------------------- references
def pair_weight(A, kind):
    """W_ij = Re(A_i conj A_j); dot product for vectors, trace of the product for tensors"""
    A = np.asarray(A)
    if kind == "bool":
        a = A.astype(float)
        return np.outer(a, a)
    if kind == "scalar":
        return np.real(np.outer(A, np.conj(A)))
    if kind == "vector":
        return np.real(np.einsum("ia,ja->ij", A, np.conj(A)))
    if kind == "tensor":
        return np.real(np.einsum("iab,jba->ij", A, A))
    raise ValueError(kind)


def ref_gr(snap, A, kind, ppp, rdelta):
    """brute force O(N^2) weighted pair histogram with the documented normalisation"""
    n, ndim = snap.positions.shape
    V = float(np.prod(snap.boxlength))
    maxbin = int(snap.boxlength.min() / 2.0 / rdelta)
    edges = np.linspace(0.0, maxbin * rdelta, maxbin + 1)
    W = pair_weight(A, kind)
    cnt = np.zeros(maxbin)
    wsum = np.zeros(maxbin)
    hinv = np.linalg.inv(snap.hmatrix)
    for i in range(n):
        for j in range(i + 1, n):
            s = (snap.positions[j] - snap.positions[i]) @ hinv
            s = s - np.floor(s + 0.5) * np.asarray(ppp)
            d = math.sqrt(float(np.sum((s @ snap.hmatrix) ** 2)))
            k = int(np.searchsorted(edges, d, side="right")) - 1
            if d == edges[-1]:
                k = maxbin - 1
            if 0 <= k < maxbin:
                cnt[k] += 1.0
                wsum[k] += W[i, j]
    fac = {2: 1.0, 3: 4.0 / 3.0}[ndim]
    shell = fac * math.pi * (edges[1:] ** ndim - edges[:-1] ** ndim)
    nsel = float(np.sum(A)) if kind == "bool" else float(n)
    out = {
        "r": edges[1:] - 0.5 * rdelta,
        "gr": 2.0 * cnt / n / (shell * n / V),
        "gA": 2.0 * wsum / nsel / (shell * nsel / V),
    }
    if kind == "scalar" and not np.iscomplexobj(A):
        m1 = float(np.mean(A)) ** 2
        m2 = float(np.mean(np.asarray(A, dtype=float) ** 2))
        with np.errstate(all="ignore"):
            out["gA_norm"] = (out["gA"] - m1) / (m2 - m1)
    return out


def ref_sq(snap, qint, A, kind):
    """|sum_i A_i exp(-i q.r_i)|^2 / N and the Fourier amplitudes themselves"""
    q = qint.astype(float) * (2.0 * math.pi / snap.boxlength)[None, :]
    phase = np.exp(-1j * (q @ snap.positions.T))  # (nq, N)
    if kind == "bool":
        amp = phase[:, A].sum(axis=1) / math.sqrt(int(A.sum()))
        S = np.abs(amp) ** 2
    elif kind == "scalar":
        amp = (phase * np.asarray(A)[None, :]).sum(axis=1) / math.sqrt(snap.nparticle)
        S = np.abs(amp) ** 2
    else:
        amp = phase @ np.asarray(A) / math.sqrt(snap.nparticle)  # (nq, ncomp)
        S = (np.abs(amp) ** 2).sum(axis=1)
    return q, np.sqrt((q ** 2).sum(axis=1)), amp, S


def ref_average(qnorm, S):
    """mean of S (rounded to 8 decimals like the library output) over equal rounded |q|"""
    qr = np.round(qnorm, 8)
    Sr = np.round(S, 8)
    uq = np.unique(qr)
    return uq, np.array([Sr[qr == u].mean() for u in uq])


def check_gr(tag, snap, A, kind, ppp, rdelta, conditiontype=None):
    with warnings.catch_warnings():
        warnings.simplefilter("ignore")
        df = conditional_gr(snap, np.asarray(A), conditiontype, ppp, rdelta)
    ref = ref_gr(snap, A, kind, ppp, rdelta)
    cols = ["r", "gr", "gA"] + (["gA_norm"] if "gA_norm" in ref else [])
    assert list(df.columns) == cols, (tag, list(df.columns), cols)
    for c in cols:
        check(f"{tag}:{c}", df[c].values, ref[c])
    return df


def check_sq(tag, snap, qint, A, kind):
    full, ave = conditional_sq(snap, qint, np.asarray(A))
    q, qn, amp, S = ref_sq(snap, qint, A, kind)
    ndim = q.shape[1]
    check(f"{tag}:qvec", full[[f"q{i}" for i in range(ndim)]].values, q, atol=2e-8)
    check(f"{tag}:q", full["q"].values, qn, atol=2e-8)
    check(f"{tag}:Sq", full["Sq"].values, S, atol=2e-8)
    if kind == "vector":
        cols = [f"FFT{i}" for i in range(amp.shape[1])]
        check(f"{tag}:FFT", full[cols].values, amp, atol=2e-8)
    else:
        check(f"{tag}:FFT", full["FFT"].values, amp, atol=2e-8)
    uq, Sm = ref_average(qn, S)
    check(f"{tag}:ave-q", ave["q"].values, uq, atol=2e-8)
    check(f"{tag}:ave-Sq", ave["Sq"].values, Sm, atol=3e-8)
    return full, ave


def finish(tmpdir):
    shutil.rmtree(tmpdir, ignore_errors=True)
    if FAILS:
        print("FAILED:", FAILS)
        sys.exit(1)
    print("all checks passed")
    sys.exit(0)


# ---------------------------------------------------------------- demo proper
# exercises: the tensor branch of conditional_gr (weights trace(A_i A_j) for all j > i)
def main():
    tmpdir = tempfile.mkdtemp()
    rng = np.random.default_rng(5)
    geoms = [
        ("3D-ortho", 3, False, False, [1, 1, 1]),
        ("3D-tri", 3, True, False, [1, 1, 1]),
        ("3D-negtilt-ppp110", 3, True, True, [1, 1, 0]),
        ("2D-ortho", 2, False, False, [1, 1]),
        ("2D-negtilt", 2, True, True, [1, 1]),
    ]
    for tag, ndim, tri, neg, ppp in geoms:
        n = 35
        rdelta = float(rng.choice([0.07, 0.13, 0.31]))
        snap = make_snapshot(rng, n, ndim, tri, neg)
        ppp = np.array(ppp)
        t = rng.normal(size=(n, ndim, ndim))
        sym = t + t.transpose(0, 2, 1)
        # symmetric tensors (the documented use: nematic Q tensor), general tensors,
        # non-contiguous views, integer tensors
        dfs = check_gr(f"{tag}/symmetric", snap, sym, "tensor", ppp, rdelta, "tensor")
        assert list(dfs.columns) == ["r", "gr", "gA"]
        check_gr(f"{tag}/general", snap, t, "tensor", ppp, rdelta, "tensor")
        check_gr(f"{tag}/transposed-view", snap, t.transpose(0, 2, 1), "tensor", ppp, rdelta, "tensor")
        check_gr(f"{tag}/integer", snap, rng.integers(-3, 4, size=(n, ndim, ndim)), "tensor", ppp, rdelta, "tensor")
        # traceless symmetric Q = u u^T - 1/d: trace(Q_i Q_j) = (u_i.u_j)^2 - 1/d
        u = rng.normal(size=(n, ndim))
        u /= np.sqrt((u * u).sum(axis=1))[:, None]
        Q = u[:, :, None] * u[:, None, :] - np.eye(ndim)[None] / ndim
        dfq = check_gr(f"{tag}/Q-tensor", snap, Q, "tensor", ppp, rdelta, "tensor")
        # identity tensors: trace(1 1) = d, so gA = d * g(r)
        eye = np.repeat(np.eye(ndim)[None], n, axis=0)
        dfi = check_gr(f"{tag}/identity", snap, eye, "tensor", ppp, rdelta, "tensor")
        check(f"{tag}/identity gA==d*gr", dfi["gA"].values, ndim * dfi["gr"].values)
        # diagonal tensors diag(a): trace = a_i . a_j, i.e. the vector correlation of a
        a = rng.normal(size=(n, ndim))
        diag = np.zeros((n, ndim, ndim))
        for k in range(ndim):
            diag[:, k, k] = a[:, k]
        dfd = check_gr(f"{tag}/diagonal", snap, diag, "tensor", ppp, rdelta, "tensor")
        dfv = conditional_gr(snap, a, "vector", ppp, rdelta)
        check(f"{tag}/diagonal==vector", dfd["gA"].values, dfv["gA"].values)
        # the other branches are untouched
        check_gr(f"{tag}/vector", snap, a, "vector", ppp, rdelta, "vector")
        check_gr(f"{tag}/float", snap, a[:, 0].copy(), "scalar", ppp, rdelta)
        check_gr(f"{tag}/bool", snap, snap.particle_type == 2, "bool", ppp, rdelta)
        # inputs are not modified
        sym0 = sym.copy()
        conditional_gr(snap, sym, "tensor", ppp, rdelta)
        assert np.array_equal(sym, sym0)
    # smallest systems: 2 particles (one pair, one j per i) and 3 particles
    for n in (2, 3):
        for ndim in (2, 3):
            s2 = make_snapshot(rng, n, ndim, True)
            t = rng.normal(size=(n, ndim, ndim))
            check_gr(f"n{n}-{ndim}D/tensor", s2, t + t.transpose(0, 2, 1), "tensor", np.ones(ndim, dtype=int), 0.4, "tensor")
    finish(tmpdir)


if __name__ == "__main__":
    main()
