"""Demo for the purely syntactic refactoring of sq.__init__, sq.getresults, sq.unary, sq.binary.

Synthetic 2D / 3D trajectories in orthogonal boxes with unequal edges are analysed with the
public class PyMatterSim.static.sq.sq and compared with an independent, fully vectorised
reference implementation of the density-mode definition written below.
Exits 0 when everything agrees.
"""
import os
import shutil
import sys
import tempfile

import numpy as np
import pandas as pd

from PyMatterSim.reader.reader_utils import SingleSnapshot, Snapshots
from PyMatterSim.static.sq import sq

ATOL = 2.0e-6  # per-vector values are rounded to 1e-6 by the library


def make_snapshots(rng, ndim, types, nframes, box):
    box = np.asarray(box, dtype=float)
    n = len(types)
    frames = []
    for t in range(nframes):
        pos = rng.random((n, ndim)) * box * 1.2 - 0.1 * box
        frames.append(SingleSnapshot(
            timestep=t, nparticle=n, particle_type=np.asarray(types), positions=pos,
            boxlength=box, boxbounds=np.column_stack([np.zeros(ndim), box]),
            realbounds=None, hmatrix=np.diag(box)))
    return Snapshots(nsnapshots=nframes, snapshots=frames)


def default_vectors(ndim, box, qrange, onlypositive):
    """all non-zero integer vectors in [-nhalf, nhalf)^ndim with integer norm"""
    numofq = int(qrange * 2.0 / (2 * np.pi / np.asarray(box)).min())
    nhalf = int(numofq / 2)
    axes = [np.arange(-nhalf, nhalf)] * ndim
    grid = np.stack(np.meshgrid(*axes, indexing="ij"), axis=-1).reshape(-1, ndim)
    n2 = (grid.astype(np.int64) ** 2).sum(axis=1)
    root = np.rint(np.sqrt(n2)).astype(np.int64)
    grid = grid[(root * root == n2) & (n2 > 0)]
    if onlypositive:
        grid = grid[(grid >= 0).all(axis=1)]
    return grid


def reference(snaps, nvec, groups):
    """groups: dict label -> boolean mask of the particles of that species"""
    box = snaps.snapshots[0].boxlength
    q = 2 * np.pi * nvec.astype(float) / box[None, :]
    qabs = np.sqrt((q * q).sum(axis=1))
    labels = list(groups)
    cols = {"Sq": 0.0}
    for a in labels:
        cols[f"Sq{a}{a}"] = 0.0
    for ia, a in enumerate(labels):
        for b in labels[ia + 1:]:
            cols[f"Sq{a}{b}"] = 0.0
    for s in snaps.snapshots:
        phase = np.exp(-1j * (s.positions @ q.T))          # (N, nq)
        rho_all = phase.sum(axis=0)
        rho = {a: phase[m].sum(axis=0) for a, m in groups.items()}
        cols["Sq"] = cols["Sq"] + (rho_all * rho_all.conj()).real / len(s.positions)
        for ia, a in enumerate(labels):
            na = groups[a].sum()
            cols[f"Sq{a}{a}"] = cols[f"Sq{a}{a}"] + (rho[a] * rho[a].conj()).real / na
            for b in labels[ia + 1:]:
                nb = groups[b].sum()
                cols[f"Sq{a}{b}"] = cols[f"Sq{a}{b}"] + \
                    (rho[a] * rho[b].conj()).real / np.sqrt(float(na) * float(nb))
    df = pd.DataFrame({"q": qabs, **{k: v / snaps.nsnapshots for k, v in cols.items()}})
    df = df.round(6)
    keys = np.unique(df["q"].to_numpy())
    out = {"q": keys}
    for c in df.columns[1:]:
        out[c] = np.array([df[c].to_numpy()[df["q"].to_numpy() == k].mean() for k in keys])
    return pd.DataFrame(out)


def check(name, got, exp, columns):
    assert list(got.columns) == columns, (name, list(got.columns))
    assert len(got) == len(exp), (name, len(got), len(exp))
    np.testing.assert_allclose(got["q"].to_numpy(), exp["q"].to_numpy(), rtol=0, atol=1e-9, err_msg=name)
    for c in columns[1:]:
        np.testing.assert_allclose(got[c].to_numpy(), exp[c].to_numpy(), rtol=0, atol=ATOL,
                                   err_msg=f"{name}:{c}")
    for c in columns[1:]:
        if len(c) == 2 or c[2] == c[3]:
            assert (got[c].to_numpy() >= 0).all(), (name, c)


def main():
    rng = np.random.default_rng(11)
    tmp = tempfile.mkdtemp()
    try:
        boxes = {2: [6.1, 4.3], 3: [4.4, 5.2, 3.9]}
        for ndim in (2, 3):
            box = boxes[ndim]
            # ---------- unary, default wave vectors, 1 and 3 frames
            for nframes in (1, 3):
                types = np.ones(19, dtype=int)
                snaps = make_snapshots(rng, ndim, types, nframes, box)
                for onlypositive in (False, True):
                    calc = sq(snaps, qrange=6.0, onlypositive=onlypositive)
                    nvec = default_vectors(ndim, box, 6.0, onlypositive)
                    assert sorted(map(tuple, calc.df_qvector.to_numpy())) == sorted(map(tuple, nvec))
                    got = calc.getresults()
                    exp = reference(snaps, nvec, {})
                    check(f"unary d{ndim} f{nframes} pos{onlypositive}", got, exp, ["q", "Sq"])

            # ---------- more than five species: only the total is returned
            types = np.array([1, 2, 3, 4, 5, 6, 6, 5, 4, 3, 2, 1, 1])
            snaps = make_snapshots(rng, ndim, types, 2, box)
            nvec = default_vectors(ndim, box, 5.0, False)
            got = sq(snaps, qrange=5.0).getresults()
            check(f"six species d{ndim}", got, reference(snaps, nvec, {}), ["q", "Sq"])

            # ---------- binary, unsorted types, unequal composition, default + explicit vectors
            types = np.array([2, 1, 1, 2, 2, 2, 1, 2, 2, 1, 2, 2, 2, 1, 2, 2, 2])
            snaps = make_snapshots(rng, ndim, types, 3, box)
            groups = {"1": types == 1, "2": types == 2}
            columns = ["q", "Sq", "Sq11", "Sq22", "Sq12"]
            for onlypositive in (False, True):
                nvec = default_vectors(ndim, box, 5.5, onlypositive)
                got = sq(snaps, qrange=5.5, onlypositive=onlypositive).getresults()
                exp = reference(snaps, nvec, groups)
                check(f"binary d{ndim} pos{onlypositive}", got, exp, columns)
                n1, n2, n = groups["1"].sum(), groups["2"].sum(), len(types)
                total = (n1 * got["Sq11"] + n2 * got["Sq22"] + 2 * np.sqrt(n1 * n2) * got["Sq12"]) / n
                np.testing.assert_allclose(total, got["Sq"], rtol=0, atol=5e-6)

            nvec = rng.integers(-5, 6, size=(25, ndim))
            nvec = nvec[(nvec != 0).any(axis=1)]
            out = os.path.join(tmp, f"binary{ndim}.csv")
            got = sq(snaps, qvector=nvec, saveqvectors=True, outputfile=out).getresults()
            exp = reference(snaps, nvec, groups)
            check(f"binary explicit d{ndim}", got, exp, columns)
            fromfile = pd.read_csv(out)
            assert list(fromfile.columns) == columns
            np.testing.assert_allclose(fromfile.to_numpy(), got.to_numpy(), rtol=0, atol=1e-6)
            pervec = pd.read_csv(out[:-4] + "_qvectors.csv")
            assert list(pervec.columns) == [f"q{i}" for i in range(ndim)] + columns
            np.testing.assert_array_equal(pervec.iloc[:, :ndim].to_numpy(), nvec)

            # ---------- binary with ids (1, 3): everything that is not 1 is the second species
            types = np.array([3, 1, 3, 3, 1, 3, 1, 3, 3, 3, 1])
            snaps = make_snapshots(rng, ndim, types, 2, box)
            groups = {"1": types == 1, "2": types == 3}
            nvec = default_vectors(ndim, box, 5.0, False)
            got = sq(snaps, qrange=5.0).getresults()
            check(f"binary ids13 d{ndim}", got, reference(snaps, nvec, groups), columns)
    finally:
        shutil.rmtree(tmp)
    print("demo OK")
    return 0


if __name__ == "__main__":
    sys.exit(main())
