"""Demo for the numpy-idiom rewrite in static/pairentropy.py:S2.particle_s2
(np.delete(..., i) -> boolean "everything except i" mask).

The particle-level g(r) and S2 returned by the public S2 class are compared with a
plain double-loop reference implementation written here (2D and 3D, orthogonal and
triclinic cells with negative tilt, unary and binary mixtures with type-pair sigmas,
particles stored in arbitrary periodic images).  Exit code 0 on success.
"""

import logging
import os
import shutil
import sys
import tempfile

import numpy as np

from PyMatterSim.reader.reader_utils import SingleSnapshot, Snapshots
from PyMatterSim.static.pairentropy import S2

logging.disable(logging.CRITICAL)


def ref_min_image(vec, hmatrix, ppp):
    frac = np.linalg.solve(hmatrix.T, vec)
    out = np.zeros(len(vec))
    for k in range(len(vec)):
        f = frac[k]
        if ppp[k]:
            f = f - np.rint(f)
        out += f * hmatrix[k]
    return out


def make_snapshot(rng, nparticle, hmatrix, ntypes):
    ndim = hmatrix.shape[0]
    # mildly jittered random points, shifted by random whole cell vectors
    frac = rng.uniform(0, 1, size=(nparticle, ndim)) + rng.integers(-2, 3, size=(nparticle, ndim))
    positions = frac @ hmatrix
    particle_type = (np.arange(nparticle) % ntypes + 1).astype(int)
    rng.shuffle(particle_type)
    boxlength = np.diag(hmatrix).copy()
    boxbounds = np.c_[np.zeros(ndim), boxlength]
    return SingleSnapshot(
        timestep=0, nparticle=nparticle, particle_type=particle_type, positions=positions,
        boxlength=boxlength, boxbounds=boxbounds, realbounds=boxbounds, hmatrix=hmatrix,
    )


def ref_particle_s2(snapshots, sigmas, ppp, rdelta, ndelta):
    ndim = len(ppp)
    nparticle = snapshots.snapshots[0].nparticle
    rho = nparticle / np.prod(snapshots.snapshots[0].boxlength)
    bins = (np.arange(ndelta) + 0.5) * rdelta
    rmax = bins.max()
    s2 = np.zeros((snapshots.nsnapshots, nparticle))
    grs = np.zeros((snapshots.nsnapshots, nparticle, ndelta))
    for n, snap in enumerate(snapshots.snapshots):
        for i in range(nparticle):
            g = np.zeros(ndelta)
            for j in range(nparticle):
                if j == i:
                    continue
                d = np.linalg.norm(ref_min_image(snap.positions[j] - snap.positions[i], snap.hmatrix, ppp))
                if d < rmax:
                    sigma = sigmas[snap.particle_type[i] - 1, snap.particle_type[j] - 1]
                    g += np.exp(-(bins - d) ** 2 / (2 * sigma**2)) / np.sqrt(2 * np.pi * sigma**2)
            shell = 2 * np.pi * bins if ndim == 2 else 4 * np.pi * bins**2
            g = g / (shell * rho)
            grs[n, i] = g
            y = (g * np.log(g) - g + 1) * bins ** (ndim - 1)
            integral = np.sum(0.5 * (y[1:] + y[:-1]) * np.diff(bins))
            s2[n, i] = -(ndim - 1) * np.pi * rho * integral
    return s2, grs


CASES = [
    # name, hmatrix, ntypes, sigmas, rdelta, ndelta
    ("3d-ortho-unary", np.diag([4.0, 4.5, 5.0]), 1, np.array([[0.35]]), 0.05, 38),
    ("3d-triclinic-binary", np.array([[4.0, 0.0, 0.0], [-0.9, 4.5, 0.0], [0.6, -0.7, 5.0]]), 2,
     np.array([[0.30, 0.36], [0.36, 0.42]]), 0.04, 45),
    ("2d-ortho-binary", np.diag([6.0, 5.0]), 2, np.array([[0.30, 0.33], [0.33, 0.40]]), 0.05, 47),
    ("2d-triclinic-unary", np.array([[6.0, 0.0], [-1.5, 5.0]]), 1, np.array([[0.32]]), 0.03, 70),
]


def main():
    rng = np.random.default_rng(7)
    tmpdir = tempfile.mkdtemp()
    cwd = os.getcwd()
    try:
        os.chdir(tmpdir)  # savegr=True writes 'particle_gr.<outputfile>' relative to cwd
        for name, hmatrix, ntypes, sigmas, rdelta, ndelta in CASES:
            ndim = hmatrix.shape[0]
            ppp = np.ones(ndim, dtype=int)
            nparticle = 30 if ndim == 3 else 24
            snaps = [make_snapshot(rng, nparticle, hmatrix, ntypes) for _ in range(2)]
            snaps[1] = SingleSnapshot(**{**snaps[1].__dict__, "particle_type": snaps[0].particle_type})
            snapshots = Snapshots(nsnapshots=2, snapshots=snaps)

            want_s2, want_gr = ref_particle_s2(snapshots, sigmas, ppp, rdelta, ndelta)
            assert np.isfinite(want_s2).all(), name

            calc = S2(snapshots, sigmas=sigmas, ppp=ppp, rdelta=rdelta, ndelta=ndelta)
            got_s2 = calc.particle_s2()
            assert got_s2.shape == want_s2.shape
            assert np.allclose(got_s2, want_s2, rtol=1e-10, atol=1e-12), (name, np.abs(got_s2 - want_s2).max())

            calc = S2(snapshots, sigmas=sigmas, ppp=ppp, rdelta=rdelta, ndelta=ndelta)
            got_s2b, got_gr = calc.particle_s2(savegr=True, outputfile=f"s2_{name}.npy")
            assert np.array_equal(got_s2, got_s2b)
            assert np.allclose(got_gr, want_gr, rtol=1e-10, atol=1e-13), name
            assert np.array_equal(np.load(f"s2_{name}.npy"), got_s2)
            assert np.array_equal(np.load(f"particle_gr.s2_{name}.npy"), got_gr)

            # inputs must not be modified by the call
            for s in snaps:
                assert s.positions.shape == (nparticle, ndim)
                assert s.particle_type.shape == (nparticle,)

            # relabelling particles permutes the per-particle output accordingly
            perm = rng.permutation(nparticle)
            snaps_p = [SingleSnapshot(**{**s.__dict__, "positions": s.positions[perm],
                                         "particle_type": s.particle_type[perm]}) for s in snaps]
            calc = S2(Snapshots(nsnapshots=2, snapshots=snaps_p), sigmas=sigmas, ppp=ppp,
                      rdelta=rdelta, ndelta=ndelta)
            assert np.allclose(calc.particle_s2(), got_s2[:, perm], rtol=1e-9, atol=1e-12), name
    finally:
        os.chdir(cwd)
        shutil.rmtree(tmpdir, ignore_errors=True)
    print("OK")
    return 0


if __name__ == "__main__":
    sys.exit(main())
