"""Twin demo for the helper extraction in boo_2d.time_average (_window_average, _from_modulus_phase).

Standalone demo: builds small synthetic 2D trajectories (orthogonal box,
triclinic box with negative tilt, perfect lattices, random configurations with
unequal coordination numbers, unsorted ids in the neighbour / weight files,
signed weights), runs the public boo_2d API and utils.coarse_graining.time_average
and compares every returned quantity with a straightforward reference
implementation written here.  Exits 0 when everything agrees.
"""
import os
import shutil
import sys
import tempfile
import warnings

import numpy as np

from PyMatterSim.reader.reader_utils import SingleSnapshot, Snapshots
from PyMatterSim.static.boo import boo_2d
from PyMatterSim.utils.coarse_graining import time_average as utils_time_average

TOL = 1e-10
NCHECK = [0]


def check(ok, msg):
    NCHECK[0] += 1
    if not ok:
        print("FAIL:", msg)
        sys.exit(1)


def close(a, b, msg, tol=TOL):
    a = np.asarray(a)
    b = np.asarray(b)
    check(a.shape == b.shape, f"{msg}: shape {a.shape} vs {b.shape}")
    if a.size:
        err = np.max(np.abs(a - b))
        check(bool(err <= tol), f"{msg}: max abs err {err:.3e}")


# ----------------------------------------------------------------------------
# synthetic systems
# ----------------------------------------------------------------------------
def make_snapshots(frames, hmatrix, step=100):
    hmatrix = np.asarray(hmatrix, dtype=float)
    boxlength = np.array([hmatrix[0, 0], hmatrix[1, 1]])
    snaps = []
    for n, pos in enumerate(frames):
        snaps.append(SingleSnapshot(
            timestep=n * step,
            nparticle=pos.shape[0],
            particle_type=np.ones(pos.shape[0], dtype=int),
            positions=np.asarray(pos, dtype=float),
            boxlength=boxlength,
            boxbounds=np.array([[0.0, boxlength[0]], [0.0, boxlength[1]]]),
            realbounds=np.array([[0.0, boxlength[0]], [0.0, boxlength[1]]]),
            hmatrix=hmatrix))
    return Snapshots(nsnapshots=len(snaps), snapshots=snaps)


def images(hmatrix, periodic=True):
    if not periodic:
        return np.zeros((1, 2))
    return np.array([a * hmatrix[0] + b * hmatrix[1]
                     for a in (-1, 0, 1) for b in (-1, 0, 1)])


def min_image(d, hmatrix, periodic=True):
    """brute force: the shortest of the 9 periodic images of vector d"""
    cand = d[np.newaxis, :] + images(hmatrix, periodic)
    return cand[np.argmin((cand ** 2).sum(axis=1))]


def knn_table(pos, hmatrix, cns, periodic=True):
    """neighbour ids (0-based) of every particle: its cns[i] nearest particles"""
    table = []
    for i in range(pos.shape[0]):
        dist = np.array([np.hypot(*min_image(pos[j] - pos[i], hmatrix, periodic))
                         for j in range(pos.shape[0])])
        dist[i] = np.inf
        table.append([int(j) for j in np.argsort(dist, kind="stable")[:cns[i]]])
    return table


def write_tables(path, tables, header, offset, rng, fmt):
    """one block per frame; particle lines are written in a shuffled id order"""
    with open(path, "w", encoding="utf-8") as f:
        for table in tables:
            f.write(header + "\n")
            for i in rng.permutation(len(table)):
                row = table[i]
                f.write(f"{i + 1} {len(row)} " + " ".join(fmt(v + offset) for v in row) + "\n")


# ----------------------------------------------------------------------------
# reference implementations
# ----------------------------------------------------------------------------
def ref_phi(frames, hmatrix, tables, l, wtables=None, periodic=True):
    out = np.zeros((len(frames), frames[0].shape[0]), dtype=complex)
    for n, pos in enumerate(frames):
        for i, row in enumerate(tables[n]):
            acc = 0j
            for k, j in enumerate(row):
                d = min_image(pos[j] - pos[i], hmatrix, periodic)
                e = complex(np.cos(l * np.arctan2(d[1], d[0])), np.sin(l * np.arctan2(d[1], d[0])))
                acc += e if wtables is None else wtables[n][i][k] * e
            if wtables is None:
                out[n, i] = acc / len(row)
            else:
                out[n, i] = acc / sum(abs(w) for w in wtables[n][i])
    return out


def ref_time_average(prop, nwin):
    nout = prop.shape[0] - nwin
    res = np.zeros((nout, prop.shape[1]), dtype=complex)
    for n in range(nout):
        for k in range(nwin):
            res[n] += prop[n + k]
        res[n] /= nwin
    return res, np.array([n + nwin // 2 for n in range(nout)])


def ref_spatial(frames, hmatrix, phi, rdelta):
    boxlength = np.array([hmatrix[0, 0], hmatrix[1, 1]])
    maxbin = int(boxlength.min() / 2.0 / rdelta)
    edges = np.linspace(0, maxbin * rdelta, maxbin + 1)
    gr = np.zeros(maxbin)
    gA = np.zeros(maxbin)
    npart = frames[0].shape[0]
    for n, pos in enumerate(frames):
        for i in range(npart):
            for j in range(i + 1, npart):
                frac = np.linalg.solve(hmatrix.T, pos[j] - pos[i])
                frac -= np.rint(frac)
                r = np.hypot(*(hmatrix.T @ frac))
                if r >= maxbin * rdelta:
                    continue
                b = min(int(np.searchsorted(edges, r, side="right")) - 1, maxbin - 1)
                gr[b] += 1
                gA[b] += (phi[n, j] * np.conj(phi[n, i])).real
    nideal = np.pi * (edges[1:] ** 2 - edges[:-1] ** 2)
    rho = npart / np.prod(boxlength)
    norm = 2.0 / npart / (nideal * rho) / len(frames)
    return edges[1:] - 0.5 * rdelta, gr * norm, gA * norm


def ref_time_corr(phi, timesteps, dt):
    nsnap = phi.shape[0]
    res = np.zeros(nsnap)
    for nn in range(nsnap):
        vals = [(phi[n] * np.conj(phi[n - nn])).sum().real for n in range(nn, nsnap)]
        res[nn] = np.mean(vals)
    return (np.asarray(timesteps) - timesteps[0]) * dt, res / res[0]


# ----------------------------------------------------------------------------
# checks
# ----------------------------------------------------------------------------
def run_case(tmp, name, frames, hmatrix, tables, l, wtables, rng, Nmax=10, periodic=True,
             nwins=(2, 3), rdelta=0.23):
    hmatrix = np.asarray(hmatrix, dtype=float)
    ppp = np.array([1, 1]) if periodic else np.array([0, 0])
    nfile = os.path.join(tmp, name + ".neighbor.dat")
    write_tables(nfile, tables, "id cn neighborlist", 1, rng, lambda v: str(int(v)))
    wfile = ""
    if wtables is not None:
        wfile = os.path.join(tmp, name + ".weights.dat")
        write_tables(wfile, wtables, "id cn edgelengthlist", 0.0, rng, lambda v: repr(float(v)))
    snaps = make_snapshots(frames, hmatrix)
    phifile = os.path.join(tmp, name + ".phi")
    boo = boo_2d(snaps, l=l, neighborfile=nfile, weightsfile=wfile, ppp=ppp, Nmax=Nmax,
                 output_phi=phifile)
    phi = boo.ParticlePhi
    expect = ref_phi(frames, hmatrix, tables, l, wtables, periodic)
    close(phi, expect, f"{name}: ParticlePhi vs l-fold definition")
    close(np.load(phifile + ".npy"), expect, f"{name}: saved phi")
    close(boo.lthorder(), expect, f"{name}: second lthorder call")
    check(bool(np.all(np.abs(phi) <= 1 + 1e-12)), f"{name}: modulus bound")
    check(phi.dtype == np.complex128, f"{name}: dtype")

    # rotation covariance: rotate positions and cell by alpha
    alpha = 0.37
    rot = np.array([[np.cos(alpha), -np.sin(alpha)], [np.sin(alpha), np.cos(alpha)]])
    rsnaps = make_snapshots([p @ rot.T for p in frames], hmatrix)
    rsnaps = Snapshots(rsnaps.nsnapshots, [
        SingleSnapshot(s.timestep, s.nparticle, s.particle_type, s.positions, s.boxlength,
                       s.boxbounds, s.realbounds, hmatrix @ rot.T) for s in rsnaps.snapshots])
    rboo = boo_2d(rsnaps, l=l, neighborfile=nfile, weightsfile=wfile, ppp=ppp, Nmax=Nmax)
    close(rboo.ParticlePhi, expect * np.exp(1j * l * alpha), f"{name}: rotation covariance")

    timesteps = [s.timestep for s in snaps.snapshots]
    dt = 0.002
    if len(frames) > 1:
        interval = (timesteps[1] - timesteps[0]) * dt
        for nwin in nwins:
            if nwin >= len(frames):
                continue
            period = (nwin + 0.25) * interval
            # complex average
            out = os.path.join(tmp, f"{name}.avg{nwin}")
            got, ids = boo.time_average(period, dt=dt, average_complex=True, outputfile=out)
            want, wids = ref_time_average(expect, nwin)
            close(got, want, f"{name}: time_average complex nwin={nwin}")
            check(np.array_equal(ids, wids), f"{name}: middle ids nwin={nwin}")
            close(np.load(out + ".npy"), want, f"{name}: saved average")
            close(np.loadtxt(out + ".snapshot_id.dat", skiprows=1, ndmin=1), wids,
                  f"{name}: saved ids")
            # modulus and phase separately
            got, ids = boo.time_average(period, dt=dt, average_complex=False)
            wmod, _ = ref_time_average(np.abs(expect), nwin)
            wpha, _ = ref_time_average(np.angle(expect), nwin)
            close(got, wmod.real * np.exp(1j * wpha.real), f"{name}: time_average mod/phase nwin={nwin}")
            check(np.array_equal(ids, wids), f"{name}: middle ids (mod/phase) nwin={nwin}")
            # utility function directly, real and complex input
            got, ids = utils_time_average(snaps, expect, period, dt)
            close(got, want, f"{name}: utils time_average complex nwin={nwin}")
            check(got.dtype == np.complex128 and np.array_equal(ids, wids)
                  and ids.dtype == wids.dtype, f"{name}: utils ids/dtype")
            got, ids = utils_time_average(snaps, np.abs(expect), period, dt)
            close(got, wmod, f"{name}: utils time_average real nwin={nwin}")

        tcfile = os.path.join(tmp, name + ".tc.csv")
        tc = boo.time_corr(dt=dt, outputfile=tcfile)
        wt, wc = ref_time_corr(expect, timesteps, dt)
        check(list(tc.columns) == ["t", "time_corr"], f"{name}: time_corr columns")
        close(tc["t"].values, wt, f"{name}: time_corr t")
        close(tc["time_corr"].values, wc, f"{name}: time_corr values")
        check(os.path.isfile(tcfile), f"{name}: time_corr file")
        close(boo.time_corr()["time_corr"].values, wc, f"{name}: time_corr default dt")

    if periodic:
        scfile = os.path.join(tmp, name + ".sc.csv")
        sc = boo.spatial_corr(rdelta=rdelta, outputfile=scfile)
        wr, wgr, wga = ref_spatial(frames, hmatrix, expect, rdelta)
        check(list(sc.columns) == ["r", "gr", "gA"], f"{name}: spatial_corr columns")
        close(sc["r"].values, wr, f"{name}: spatial_corr r")
        close(sc["gr"].values, wgr, f"{name}: spatial_corr gr")
        close(sc["gA"].values, wga, f"{name}: spatial_corr gA")
        check(os.path.isfile(scfile), f"{name}: spatial_corr file")
    return phi


def lattice(hcell, nx, ny):
    hcell = np.asarray(hcell, dtype=float)
    pos = np.array([a * hcell[0] + b * hcell[1] for a in range(nx) for b in range(ny)])
    return pos, np.array([nx * hcell[0], ny * hcell[1]])


def main():
    rng = np.random.default_rng(20240611)
    tmp = tempfile.mkdtemp()
    try:
        # (a) perfect triangular lattice in a triclinic cell with NEGATIVE tilt
        pos, hmat = lattice([[1.0, 0.0], [-0.5, np.sqrt(3) / 2]], 5, 7)
        pos = pos + np.array([0.13, 0.29])
        tab = knn_table(pos, hmat, [6] * len(pos))
        phi = run_case(tmp, "tri6", [pos], hmat, [tab], 6, None, rng)
        close(np.abs(phi), np.ones_like(phi.real), "tri6: |psi6| = 1 on perfect lattice", 1e-12)
        wt = [[list(rng.uniform(0.2, 1.5, size=6)) for _ in tab]]
        phi = run_case(tmp, "tri6w", [pos], hmat, [tab], 6, wt, rng)
        close(np.abs(phi), np.ones_like(phi.real), "tri6w: |psi6| = 1 with positive weights", 1e-12)
        phi = run_case(tmp, "tri6l3", [pos], hmat, [tab], 3, None, rng)
        close(np.abs(phi), np.zeros_like(phi.real), "tri6l3: psi3 = 0 on triangular lattice", 1e-12)

        # (b) perfect square lattice, orthogonal box, l = 4, Nmax equal to the coordination number
        pos, hmat = lattice([[1.1, 0.0], [0.0, 1.1]], 5, 7)
        tab = knn_table(pos, hmat, [4] * len(pos))
        phi = run_case(tmp, "sq4", [pos, pos + 0.05, pos - 0.02], hmat, [tab] * 3, 4, None, rng, Nmax=4)
        close(np.abs(phi), np.ones_like(phi.real), "sq4: |psi4| = 1 on perfect lattice", 1e-12)

        # (c) random multi-frame trajectories, unequal coordination numbers, signed weights
        for name, hmat in (("orth", [[6.0, 0.0], [0.0, 7.0]]),
                           ("tricneg", [[6.5, 0.0], [-2.5, 6.0]]),
                           ("tricpos", [[6.0, 0.0], [1.75, 6.5]])):
            hmat = np.array(hmat)
            npart, nframe = 37, 5
            frac = rng.uniform(0, 1, size=(npart, 2))
            frames, tables, wtables = [], [], []
            for _ in range(nframe):
                frac = frac + rng.normal(0, 0.01, size=frac.shape)
                pos = (frac % 1.0) @ hmat
                cns = rng.integers(1, 8, size=npart)
                tab = knn_table(pos, hmat, cns)
                frames.append(pos)
                tables.append(tab)
                wtables.append([list(rng.uniform(0.1, 2.0, size=len(r)) * rng.choice([-1, 1, 1], size=len(r)))
                                for r in tab])
            for l in ((6, 5) if name == "orth" else (6,)):
                run_case(tmp, f"{name}_l{l}", frames, hmat, tables, l, None, rng)
                run_case(tmp, f"{name}_l{l}w", frames, hmat, tables, l, wtables, rng)
            run_case(tmp, f"{name}_l12_nmax", frames, hmat, tables, 12, wtables, rng, Nmax=7, nwins=(1, 4))

        # (d) non-periodic option ppp = [0, 0]
        hmat = np.array([[6.0, 0.0], [0.0, 6.0]])
        pos = rng.uniform(0, 6, size=(25, 2))
        tab = knn_table(pos, hmat, rng.integers(2, 6, size=25), periodic=False)
        run_case(tmp, "open", [pos, pos + rng.normal(0, 0.01, size=pos.shape)], hmat, [tab, tab], 6,
                 None, rng, periodic=False, nwins=(1,))
    finally:
        shutil.rmtree(tmp, ignore_errors=True)
    print(f"OK ({NCHECK[0]} checks)")


if __name__ == "__main__":
    warnings.simplefilter("ignore")
    main()
    sys.exit(0)
