"""Demo for the extraction of the private helper `_select_molecule_centers` from
read_lammps_centertype.

Molecular dumps are written (header by write_dump_header, atom lines in random id order)
with coordinate styles x / xu / xs, in 2D and 3D, and read through the public
DumpReader(LAMMPSCENTER) and read_lammps_centertype_wrapper. The expected snapshot is
computed here with plain Python loops over the atoms sorted by id.
"""
import logging
import os
import shutil
import sys
import tempfile

import numpy as np

logging.disable(logging.CRITICAL)

from PyMatterSim.reader.dump_reader import DumpReader
from PyMatterSim.reader.lammps_reader_helper import read_lammps_centertype_wrapper
from PyMatterSim.reader.reader_utils import DumpFileType
from PyMatterSim.writer.lammps_writer import write_dump_header


def write_case(path, rng, ndim, style, nframes, natoms, ntypes):
    """returns per-frame ground truth: (timestep, bounds, types_by_id, text_coords_by_id)"""
    truth = []
    coordnames = {"x": "x y z", "xu": "xu yu zu", "xs": "xs ys zs"}[style].split()[:ndim]
    with open(path, "w", encoding="utf-8") as fh:
        for iframe in range(nframes):
            lo = np.round(rng.uniform(-8.0, 3.0, size=ndim), 6)
            hi = np.round(lo + rng.uniform(2.0, 12.0, size=ndim), 6)
            bounds = np.column_stack((lo, hi))
            timestep = 500 * iframe + int(rng.integers(0, 400))
            head = write_dump_header(timestep, natoms, bounds, "mol")
            # the writer always names the columns x y (z); swap in the wanted style
            tag = "ITEM: ATOMS id type " + " ".join(["x", "y", "z"][:ndim]) + " mol\n"
            assert head.endswith(tag)
            head = head[: -len(tag)] + "ITEM: ATOMS id type " + " ".join(coordnames) + " mol\n"
            fh.write(head)
            types = rng.integers(1, ntypes + 1, size=natoms)
            if style == "xs":
                raw = rng.uniform(0.0, 1.0, size=(natoms, ndim))
            else:  # some atoms slightly outside the box (periodic images)
                raw = lo + rng.uniform(-0.2, 1.2, size=(natoms, ndim)) * (hi - lo)
            text = [["%.6f" % v for v in row] for row in raw]
            for idx in rng.permutation(natoms):
                fh.write("%d %d %s %d\n" % (idx + 1, types[idx], " ".join(text[idx]), idx // 3 + 1))
            truth.append((timestep, bounds, types, text))
    return truth


def expected_frame(truth, ndim, style, moltypes):
    timestep, bounds, types, text = truth
    length = [bounds[d, 1] - bounds[d, 0] for d in range(ndim)]
    sel_type, sel_pos = [], []
    for idx in range(len(types)):  # ascending atom id
        if int(types[idx]) not in moltypes:
            continue
        sel_type.append(moltypes[int(types[idx])])
        row = []
        for d in range(ndim):
            v = float(text[idx][d])
            if style == "xs":
                v = v * length[d] + bounds[d, 0]
            elif style == "x":
                if v < bounds[d, 0]:
                    v = v + length[d]
                if v > bounds[d, 1]:
                    v = v - length[d]
            row.append(v)
        sel_pos.append(row)
    return timestep, bounds, np.array(length), np.array(sel_type), np.array(sel_pos).reshape(-1, ndim)


def compare(snap, want, ndim):
    timestep, bounds, length, sel_type, sel_pos = want
    ok = snap.timestep == timestep
    ok &= snap.nparticle == len(sel_type)
    ok &= np.array_equal(snap.boxbounds, bounds)
    ok &= np.allclose(snap.boxlength, length, rtol=1e-12, atol=0)
    ok &= np.allclose(snap.hmatrix, np.diag(length), rtol=1e-12, atol=0)
    ok &= snap.particle_type.shape == (len(sel_type),)
    ok &= snap.positions.shape == (len(sel_type), ndim)
    if len(sel_type):
        ok &= np.array_equal(snap.particle_type, sel_type)
        ok &= np.allclose(snap.positions, sel_pos, rtol=1e-12, atol=1e-12)
    ok &= snap.realbounds is None
    return bool(ok)


def main():
    rng = np.random.default_rng(319)
    tmp = tempfile.mkdtemp()
    failures = 0
    ncases = 0
    try:
        typemaps = [
            {3: 1, 5: 2},            # the documented example
            {5: 1, 3: 2},            # keys not sorted
            {1: 7},                  # one centre type, relabelled to a type that is not 1
            {2: 4, 4: 4, 5: 1},      # two atom types mapped onto the same molecule type
            {1: 1, 2: 2, 3: 3, 4: 4, 5: 5},  # every atom kept
            {3: 1, 9: 2},            # a key that never occurs in the file
        ]
        for ndim in (2, 3):
            for style in ("x", "xu", "xs"):
                for imap, moltypes in enumerate(typemaps):
                    ncases += 1
                    natoms = int(rng.integers(6, 25))
                    path = os.path.join(tmp, "c_%d_%s_%d.atom" % (ndim, style, imap))
                    truth = write_case(path, rng, ndim, style, 3, natoms, 5)

                    reader = DumpReader(path, ndim=ndim, filetype=DumpFileType.LAMMPSCENTER, moltypes=moltypes)
                    reader.read_onefile()
                    direct = read_lammps_centertype_wrapper(path, ndim, moltypes)
                    for snaps in (reader.snapshots, direct):
                        if snaps.nsnapshots != 3 or len(snaps.snapshots) != 3:
                            print("frame count mismatch", ndim, style, moltypes)
                            failures += 1
                            continue
                        for iframe in range(3):
                            want = expected_frame(truth[iframe], ndim, style, moltypes)
                            if not compare(snaps.snapshots[iframe], want, ndim):
                                print("mismatch", ndim, style, moltypes, "frame", iframe)
                                failures += 1
    finally:
        shutil.rmtree(tmp, ignore_errors=True)

    if failures:
        print("FAILED:", failures)
        return 1
    print("centertype-select-helper demo OK (%d cases)" % ncases)
    return 0


if __name__ == "__main__":
    sys.exit(main())
