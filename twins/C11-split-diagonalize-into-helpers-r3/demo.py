"""Shared body of the demos (copied verbatim into every demo.py).

Builds small synthetic 2D / 3D configurations (orthogonal and triclinic cells,
negative tilt, partially periodic masks, unequal masses, non-symmetric looking
parameter tables, shift on / off, the three potentials), runs
HessianMatrix.diagonalize_hessian and compares the three saved files with an
independently coded reference:

  H_ij = (1/sqrt(m_i m_j)) d2U / dr_i dr_j      of the documented pair energy

where the reference obtains s'(r) and s''(r) from its own energy function by
analytic formulas AND cross-checks them with central finite differences of the
energy, builds the pair block with np.outer, and accumulates with np.add.at.
"""
import os
import shutil
import sys
import tempfile

import numpy as np
import pandas as pd

from PyMatterSim.reader.reader_utils import SingleSnapshot
from PyMatterSim.static.hessians import (HessianMatrix, InteractionParams,
                                         ModelName, PairInteractions)
from PyMatterSim.static.vector import participation_ratio

RTOL = 1e-9


# --------------------------------------------------------------------------
# independent reference
# --------------------------------------------------------------------------
def ref_energy(model, r, eps, sig, n=0.0, A=0.0, alpha=0.0):
    """documented (unshifted) pair energies"""
    if model == "lj":
        return 4.0 * eps * ((sig / r) ** 12 - (sig / r) ** 6)
    if model == "ipl":
        return A * eps * (sig / r) ** n
    return eps / alpha * (1.0 - r / sig) ** alpha


def ref_d1(model, r, eps, sig, n=0.0, A=0.0, alpha=0.0):
    """dU/dr"""
    if model == "lj":
        return 4.0 * eps * (-12.0 * sig ** 12 / r ** 13 + 6.0 * sig ** 6 / r ** 7)
    if model == "ipl":
        return -n * A * eps * sig ** n / r ** (n + 1)
    return -eps / sig * (1.0 - r / sig) ** (alpha - 1.0)


def ref_d2(model, r, eps, sig, n=0.0, A=0.0, alpha=0.0):
    """d2U/dr2"""
    if model == "lj":
        return 4.0 * eps * (156.0 * sig ** 12 / r ** 14 - 42.0 * sig ** 6 / r ** 8)
    if model == "ipl":
        return n * (n + 1.0) * A * eps * sig ** n / r ** (n + 2)
    return eps / sig ** 2 * (alpha - 1.0) * (1.0 - r / sig) ** (alpha - 2.0)


def check_derivatives_by_fd(model, r, eps, sig, **kw):
    """the analytic reference derivatives agree with finite differences of U"""
    h = 1e-5 * r
    up, u0, um = (ref_energy(model, r + h, eps, sig, **kw),
                  ref_energy(model, r, eps, sig, **kw),
                  ref_energy(model, r - h, eps, sig, **kw))
    fd1 = (up - um) / (2 * h)
    fd2 = (up - 2 * u0 + um) / h ** 2
    a1 = ref_d1(model, r, eps, sig, **kw)
    a2 = ref_d2(model, r, eps, sig, **kw)
    assert abs(fd1 - a1) <= 1e-6 * max(1.0, abs(a1)), (model, r, fd1, a1)
    assert abs(fd2 - a2) <= 1e-4 * max(1.0, abs(a2)), (model, r, fd2, a2)


def ref_min_image(dr, hmat, ppp):
    """minimum image in fractional coordinates, only along periodic axes"""
    frac = dr @ np.linalg.inv(hmat)
    frac = frac - np.rint(frac) * np.asarray(ppp)[None, :]
    return frac @ hmat


def ref_hessian(pos, types, hmat, ppp, masses, eps, sig, rc, model, shift, **kw):
    """M^-1/2 (d2U/dri drj) M^-1/2 built pair by pair (i<j), independent coding"""
    npart, ndim = pos.shape
    H = np.zeros((npart * ndim, npart * ndim))
    eye = np.eye(ndim)
    m = np.array([masses[int(t)] for t in types], dtype=float)
    npairs = 0
    for i in range(npart):
        for j in range(i + 1, npart):
            a, b = int(types[i]) - 1, int(types[j]) - 1
            d = ref_min_image((pos[i] - pos[j])[None, :], hmat, ppp)[0]
            r = float(np.sqrt(d @ d))
            if r > rc[a, b]:
                continue
            npairs += 1
            if npairs % 7 == 1:
                check_derivatives_by_fd(model, r, eps[a, b], sig[a, b], **kw)
            s1 = ref_d1(model, r, eps[a, b], sig[a, b], **kw)
            s2 = ref_d2(model, r, eps[a, b], sig[a, b], **kw)
            # force shifting U -> U - (r - rc) U'(rc) changes s' by a constant
            s1c = ref_d1(model, rc[a, b], eps[a, b], sig[a, b], **kw) \
                if (shift and model != "hh") else 0.0
            rr = np.outer(d, d)
            blk = s2 * rr / r ** 2 + (s1 - s1c) * (eye / r - rr / r ** 3)
            si = slice(i * ndim, (i + 1) * ndim)
            sj = slice(j * ndim, (j + 1) * ndim)
            H[si, si] += blk / m[i]
            H[sj, sj] += blk / m[j]
            H[si, sj] -= blk / np.sqrt(m[i] * m[j])
            H[sj, si] -= blk / np.sqrt(m[i] * m[j])
    assert npairs > npart, "demo configuration has too few interacting pairs"
    return H, m


def ref_pr(vec):
    """participation ratio (sum e^2)^2 / (N sum e^4) with plain loops"""
    s2 = 0.0
    s4 = 0.0
    for row in vec:
        e2 = 0.0
        for c in row:
            e2 += float(c) * float(c)
        s2 += e2
        s4 += e2 * e2
    return s2 * s2 / (len(vec) * s4)


# --------------------------------------------------------------------------
# synthetic inputs
# --------------------------------------------------------------------------
def make_config(ndim, ncell, spacing, tilt, rng, ntypes=2):
    """jittered lattice in a (possibly triclinic, possibly negatively tilted) cell"""
    L = ncell * spacing
    hmat = np.eye(ndim) * L
    if tilt:
        hmat[1, 0] = tilt * L               # xy
        if ndim == 3:
            hmat[2, 0] = -0.5 * tilt * L    # xz (opposite sign)
            hmat[2, 1] = 0.7 * tilt * L     # yz
    grids = np.meshgrid(*[np.arange(ncell)] * ndim, indexing="ij")
    frac = np.stack([g.ravel() for g in grids], axis=1) / ncell
    frac = frac + rng.uniform(-0.12, 0.12, size=frac.shape) / ncell
    pos = frac @ hmat
    # move some particles out of the primary cell: minimum image must cope
    pos[::5] += hmat[0]
    pos[1::7] -= hmat[ndim - 1]
    types = rng.integers(1, ntypes + 1, size=len(pos))
    types[:ntypes] = np.arange(1, ntypes + 1)     # every type present
    order = rng.permutation(len(pos))
    pos, types = pos[order], types[order]
    boxlength = np.diag(hmat).copy()
    bounds = np.stack([np.zeros(ndim), boxlength], axis=1)
    snap = SingleSnapshot(timestep=0, nparticle=len(pos), particle_type=types,
                          positions=pos, boxlength=boxlength, boxbounds=bounds,
                          realbounds=bounds, hmatrix=hmat)
    return snap


def run_library(snap, masses, eps, sig, rc, ppp, shift, params, workdir, tag,
                saveevecs=True, savehessian=True):
    out = os.path.join(workdir, tag)
    hm = HessianMatrix(snapshot=snap, masses=masses, epsilons=eps, sigmas=sig,
                       r_cuts=rc, ppp=ppp, shiftpotential=shift)
    ret = hm.diagonalize_hessian(interaction_params=params, saveevecs=saveevecs,
                                 savehessian=savehessian, outputfile=out)
    assert ret is None
    return out


CASES = [
    # tag, ndim, ncell, spacing, tilt, ppp, model, shift, masses
    ("lj2d", 2, 5, 1.10, 0.0, [1, 1], "lj", True, {1: 1.0, 2: 2.5}),
    ("lj3d_tri", 3, 3, 1.25, -0.2, [1, 1, 1], "lj", False, {1: 0.7, 2: 3.0}),
    ("ipl2d_tri", 2, 5, 1.05, 0.3, [1, 1], "ipl", True, {1: 1.0, 2: 1.0}),
    ("ipl3d_mask", 3, 3, 1.20, 0.0, [1, 0, 1], "ipl", False, {1: 2.0, 2: 0.5}),
    ("hh2d_mask", 2, 5, 0.80, -0.25, [0, 1], "hh", True, {1: 1.3, 2: 0.4}),
    ("hh3d", 3, 4, 0.85, 0.15, [1, 1, 1], "hh", False, {1: 1.0, 2: 4.0}),
]


def tables(model):
    """type-pair parameter tables"""
    eps = np.array([[1.0, 1.5], [1.5, 0.5]])
    if model == "hh":
        sig = np.array([[1.00, 1.20], [1.20, 1.40]])
        rc = sig.copy()                      # contact potential
        kw = dict(alpha=2.5)
        params = InteractionParams(ModelName.harmonic_hertz, harmonic_hertz_alpha=2.5)
    elif model == "lj":
        sig = np.array([[1.00, 0.90], [0.90, 0.88]])
        rc = 1.5 * sig
        kw = {}
        params = InteractionParams(ModelName.lennard_jones)
    else:
        sig = np.array([[1.00, 1.10], [1.10, 1.20]])
        rc = 1.25 * sig
        kw = dict(n=8.0, A=1.7)
        params = InteractionParams(ModelName.inverse_power_law, ipl_n=8.0, ipl_A=1.7)
    return eps, sig, rc, kw, params


def check_case(case, workdir, rng):
    tag, ndim, ncell, spacing, tilt, ppp, model, shift, masses = case
    snap = make_config(ndim, ncell, spacing, tilt, rng)
    eps, sig, rc, kw, params = tables(model)
    ppp = np.array(ppp)
    out = run_library(snap, masses, eps, sig, rc, ppp, shift, params, workdir, tag)
    H = np.load(out + ".hessianmatrix.npy")
    evecs = np.load(out + ".evecs.npy")
    table = pd.read_csv(out + ".omega_PR.csv")
    assert list(table.columns) == ["omega", "PR"]

    Href, m = ref_hessian(snap.positions, snap.particle_type, snap.hmatrix, ppp,
                          masses, eps, sig, rc, model, shift, **kw)
    scale = np.abs(Href).max()
    assert H.shape == Href.shape and H.dtype == np.float64
    assert np.abs(H - Href).max() <= RTOL * scale, (tag, np.abs(H - Href).max())
    assert np.abs(H - H.T).max() <= RTOL * scale, tag

    # mass weighted uniform translations are null vectors under full periodicity
    if ppp.all():
        for a in range(ndim):
            t = np.zeros((snap.nparticle, ndim))
            t[:, a] = np.sqrt(m)
            assert np.abs(H @ t.ravel()).max() <= 1e-8 * scale, (tag, a)

    # spectrum: omega = sqrt(eval) for eval > 0 else eval ; eigenpairs are valid
    evals_ref = np.linalg.eigvalsh(Href)
    omega_ref = np.array([np.sqrt(e) if e > 0 else e for e in evals_ref])
    omega = table["omega"].to_numpy()
    tol = 1e-6 * scale
    stable, unstable = evals_ref > tol, evals_ref < -tol
    soft = ~(stable | unstable)
    assert np.allclose(omega[stable], omega_ref[stable], rtol=1e-7, atol=0), tag
    assert np.allclose(omega[unstable], evals_ref[unstable], rtol=1e-7, atol=0), tag
    assert (np.abs(omega[soft]) <= 1.01 * max(tol, np.sqrt(tol))).all(), tag
    lam = np.where(omega > 0, omega ** 2, omega)
    assert np.abs(Href @ evecs - evecs * lam[None, :]).max() <= 1e-8 * scale, tag
    assert np.allclose(evecs.T @ evecs, np.eye(len(lam)), atol=1e-9), tag

    # participation ratios of the saved modes
    pr = table["PR"].to_numpy()
    pr_ref = np.array([ref_pr(evecs[:, k].reshape(snap.nparticle, ndim))
                       for k in range(evecs.shape[1])])
    assert np.allclose(pr, pr_ref, rtol=1e-10, atol=0), tag
    assert (pr > 0).all() and (pr <= 1 + 1e-12).all(), tag
    return tag


# --------------------------------------------------------------------------
# specific to this refactoring: the sequence of stages of diagonalize_hessian
# (prefactor table -> assembly -> save / eigh / save -> omega_PR table)
# --------------------------------------------------------------------------
def check_flags_and_default_name(work, rng):
    """which files are written, default output name, integer epsilon table"""
    snap = make_config(2, 4, 1.1, 0.1, rng)
    _, sig, rc, kw, params = tables("lj")
    eps = np.ones((2, 2), dtype=int)           # integer table, unit masses
    masses = {1: 1.0, 2: 1.0}
    ppp = np.array([1, 1])
    Href, _ = ref_hessian(snap.positions, snap.particle_type, snap.hmatrix, ppp,
                          masses, eps, sig, rc, "lj", True)
    scale = np.abs(Href).max()
    sub = os.path.join(work, "cwd")
    os.mkdir(sub)
    cwd = os.getcwd()
    os.chdir(sub)
    try:
        hm = HessianMatrix(snap, masses, eps, sig, rc, ppp)   # shift default True
        # defaults: eigenvectors yes, hessian no, name = model name
        assert hm.diagonalize_hessian(params) is None
        assert sorted(os.listdir(".")) == ["lennard_jones.evecs.npy",
                                           "lennard_jones.omega_PR.csv"]
        evecs = np.load("lennard_jones.evecs.npy")
        tab = pd.read_csv("lennard_jones.omega_PR.csv")
        lam = np.where(tab["omega"] > 0, tab["omega"] ** 2, tab["omega"]).astype(float)
        assert np.abs(Href @ evecs - evecs * lam[None, :]).max() <= 1e-8 * scale
        for name in os.listdir("."):
            os.remove(name)
        # nothing optional
        hm.diagonalize_hessian(params, saveevecs=False, savehessian=False, outputfile="a")
        assert os.listdir(".") == ["a.omega_PR.csv"]
        tab2 = pd.read_csv("a.omega_PR.csv")
        assert tab2.equals(tab)                 # same input -> same table
        os.remove("a.omega_PR.csv")
        # hessian only; repeated call on the same object gives the same matrix
        hm.diagonalize_hessian(params, saveevecs=False, savehessian=True, outputfile="b")
        hm.diagonalize_hessian(params, saveevecs=False, savehessian=True, outputfile="c")
        assert sorted(os.listdir(".")) == ["b.hessianmatrix.npy", "b.omega_PR.csv",
                                           "c.hessianmatrix.npy", "c.omega_PR.csv"]
        Hb, Hc = np.load("b.hessianmatrix.npy"), np.load("c.hessianmatrix.npy")
        assert np.array_equal(Hb, Hc)
        assert np.abs(Hb - Href).max() <= RTOL * scale
    finally:
        os.chdir(cwd)
    # a mass missing from the table is reported before anything is written
    hm = HessianMatrix(snap, {1: 1.0}, eps, sig, rc, ppp)
    try:
        hm.diagonalize_hessian(params, outputfile=os.path.join(work, "never"))
    except KeyError:
        pass
    else:
        raise AssertionError("missing mass not reported")
    assert not [f for f in os.listdir(work) if f.startswith("never")]


def main():
    work = tempfile.mkdtemp()
    try:
        rng = np.random.default_rng(14)
        check_flags_and_default_name(work, rng)
        print("ok flags / names")
        for case in CASES:
            print("ok", check_case(case, work, rng))
    finally:
        shutil.rmtree(work)
    print("demo passed")
    return 0


if __name__ == "__main__":
    import warnings
    warnings.simplefilter("ignore", RuntimeWarning)
    sys.exit(main())
