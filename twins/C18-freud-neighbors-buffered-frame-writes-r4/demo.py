"""Demo for neighbors.freud_neighbors.cal_neighbors.

Checks, on 2D and 3D synthetic trajectories (box starting at the origin, box with
an offset lower corner, box centred on the origin, two frames each):
  * the three files written are, byte for byte, what a straightforward reference
    writer (written here, one write per token) produces from freud's Voronoi result;
  * the snapshot arrays are bit-for-bit unchanged by the call;
  * a second call produces identical files.
"""

import os
import shutil
import sys
import tempfile

import freud
import numpy as np

from PyMatterSim.neighbors.freud_neighbors import cal_neighbors
from PyMatterSim.reader.reader_utils import SingleSnapshot, Snapshots


def make_snapshots(ndim, nparticle, nframes, lower, rng):
    boxlength = np.array([7.0, 8.0, 9.0][:ndim])
    lower = np.asarray(lower, dtype=float)[:ndim]
    frames = []
    for n in range(nframes):
        positions = lower[np.newaxis, :] + rng.random((nparticle, ndim)) * boxlength[np.newaxis, :]
        boxbounds = np.column_stack((lower, lower + boxlength))
        frames.append(
            SingleSnapshot(
                timestep=n * 10,
                nparticle=nparticle,
                particle_type=np.ones(nparticle, dtype=int),
                positions=positions,
                boxlength=boxlength.copy(),
                boxbounds=boxbounds,
                realbounds=boxbounds.copy(),
                hmatrix=np.diag(boxlength),
            )
        )
    return Snapshots(nsnapshots=nframes, snapshots=frames)


def freeze(snapshots):
    out = []
    for s in snapshots.snapshots:
        out.append(
            tuple(
                np.array(a, copy=True)
                for a in (s.particle_type, s.positions, s.boxlength, s.boxbounds, s.realbounds, s.hmatrix)
            )
        )
    return out


def same_frozen(a, b):
    for fa, fb in zip(a, b):
        for xa, xb in zip(fa, fb):
            if xa.dtype != xb.dtype or xa.shape != xb.shape or xa.tobytes() != xb.tobytes():
                return False
    return True


def reference_text(snapshots):
    """independent reference: token by token, straight from freud"""
    ndim = snapshots.snapshots[0].positions.shape[1]
    overall = ["id cn area_or_volume\n"]
    neigh = []
    bond = []
    for s in snapshots.snapshots:
        centre = s.boxbounds[:, 0] + s.boxlength / 2
        points = s.positions - centre[np.newaxis, :]
        if ndim == 2:
            points = np.hstack((points, np.zeros((s.nparticle, 1))))
        box = freud.box.Box.from_box(s.boxlength)
        voro = freud.locality.Voronoi()
        voro.compute((box, points))
        pairs = np.array(voro.nlist)
        weights = np.array(voro.nlist.weights)
        volumes = np.array(voro.volumes)
        neigh.append("id   cn   neighborlist\n")
        bond.append("id   cn   edgelengthlist\n" if ndim == 2 else "id   cn   facearealist\n")
        for i in range(s.nparticle):
            rows = np.flatnonzero(pairs[:, 0] == i)
            assert rows.size > 0
            # freud's list is sorted by the first index
            assert (np.diff(rows) == 1).all()
            ln = "%d %d " % (i + 1, rows.size)
            lb = "%d %d " % (i + 1, rows.size)
            for r in rows:
                ln += "%d " % (pairs[r, 1] + 1)
                lb += "%.6f " % weights[r]
            neigh.append(ln + "\n")
            bond.append(lb + "\n")
            overall.append("%d %d %.6f\n" % (i + 1, rows.size, volumes[i]))
    return "".join(overall), "".join(neigh), "".join(bond)


def read(path):
    with open(path, "r", encoding="utf-8") as f:
        return f.read()


def main():
    rng = np.random.default_rng(20240918)
    tmpdir = tempfile.mkdtemp()
    failures = 0
    try:
        cases = [
            ("2d-origin", 2, 60, 2, [0.0, 0.0, 0.0]),
            ("2d-offset", 2, 45, 2, [1.5, -2.0, 0.0]),
            ("2d-centred", 2, 45, 1, [-3.5, -4.0, 0.0]),
            ("3d-origin", 3, 70, 2, [0.0, 0.0, 0.0]),
            ("3d-offset", 3, 55, 3, [-1.0, 2.0, 0.25]),
            ("3d-centred", 3, 55, 2, [-3.5, -4.0, -4.5]),
        ]
        for name, ndim, nparticle, nframes, lower in cases:
            snapshots = make_snapshots(ndim, nparticle, nframes, lower, rng)
            before = freeze(snapshots)
            prefix = os.path.join(tmpdir, name)
            cal_neighbors(snapshots, outputfile=prefix)
            if not same_frozen(before, freeze(snapshots)):
                print(f"FAIL {name}: snapshot arrays were modified")
                failures += 1
            bondname = ".edgelength.dat" if ndim == 2 else ".facearea.dat"
            got = (read(prefix + ".overall.dat"), read(prefix + ".neighbor.dat"), read(prefix + bondname))
            expected = reference_text(snapshots)
            for label, g, e in zip(("overall", "neighbor", "bond"), got, expected):
                if g != e:
                    print(f"FAIL {name}: {label} file differs from the reference text")
                    failures += 1
            # exactly the expected files, nothing else
            written = sorted(f for f in os.listdir(tmpdir) if f.startswith(name + "."))
            if written != sorted(name + ext for ext in (".overall.dat", ".neighbor.dat", bondname)):
                print(f"FAIL {name}: unexpected set of files {written}")
                failures += 1
            # number of lines: one header per frame + one line per particle per frame
            if got[1].count("\n") != nframes * (nparticle + 1):
                print(f"FAIL {name}: wrong number of lines in the neighbour file")
                failures += 1
            if got[0].count("\n") != nframes * nparticle + 1:
                print(f"FAIL {name}: wrong number of lines in the overall file")
                failures += 1
            # repeated call
            prefix2 = os.path.join(tmpdir, "again_" + name)
            cal_neighbors(snapshots, outputfile=prefix2)
            got2 = (read(prefix2 + ".overall.dat"), read(prefix2 + ".neighbor.dat"), read(prefix2 + bondname))
            if got2 != got:
                print(f"FAIL {name}: second call wrote different files")
                failures += 1
            if not same_frozen(before, freeze(snapshots)):
                print(f"FAIL {name}: snapshot arrays were modified by the second call")
                failures += 1
            print(f"ok   {name}")
    finally:
        shutil.rmtree(tmpdir, ignore_errors=True)
    if failures:
        print(f"{failures} failure(s)")
        return 1
    print("all checks passed")
    return 0


if __name__ == "__main__":
    sys.exit(main())
