"""Demo for the vectorised cutoff table in cutoffneighbors_particletype.

Multi-component synthetic trajectories (2 and 3 species with unequal
populations, 2D/3D, orthogonal / triclinic with negative tilt, several
periodicity masks, two frames) and ASYMMETRIC type-pair cutoff matrices
(row = type of the centre, column = type of the neighbour; float and integer
dtype, extra unused column) are run through the public function.  The file is
parsed by hand and through read_neighbors and compared with a brute-force
reference written here.  The inclusive boundary is checked on an integer
configuration.  Exits 0 on success.
"""
import os
import shutil
import sys
import tempfile

import numpy as np

from PyMatterSim.neighbors.calculate_neighbors import cutoffneighbors_particletype
from PyMatterSim.neighbors.read_neighbors import read_neighbors
from PyMatterSim.reader.reader_utils import SingleSnapshot, Snapshots


def make_snapshot(positions, hmatrix, types):
    n = positions.shape[0]
    return SingleSnapshot(
        timestep=0,
        nparticle=n,
        particle_type=types,
        positions=positions,
        boxlength=np.diag(hmatrix).copy(),
        boxbounds=None,
        realbounds=None,
        hmatrix=hmatrix,
    )


def reference_distances(positions, i, hmatrix, ppp):
    out = np.empty(positions.shape[0])
    for j in range(positions.shape[0]):
        d = positions[j] - positions[i]
        frac = np.linalg.solve(hmatrix.T, d)  # d = frac @ hmatrix
        for k in range(len(ppp)):
            if ppp[k]:
                frac[k] -= np.round(frac[k])
        out[j] = np.sqrt(np.sum((frac @ hmatrix) ** 2))
    return out


def reference_lists(positions, types, hmatrix, ppp, r_cut):
    result = []
    for i in range(positions.shape[0]):
        dist = reference_distances(positions, i, hmatrix, ppp)
        members = []
        for j in range(positions.shape[0]):
            if j == i:
                continue
            rc = float(r_cut[types[i] - 1][types[j] - 1])  # centre type -> row, neighbour type -> column
            assert abs(dist[j] - rc) > 1e-9, "distance too close to the cutoff"
            if dist[j] <= rc:
                members.append(j)
        members.sort(key=lambda j: dist[j])
        assert np.all(np.diff(np.sort(dist[members])) > 1e-9), "near tie in synthetic input"
        result.append(members)
    return result


def parse_file(fn, nparticles):
    with open(fn, "r", encoding="utf-8") as f:
        lines = f.read().split("\n")
    pointer = 0
    out = []
    for n in nparticles:
        assert lines[pointer].split() == ["id", "cn", "neighborlist"]
        rows = []
        for i in range(n):
            item = [int(x) for x in lines[pointer + 1 + i].split()]
            assert item[0] == i + 1
            assert item[1] == len(item) - 2
            rows.append([x - 1 for x in item[2:]])
        out.append(rows)
        pointer += 1 + n
    assert all(l.strip() == "" for l in lines[pointer:])
    return out


def padded(rows, Nmax):
    cn = [min(len(r), Nmax) for r in rows]
    width = max(cn) if max(cn) < Nmax else Nmax
    table = np.zeros((len(rows), width + 1), dtype=np.int32)
    for i, r in enumerate(rows):
        table[i, 0] = cn[i]
        table[i, 1 : cn[i] + 1] = r[: cn[i]]
    return table


def main():
    rng = np.random.default_rng(17)
    cells = [
        np.diag([5.0, 6.5]),
        np.array([[5.0, 0.0], [-1.9, 6.5]]),
        np.diag([4.0, 5.0, 6.0]),
        np.array([[4.0, 0.0, 0.0], [-1.2, 5.0, 0.0], [0.9, -1.6, 6.0]]),
    ]
    matrices = [
        (2, np.array([[1.1, 2.3], [0.7, 1.6]])),
        (3, np.array([[1.0, 2.4, 0.5], [1.7, 0.0, 2.9], [0.8, 1.3, 2.0]])),
        (3, np.array([[1, 2, 1], [3, 1, 2], [0, 1, 2]])),                  # integer dtype
        (2, np.array([[1.1, 2.3, 9.0], [0.7, 1.6, 9.0]])),               # extra, unused column
    ]
    tmpdir = tempfile.mkdtemp()
    nchecked = 0
    try:
        fn = os.path.join(tmpdir, "type.dat")
        for hmatrix in cells:
            ndim = hmatrix.shape[0]
            masks = [[1] * ndim, [0] * ndim, ([1, 1, 0])[:ndim]]
            n = 15
            for ntype, r_cut in matrices:
                # unequal populations, not sorted by type; the same types in both frames
                types = rng.choice(np.arange(1, ntype + 1), size=n, p=[0.6, 0.4] if ntype == 2 else [0.5, 0.3, 0.2])
                types[:ntype] = np.arange(ntype, 0, -1)
                frames = [make_snapshot((rng.random((n, ndim)) * 1.4 - 0.2) @ hmatrix, hmatrix, types) for _ in range(2)]
                snaps = Snapshots(nsnapshots=2, snapshots=frames)
                for ppp in masks:
                    cutoffneighbors_particletype(snaps, r_cut=r_cut, ppp=np.array(ppp), fnfile=fn)
                    got = parse_file(fn, [n, n])
                    for fr, rows in zip(frames, got):
                        ref = reference_lists(fr.positions, types, hmatrix, ppp, r_cut)
                        assert rows == ref, (rows, ref)
                        for i, r in enumerate(rows):
                            assert i not in r
                        nchecked += 1
                    for Nmax in (200, 2):
                        with open(fn, "r", encoding="utf-8") as f:
                            for rows in got:
                                table = read_neighbors(f, n, Nmax)
                                expect = padded(rows, Nmax)
                                assert table.shape == expect.shape and np.array_equal(table, expect)

        # inclusive boundary + direction of the asymmetric matrix, exact arithmetic
        # particle 0 (type 1) at the origin, particle 1 (type 2) at distance exactly 5,
        # particle 2 (type 2) at distance 13 from particle 0 (5-12-13)
        pos = np.array([[0.0, 0.0], [3.0, 4.0], [-5.0, 12.0]])
        types = np.array([1, 2, 2])
        hmatrix = np.diag([64.0, 64.0])
        snaps = Snapshots(1, [make_snapshot(pos, hmatrix, types)])
        below5 = float(np.nextafter(5.0, 0.0))
        for ppp in ([1, 1], [0, 0]):
            # centre type 1 / neighbour type 2 -> r_cut[0, 1]
            cutoffneighbors_particletype(snaps, np.array([[0.0, 5.0], [below5, 0.0]]), np.array(ppp), fn)
            rows = parse_file(fn, [3])[0]
            assert rows == [[1], [], []], rows
            cutoffneighbors_particletype(snaps, np.array([[0.0, below5], [5.0, 0.0]]), np.array(ppp), fn)
            rows = parse_file(fn, [3])[0]
            assert rows == [[], [0], []], rows
            cutoffneighbors_particletype(snaps, np.array([[0.0, 13.0], [5.0, 1.0]]), np.array(ppp), fn)
            rows = parse_file(fn, [3])[0]
            assert rows == [[1, 2], [0], []], rows

        # invalid r_cut is still rejected
        for bad in ([[1.0, 2.0], [2.0, 1.0]], np.ones((3, 3))):
            try:
                cutoffneighbors_particletype(snaps, bad, np.array([1, 1]), fn)
            except IOError:
                pass
            else:
                raise AssertionError("invalid r_cut accepted")
    finally:
        shutil.rmtree(tmpdir)
    print(f"cutoffneighbors_particletype demo OK ({nchecked} frame comparisons)")
    return 0


if __name__ == "__main__":
    sys.exit(main())
