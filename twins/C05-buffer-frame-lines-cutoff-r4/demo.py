import logging
import os
import shutil
import sys
import tempfile

import numpy as np

logging.disable(logging.CRITICAL)

from PyMatterSim.neighbors.calculate_neighbors import (  # noqa: E402
    Nnearests, cutoffneighbors, cutoffneighbors_particletype)
from PyMatterSim.neighbors.read_neighbors import read_neighbors  # noqa: E402
from PyMatterSim.reader.reader_utils import SingleSnapshot, Snapshots  # noqa: E402

HEADER = 'id     cn     neighborlist'
FAILURES = []


def check(cond, msg):
    if not cond:
        FAILURES.append(msg)
        print('FAIL:', msg)


# --------------------------------------------------------------------------
# synthetic configurations
# --------------------------------------------------------------------------
def make_frame(rng, n, hmatrix, ntypes=1, step=0):
    """n random particles inside the cell spanned by the rows of hmatrix"""
    hmatrix = np.asarray(hmatrix, dtype=float)
    ndim = hmatrix.shape[0]
    frac = rng.random((n, ndim))
    positions = frac @ hmatrix
    ptype = (np.arange(n) % ntypes) + 1
    rng.shuffle(ptype)
    if ntypes > 1:
        ptype[:ntypes] = np.arange(ntypes) + 1  # every type present
    boxlength = np.diag(hmatrix).copy()
    bounds = np.column_stack((np.zeros(ndim), boxlength))
    return SingleSnapshot(
        timestep=step, nparticle=n, particle_type=ptype.astype(np.int32),
        positions=positions, boxlength=boxlength, boxbounds=bounds,
        realbounds=bounds, hmatrix=hmatrix)


def make_lattice(ncell, ndim):
    """simple (hyper)cubic lattice, spacing 1, exactly representable numbers"""
    grids = np.meshgrid(*[np.arange(ncell, dtype=float)] * ndim, indexing='ij')
    positions = np.column_stack([g.ravel() for g in grids])
    n = positions.shape[0]
    hmatrix = np.eye(ndim) * float(ncell)
    boxlength = np.diag(hmatrix).copy()
    bounds = np.column_stack((np.zeros(ndim), boxlength))
    return SingleSnapshot(
        timestep=0, nparticle=n, particle_type=np.ones(n, dtype=np.int32),
        positions=positions, boxlength=boxlength, boxbounds=bounds,
        realbounds=bounds, hmatrix=hmatrix)


def pack(frames):
    return Snapshots(nsnapshots=len(frames), snapshots=list(frames))


CELLS = {
    '3d-ortho': np.diag([6.0, 7.0, 5.5]),
    '3d-tric': np.array([[6.0, 0.0, 0.0], [1.2, 6.5, 0.0], [-0.9, 0.7, 5.8]]),
    '3d-tric-neg': np.array([[6.0, 0.0, 0.0], [-1.5, 6.5, 0.0], [0.8, -1.1, 5.8]]),
    '2d-ortho': np.diag([9.0, 8.0]),
    '2d-tric-neg': np.array([[9.0, 0.0], [-2.0, 8.0]]),
}


# --------------------------------------------------------------------------
# independent reference (written without the library helpers)
# --------------------------------------------------------------------------
def ref_distances(frame, i, ppp):
    """distances from particle i under the fractional-coordinate
    minimum-image convention, one neighbour at a time"""
    h = np.asarray(frame.hmatrix, dtype=float)
    out = np.empty(frame.nparticle)
    for j in range(frame.nparticle):
        d = frame.positions[j] - frame.positions[i]
        s = np.linalg.solve(h.T, d)  # d = s @ h
        s = np.array([sk - round(sk) if pk else sk for sk, pk in zip(s, ppp)])
        out[j] = np.sqrt(np.sum((s @ h) ** 2))
    return out


def brute_image_distances(frame, i, ppp):
    """true minimum over the 3**d neighbouring images (orthogonal cells)"""
    h = np.asarray(frame.hmatrix, dtype=float)
    ndim = h.shape[0]
    shifts = np.array(np.meshgrid(*[[-1, 0, 1] if p else [0] for p in ppp],
                                  indexing='ij')).reshape(ndim, -1).T
    d = frame.positions - frame.positions[i]
    best = np.full(frame.nparticle, np.inf)
    for s in shifts:
        best = np.minimum(best, np.sqrt((((d + s @ h)) ** 2).sum(axis=1)))
    return best


def ref_sorted_others(dist, i):
    order = sorted((j for j in range(len(dist)) if j != i), key=lambda j: dist[j])
    return order


def parse_frames(text):
    """split a neighbour file into frames: list of list of int rows"""
    frames = []
    for line in text.split('\n')[:-1]:
        if line.split() == HEADER.split():
            frames.append([])
        else:
            frames[-1].append([int(t) for t in line.split()])
    return frames


def margin_ok(dist, i, rc, eps=1e-9):
    others = np.delete(dist, i)
    gaps = np.diff(np.sort(others))
    return (np.abs(others - rc) > eps).all() and (gaps > eps).all()


def finish(tmpdir):
    shutil.rmtree(tmpdir, ignore_errors=True)
    if FAILURES:
        print('%d check(s) failed' % len(FAILURES))
        sys.exit(1)
    print('all checks passed')
    sys.exit(0)


# --------------------------------------------------------------------------
# demo: cutoffneighbors (global cutoff) - file text, ordering, symmetry
# --------------------------------------------------------------------------
def expected_cutoff_text(frames, rc, ppp):
    lines = []
    for frame in frames:
        lines.append(HEADER)
        for i in range(frame.nparticle):
            dist = ref_distances(frame, i, ppp)
            sel = [j for j in ref_sorted_others(dist, i) if dist[j] <= rc]
            lines.append('%d %d ' % (i + 1, len(sel)) + ' '.join(str(j + 1) for j in sel))
    return '\n'.join(lines) + '\n'


def pick_rc(frames, ppp, rc):
    while True:
        if all(margin_ok(ref_distances(f, i, ppp), i, rc)
               for f in frames for i in range(f.nparticle)):
            return rc
        rc += 1.0e-3


def main():
    tmpdir = tempfile.mkdtemp()
    rng = np.random.default_rng(20240501)
    masks = {3: [(1, 1, 1), (1, 0, 1), (0, 0, 0)], 2: [(1, 1), (0, 1), (0, 0)]}
    case = 0
    for name, cell in CELLS.items():
        ndim = cell.shape[0]
        # frames with different particle numbers, one of them a single particle
        frames = [make_frame(rng, n, cell, step=k) for k, n in enumerate((23, 1, 31, 2))]
        for ppp in masks[ndim]:
            for rc0 in (0.9, 2.3):
                rc = pick_rc(frames, ppp, rc0)
                fn = os.path.join(tmpdir, 'cut_%d.dat' % case)
                case += 1
                cutoffneighbors(pack(frames), r_cut=rc, ppp=np.array(ppp), fnfile=fn)
                with open(fn, 'r', encoding='utf-8') as f:
                    text = f.read()
                check(text == expected_cutoff_text(frames, rc, ppp),
                      'file text %s ppp=%s rc=%g' % (name, ppp, rc))
                parsed = parse_frames(text)
                check([len(p) for p in parsed] == [f.nparticle for f in frames],
                      'frame/row counts %s' % name)
                # symmetry of the relation, no self, ids 1..n
                for frame, rows in zip(frames, parsed):
                    nb = {r[0]: set(r[2:]) for r in rows}
                    check(sorted(nb) == list(range(1, frame.nparticle + 1)), 'ids %s' % name)
                    for i, s in nb.items():
                        check(i not in s, 'self in list %s' % name)
                        check(all(i in nb[j] for j in s), 'asymmetric %s' % name)
                    check(all(r[1] == len(r[2:]) for r in rows), 'cn column %s' % name)
                # true minimum image on orthogonal cells
                if 'ortho' in name:
                    for frame, rows in zip(frames, parsed):
                        for i, r in enumerate(rows):
                            d = brute_image_distances(frame, i, ppp)
                            want = {j + 1 for j in range(frame.nparticle) if j != i and d[j] <= rc}
                            check(set(r[2:]) == want, 'brute-force images %s' % name)
                # sequential read-back from one open file, large and small Nmax
                for nmax in (200, 2):
                    with open(fn, 'r', encoding='utf-8') as f:
                        for frame, rows in zip(frames, parsed):
                            arr = read_neighbors(f, frame.nparticle, Nmax=nmax)
                            maxcn = max(r[1] for r in rows)
                            width = min(maxcn, nmax)
                            want = np.zeros((frame.nparticle, width + 1), dtype=np.int64)
                            for r in rows:
                                k = min(r[1], nmax)
                                want[r[0] - 1, 0] = k
                                want[r[0] - 1, 1:k + 1] = np.array(r[2:2 + k], dtype=np.int64) - 1
                            check(arr.dtype == np.int32 and arr.shape == want.shape
                                  and (arr == want).all(),
                                  'read-back %s Nmax=%d' % (name, nmax))
                        check(f.readline() == '', 'file fully consumed')

    # boundary inclusive: unit lattices, all numbers exactly representable
    for ndim, ppp in ((3, (1, 1, 1)), (2, (1, 1))):
        lat = make_lattice(4, ndim)
        fn = os.path.join(tmpdir, 'lat_%d.dat' % ndim)
        cutoffneighbors(pack([lat, lat]), r_cut=1.0, ppp=np.array(ppp), fnfile=fn)
        with open(fn, 'r', encoding='utf-8') as f:
            parsed = parse_frames(f.read())
        check(len(parsed) == 2, 'lattice frames')
        for rows in parsed:
            for r in rows:
                i = r[0] - 1
                d = brute_image_distances(lat, i, ppp)
                want = {j + 1 for j in range(lat.nparticle) if j != i and d[j] <= 1.0}
                check(r[1] == 2 * ndim and set(r[2:]) == want and len(want) == 2 * ndim,
                      'boundary-inclusive lattice %dd' % ndim)
    finish(tmpdir)


if __name__ == '__main__':
    main()
