"""Demo for the S2.particle_s2 refactoring (per-frame locals / precomputed type index).

Compares S2.particle_s2 with an independent reference written here, on
2D orthogonal, 3D orthogonal and 3D triclinic (negative tilt) boxes, with a
non-symmetric width matrix, unsorted species, and the savegr / outputfile path.
"""
import os
import shutil
import sys
import tempfile

import numpy as np

from PyMatterSim.reader.reader_utils import SingleSnapshot, Snapshots
from PyMatterSim.static.pairentropy import S2, s2_integral


def make_snapshots(rng, nframes, npart, hmatrix, ntypes, float_types=False):
    ndim = hmatrix.shape[0]
    boxlength = np.diag(hmatrix).copy()
    frames = []
    # the same species assignment in all frames, deliberately not sorted
    ptype = rng.integers(1, ntypes + 1, size=npart)
    ptype[:ntypes] = np.arange(1, ntypes + 1)
    if float_types:
        ptype = ptype.astype(np.float64)
    for n in range(nframes):
        frac = rng.random((npart, ndim))
        pos = frac @ hmatrix
        bounds = np.column_stack((np.zeros(ndim), boxlength))
        frames.append(SingleSnapshot(
            timestep=n, nparticle=npart, particle_type=ptype.copy(),
            positions=pos, boxlength=boxlength, boxbounds=bounds,
            realbounds=bounds, hmatrix=hmatrix))
    return Snapshots(nsnapshots=nframes, snapshots=frames)


def reference_s2(snaps, sigmas, ppp, rdelta, ndelta):
    ndim = len(ppp)
    nframes = snaps.nsnapshots
    npart = snaps.snapshots[0].nparticle
    volume = np.prod(snaps.snapshots[0].boxlength)
    rho = npart / volume
    r = (np.arange(ndelta) + 0.5) * rdelta
    rmax = r[-1]
    shell = 2 * np.pi * r * rho if ndim == 2 else 4 * np.pi * r * r * rho
    s2 = np.zeros((nframes, npart))
    grs = np.zeros((nframes, npart, ndelta))
    for n, snap in enumerate(snaps.snapshots):
        h = snap.hmatrix
        types = np.asarray(snap.particle_type).astype(int) - 1
        for i in range(npart):
            g = np.zeros(ndelta)
            for j in range(npart):
                if j == i:
                    continue
                d = snap.positions[j] - snap.positions[i]
                s = np.linalg.solve(h.T, d)          # fractional coordinates
                s = s - np.rint(s) * np.asarray(ppp)
                dist = np.sqrt(np.sum((s @ h) ** 2))
                if not dist < rmax:
                    continue
                w = sigmas[types[i], types[j]]
                g += np.exp(-(r - dist) ** 2 / (2 * w * w)) / np.sqrt(2 * np.pi * w * w)
            g = g / shell
            grs[n, i] = g
            y = (g * np.log(g) - g + 1) * r ** (ndim - 1)
            integral = np.sum(0.5 * (y[1:] + y[:-1]) * np.diff(r))
            s2[n, i] = -(ndim - 1) * np.pi * rho * integral
    return s2, grs


def main():
    rng = np.random.default_rng(20240917)
    tmpdir = tempfile.mkdtemp()
    cwd = os.getcwd()
    os.chdir(tmpdir)
    try:
        cases = []
        # 2D, orthogonal, two species, non-symmetric widths
        h2 = np.array([[5.0, 0.0], [0.0, 4.0]])
        sig2 = np.array([[0.30, 0.45], [0.40, 0.55]])
        cases.append(("2d-ortho", h2, sig2, np.array([1, 1]), 2, 0.05, 40, False))
        # 3D, orthogonal, three species, float-valued type column
        h3 = np.diag([3.0, 3.2, 3.5])
        sig3 = np.array([[0.30, 0.35, 0.40], [0.45, 0.50, 0.55], [0.60, 0.33, 0.42]])
        cases.append(("3d-ortho", h3, sig3, np.array([1, 1, 1]), 3, 0.04, 36, True))
        # 3D, triclinic with negative tilt factors (lammps h-matrix: rows are cell vectors)
        h3t = np.array([[3.0, 0.0, 0.0], [-0.9, 3.2, 0.0], [0.6, -0.8, 3.5]])
        cases.append(("3d-triclinic", h3t, sig3, np.array([1, 1, 1]), 3, 0.04, 36, False))
        # 2D with one non-periodic direction
        cases.append(("2d-ppp10", h2, sig2, np.array([1, 0]), 2, 0.05, 40, False))

        for name, h, sig, ppp, ntypes, rdelta, ndelta, ft in cases:
            npart = 16 if len(ppp) == 2 else 24
            snaps = make_snapshots(rng, 2, npart, h, ntypes, float_types=ft)
            expected, expected_gr = reference_s2(snaps, sig, ppp, rdelta, ndelta)
            assert np.all(np.isfinite(expected)), name

            calc = S2(snaps, sig, ppp, rdelta=rdelta, ndelta=ndelta)
            got = calc.particle_s2()
            assert got.shape == expected.shape
            np.testing.assert_allclose(got, expected, rtol=1e-9, atol=1e-12, err_msg=name)
            np.testing.assert_array_equal(calc.s2_results, got)

            # savegr + outputfile path: same numbers, same files
            got2, got_gr = S2(snaps, sig, ppp, rdelta=rdelta, ndelta=ndelta).particle_s2(
                savegr=True, outputfile=f"s2_{name}.npy")
            np.testing.assert_array_equal(got2, got)
            np.testing.assert_allclose(got_gr, expected_gr, rtol=1e-9, atol=1e-13, err_msg=name)
            np.testing.assert_array_equal(np.load(f"s2_{name}.npy"), got)
            np.testing.assert_array_equal(np.load(f"particle_gr.s2_{name}.npy"), got_gr)
            # particle S2 equals prefactor * s2_integral of the particle g(r)
            r = (np.arange(ndelta) + 0.5) * rdelta
            rho = npart / np.prod(np.diag(h))
            ndim = len(ppp)
            for i in (0, 5, npart - 1):
                val = -(ndim - 1) * np.pi * rho * s2_integral(got_gr[1, i], r, ndim)
                assert abs(val - got[1, i]) <= 1e-12 * abs(val), name
            print(f"{name}: ok, mean S2 = {got.mean():.6f}")

        # wrong dimension still raises ValueError
        try:
            S2(make_snapshots(rng, 1, 6, np.diag([3.0, 3.0]), 1), np.array([[0.3]]),
               np.array([1, 1, 1, 1])).particle_s2()
        except ValueError:
            print("4-component ppp: ValueError as expected")
        else:
            raise AssertionError("expected ValueError")
    finally:
        os.chdir(cwd)
        shutil.rmtree(tmpdir, ignore_errors=True)
    print("demo passed")
    return 0


if __name__ == "__main__":
    sys.exit(main())
