"""Demo for time_average: window means and middle-frame indices.

Run: PYTHONPATH=<worktree> /venv/bin/python demo.py
Exits 0 on the unchanged and on the refactored tree.
"""
import sys
import warnings

import numpy as np

from PyMatterSim.reader.reader_utils import SingleSnapshot, Snapshots
from PyMatterSim.utils.coarse_graining import time_average

warnings.simplefilter("ignore")
rng = np.random.default_rng(7)


def make_snapshots(nsnap, npart, step):
    snaps = []
    for n in range(nsnap):
        L = np.array([5.0, 5.0])
        bounds = np.array([[0.0, 5.0], [0.0, 5.0]])
        snaps.append(SingleSnapshot(
            timestep=1000 + n * step, nparticle=npart,
            particle_type=np.ones(npart, dtype=int),
            positions=rng.uniform(0, 5, size=(npart, 2)),
            boxlength=L, boxbounds=bounds, realbounds=bounds, hmatrix=np.diag(L)))
    return Snapshots(nsnapshots=nsnap, snapshots=snaps)


def reference(prop, nsnap, npart, window):
    """plain-Python reference: mean over `window` consecutive frames starting at n"""
    nout = nsnap - window
    ref = np.zeros((nout, npart), dtype=np.complex128)
    mids = []
    for n in range(nout):
        for i in range(npart):
            acc = 0.0
            for k in range(window):
                acc = acc + prop[n + k, i]
            ref[n, i] = acc / window
        mids.append(n + window // 2)
    return ref, mids


failures = 0


def check(name, ok):
    global failures
    if not ok:
        failures += 1
    print(("ok   " if ok else "FAIL ") + name)


# (nsnap, npart, step, dt, time_period, expected window length)
cases = [
    (9, 6, 100, 0.002, 0.2, 1),       # one-frame window
    (9, 6, 100, 0.002, 0.4, 2),       # even window, period an exact multiple of the interval
    (9, 6, 100, 0.002, 0.65, 3),      # odd window, period not a multiple
    (9, 6, 100, 0.002, 0.8, 4),
    (9, 6, 100, 0.002, 1.0, 5),       # odd window
    (8, 5, 2, 0.5, 3.0, 3),           # interval exactly 1.0, period exactly 3 intervals
    (8, 5, 2, 0.5, 7.0, 7),           # a single output row
    (8, 5, 2, 0.5, 8.0, 8),           # window as long as the trajectory: empty output
]
for nsnap, npart, step, dt, period, window in cases:
    snaps = make_snapshots(nsnap, npart, step)
    for kind in ("real", "complex"):
        prop = rng.normal(size=(nsnap, npart))
        if kind == "complex":
            prop = prop + 1j * rng.normal(size=(nsnap, npart))
        prop_before = prop.copy()
        res, mids = time_average(snaps, prop, time_period=period, dt=dt)
        ref, ref_mids = reference(prop, nsnap, npart, window)
        tag = f"nsnap={nsnap} step={step} dt={dt} period={period} {kind}"
        check(tag + " shape/dtype", res.shape == (nsnap - window, npart) and res.dtype == np.complex128)
        check(tag + " window means", np.allclose(res, ref, rtol=1e-12, atol=1e-13))
        check(tag + " middle ids", isinstance(mids, np.ndarray) and mids.shape == (nsnap - window,)
              and list(mids) == ref_mids)
        check(tag + " input untouched", np.array_equal(prop, prop_before))

# explicit expected numbers for a tiny hand-made case
snaps = make_snapshots(5, 2, 10)
prop = np.array([[1.0, 10.0], [2.0, 20.0], [4.0, 40.0], [8.0, 80.0], [16.0, 160.0]])
res, mids = time_average(snaps, prop, time_period=3 * 10 * 0.25, dt=0.25)   # window 3
check("hand case values", np.allclose(res, [[7 / 3, 70 / 3], [14 / 3, 140 / 3]], rtol=1e-12))
check("hand case middle ids", list(mids) == [1, 2])

print("failures:", failures)
sys.exit(1 if failures else 0)
