"""Demo for the read_neighbors branch merge (guard clause + conditional shift).

Writes multi-frame neighbour-list and weights files by hand (unsorted ids, unequal
coordination numbers, cn = 0, cn > Nmax), reads them back frame by frame from ONE
open file with several Nmax and compares with an independent parser written here.
Exits 0 on the unchanged and on the refactored tree.
"""
import os
import shutil
import sys
import tempfile

import numpy as np

from PyMatterSim.neighbors.read_neighbors import read_neighbors


def reference(lines, nparticle, Nmax):
    """independent parser of one frame given as list of text lines (header first)"""
    is_list = "neighborlist" in lines[0].split()
    out = np.zeros((nparticle, Nmax + 1))
    for line in lines[1:1 + nparticle]:
        tok = line.split()
        pid, cn = int(tok[0]), int(tok[1])
        keep = min(cn, Nmax)
        vals = np.array([float(x) for x in tok[2:2 + keep]])
        if is_list:
            vals = vals - 1
        out[pid - 1, 0] = keep
        out[pid - 1, 1:1 + keep] = vals
    big = int(out[:, 0].max())
    if big < Nmax:
        out = out[:, :big + 1]
    return out.astype(np.int32) if is_list else out


def build_frames(rng, nparticle, nframes, is_list, shuffled):
    frames = []
    for _ in range(nframes):
        lines = ["id     cn     neighborlist\n" if is_list else "id cn weights\n"]
        order = (rng.permutation(nparticle) if shuffled else np.arange(nparticle)) + 1
        for pid in order:
            cn = int(rng.integers(0, 10))
            if is_list:
                others = [q for q in range(1, nparticle + 1) if q != pid]
                vals = [str(v) for v in rng.choice(others, size=cn, replace=False)]
            else:
                vals = ["%.8f" % v for v in rng.normal(size=cn)]
                if cn:
                    vals[0] = "-0.0"  # sign of zero must survive
            lines.append(f"{pid} {cn} " + " ".join(vals) + "\n")
        frames.append(lines)
    return frames


def main():
    rng = np.random.default_rng(5)
    tmp = tempfile.mkdtemp()
    ok = True
    try:
        cases = (("list_unsorted", 17, True, True), ("list_sorted", 12, True, False),
                 ("weights_unsorted", 13, False, True), ("weights_sorted", 11, False, False))
        for kind, nparticle, is_list, shuffled in cases:
            frames = build_frames(rng, nparticle, 4, is_list, shuffled)
            fn = os.path.join(tmp, kind + ".dat")
            with open(fn, "w", encoding="utf-8") as f:
                for fr in frames:
                    f.writelines(fr)
            for Nmax in (200, 10, 9, 8, 5, 2, 1):
                with open(fn, "r", encoding="utf-8") as f:
                    for fr in frames:  # consecutive frames from one open file
                        got = read_neighbors(f, nparticle, Nmax)
                        exp = reference(fr, nparticle, Nmax)
                        same = (got.shape == exp.shape and got.dtype == exp.dtype
                                and np.array_equal(got, exp)
                                and np.array_equal(np.signbit(got), np.signbit(exp)))
                        if not same:
                            ok = False
                            print("MISMATCH", kind, Nmax, got.shape, exp.shape, got.dtype, exp.dtype)
                    if f.readline() != "":
                        ok = False
                        print("file pointer not at EOF after the last frame", kind, Nmax)
    finally:
        shutil.rmtree(tmp)
    print("OK" if ok else "FAILED")
    return 0 if ok else 1


if __name__ == "__main__":
    sys.exit(main())
