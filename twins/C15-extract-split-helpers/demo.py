"""Demo for the helper extraction in static.vector.vector_decomposition_sq
(_project_on_unit_vectors / _append_component), also reached through vector_fft_corr.

Run: PYTHONPATH=<worktree> /venv/bin/python demo.py
Only public functions are called; expected values come from a direct Fourier sum and from analytic cases.
"""
import logging
import os
import shutil
import sys
import tempfile

import numpy as np
import pandas as pd

from PyMatterSim.reader.reader_utils import SingleSnapshot, Snapshots
from PyMatterSim.static.vector import vector_decomposition_sq, vector_fft_corr

logging.disable(logging.CRITICAL)
rng = np.random.default_rng(1503)
tmpdir = tempfile.mkdtemp()
failures = []


def check(name, ok):
    print(("ok   " if ok else "FAIL ") + name)
    if not ok:
        failures.append(name)


def make_snapshot(ndim, nparticle, triclinic, timestep=0, positions=None, boxlength=None):
    if boxlength is None:
        boxlength = rng.uniform(5.0, 9.0, size=ndim)
    hmatrix = np.diag(boxlength)
    if triclinic:
        hmatrix[1, 0] = -0.4 * boxlength[0]
        if ndim == 3:
            hmatrix[2, 0] = 0.25 * boxlength[0]
            hmatrix[2, 1] = -0.1 * boxlength[1]
    if positions is None:
        positions = rng.uniform(0, 1, size=(nparticle, ndim)) @ hmatrix
    bounds = np.column_stack((np.zeros(ndim), boxlength))
    return SingleSnapshot(
        timestep=timestep,
        nparticle=nparticle,
        particle_type=np.ones(nparticle, dtype=int),
        positions=positions,
        boxlength=boxlength,
        boxbounds=bounds,
        realbounds=bounds,
        hmatrix=hmatrix,
    )


def reference_split(snapshot, qvector, field):
    qreal = qvector * (2 * np.pi / snapshot.boxlength)
    qnorm = np.sqrt((qreal**2).sum(axis=1))
    qhat = qreal / qnorm[:, None]
    full = np.zeros((len(qvector), field.shape[1]), dtype=complex)
    for j in range(snapshot.nparticle):
        full += np.exp(-1j * (qreal @ snapshot.positions[j]))[:, None] * field[j][None, :]
    full /= np.sqrt(snapshot.nparticle)
    longitudinal = np.array([qhat[a] * np.sum(qhat[a] * full[a]) for a in range(len(qvector))])
    return qreal, qnorm, qhat, full, longitudinal, full - longitudinal


qlists = {
    2: np.array([[1, 0], [0, 1], [0, -1], [1, 1], [-1, 2], [2, -1], [-2, -1], [3, 0], [1, -1]]),
    3: np.array([[1, 0, 0], [0, 0, 1], [0, -1, 0], [1, 1, 0], [-1, 2, 1], [1, -1, 1], [2, 0, -1], [0, 1, 1]]),
}

try:
    for ndim in (2, 3):
        fft_names = [f"FFT{i}" for i in range(ndim)]
        t_names = [f"T_FFT{i}" for i in range(ndim)]
        l_names = [f"L_FFT{i}" for i in range(ndim)]
        expected_columns = [f"q{i}" for i in range(ndim)] + ["q", "Sq"] + fft_names + t_names + ["Sq_T"] + l_names + ["Sq_L"]
        for triclinic in (False, True):
            for nparticle in (1, 2, 31):
                tag = f"d={ndim} triclinic={triclinic} N={nparticle}"
                snapshot = make_snapshot(ndim, nparticle, triclinic)
                qvector = qlists[ndim]
                fields = {
                    "random": rng.normal(size=(nparticle, ndim)),
                    "uniform": np.tile(rng.normal(size=(1, ndim)), (nparticle, 1)),
                    "linear": snapshot.positions @ rng.normal(size=(ndim, ndim)),
                }
                localised = np.zeros((nparticle, ndim))
                localised[nparticle // 2] = rng.normal(size=ndim)
                fields["localised"] = localised
                for kind, field in fields.items():
                    label = f"{kind} {tag}"
                    outfile = os.path.join(tmpdir, "split.csv")
                    table, averaged = vector_decomposition_sq(snapshot, qvector, field, outputfile=outfile)
                    qreal, qnorm, qhat, full, longitudinal, transverse = reference_split(snapshot, qvector, field)
                    scale = max(1.0, np.abs(full).max())
                    got_F, got_T, got_L = table[fft_names].values, table[t_names].values, table[l_names].values
                    check(f"columns and order {label}", list(table.columns) == expected_columns and len(table) == len(qvector))
                    check(f"reference FFT/L/T {label}", all(np.allclose(g, r, rtol=0, atol=1e-7 * scale) for g, r in ((got_F, full), (got_L, longitudinal), (got_T, transverse))))
                    check(f"L + T = FFT {label}", np.allclose(got_L + got_T, got_F, rtol=0, atol=1e-7 * scale))
                    check(f"T orthogonal to q {label}", np.allclose((qhat * got_T).sum(axis=1), 0, atol=1e-7 * scale))
                    check(f"L parallel to q {label}", np.allclose(got_L, qhat * (qhat * got_L).sum(axis=1)[:, None], rtol=0, atol=1e-7 * scale))
                    check(f"Sq_T, Sq_L are squared moduli {label}", np.allclose(table["Sq_T"], (np.abs(transverse) ** 2).sum(axis=1), rtol=0, atol=1e-6 * scale**2) and np.allclose(table["Sq_L"], (np.abs(longitudinal) ** 2).sum(axis=1), rtol=0, atol=1e-6 * scale**2))
                    check(f"S = S_L + S_T per q {label}", np.allclose(table["Sq"], table["Sq_L"] + table["Sq_T"], rtol=0, atol=1e-6 * scale**2))
                    regroup = table[["Sq", "Sq_T", "Sq_L"]].groupby(table["q"]).mean().reset_index()
                    check(f"averaged table {label}", list(averaged.columns) == ["q", "Sq", "Sq_T", "Sq_L"] and np.allclose(averaged.values, regroup.values, rtol=0, atol=1e-9 * scale**2))
                    saved = pd.read_csv(outfile)
                    check(f"csv {label}", np.allclose(saved.values, averaged.values, rtol=0, atol=1e-8 * scale**2 + 1e-8))

    # analytic: field along x only -> purely longitudinal for q || x, purely transverse for q || y
    snapshot = make_snapshot(2, 40, False)
    field = np.column_stack((rng.normal(size=40), np.zeros(40)))
    table, _ = vector_decomposition_sq(snapshot, np.array([[1, 0], [0, 1], [-2, 0], [0, 3]]), field)
    check("analytic: q || field has no transverse part", np.allclose(table["Sq_T"].values[[0, 2]], 0, atol=1e-8) and np.allclose(table["Sq_L"].values[[0, 2]], table["Sq"].values[[0, 2]], atol=1e-7))
    check("analytic: q perpendicular to field has no longitudinal part", np.allclose(table["Sq_L"].values[[1, 3]], 0, atol=1e-8) and np.allclose(table["Sq_T"].values[[1, 3]], table["Sq"].values[[1, 3]], atol=1e-7))

    # multi-frame variant (calls vector_decomposition_sq per frame)
    for ndim in (2, 3):
        nparticle, timesteps, dt = 17, [0, 4, 8, 12, 16, 20], 0.005
        boxlength = rng.uniform(5.0, 8.0, size=ndim)
        frames = [make_snapshot(ndim, nparticle, True, timestep=t, boxlength=boxlength) for t in timesteps]
        vectors = rng.normal(size=(len(timesteps), nparticle, ndim))
        snapshots = Snapshots(nsnapshots=len(frames), snapshots=frames)
        qvector = qlists[ndim][:5]
        prefix = os.path.join(tmpdir, f"series{ndim}")
        alldata = vector_fft_corr(snapshots, qvector, vectors, dt=dt, outputfile=prefix)
        parts = {"FFT": [], "T_FFT": [], "L_FFT": []}
        for n, frame in enumerate(frames):
            _, _, _, full, longitudinal, transverse = reference_split(frame, qvector, vectors[n])
            parts["FFT"].append(np.round(full, 8))
            parts["L_FFT"].append(np.round(longitudinal, 8))
            parts["T_FFT"].append(np.round(transverse, 8))
        for header, values in parts.items():
            x = np.array(values)
            corr = np.zeros((len(qvector), len(frames)))
            for a in range(len(qvector)):
                for lag in range(len(frames)):
                    corr[a, lag] = np.mean([(x[n, a] * np.conj(x[n - lag, a])).sum().real for n in range(lag, len(frames))])
                corr[a] /= corr[a, 0]
            got = alldata[header].values[:, ndim + 1 :]
            check(f"time correlation {header} d={ndim}", got.shape == corr.shape and np.allclose(got, corr, rtol=0, atol=1e-6))
        spectra = pd.read_csv(prefix + ".spectra.csv")
        check(f"multi-frame S = S_L + S_T d={ndim}", np.allclose(spectra["Sq"], spectra["Sq_T"] + spectra["Sq_L"], rtol=0, atol=1e-6))
finally:
    shutil.rmtree(tmpdir, ignore_errors=True)

if failures:
    print(f"{len(failures)} check(s) failed")
    sys.exit(1)
print("all checks passed")
sys.exit(0)
