"""Demo for the loop -> comprehension / hoisting refactoring of vector_fft_corr.

Run as: PYTHONPATH=<worktree> /venv/bin/python demo.py [dump.npz]
Synthetic multi-frame series (linear and logarithmic dump intervals, 2D and 3D, odd number of
frames, two frames) with time-dependent vector fields; the averaged spectra file, the returned
correlation tables and the saved .npy files are compared with a direct reference written here.
"""

import logging
import os
import shutil
import sys
import tempfile

import numpy as np
import pandas as pd

logging.disable(logging.CRITICAL)

from PyMatterSim.reader.reader_utils import SingleSnapshot, Snapshots  # noqa: E402
from PyMatterSim.static.vector import vector_fft_corr  # noqa: E402


def make_series(rng, ndim, npart, timesteps):
    boxlength = np.array([8.0, 6.5, 7.0])[:ndim]
    boxbounds = np.column_stack((np.zeros(ndim), boxlength))
    base = rng.random((npart, ndim)) * boxlength
    frames = []
    for k, step in enumerate(timesteps):
        positions = np.mod(base + 0.15 * k * rng.normal(size=(npart, ndim)), boxlength)
        frames.append(
            SingleSnapshot(
                timestep=int(step),
                nparticle=npart,
                particle_type=np.ones(npart, dtype=int),
                positions=positions,
                boxlength=boxlength,
                boxbounds=boxbounds,
                realbounds=boxbounds,
                hmatrix=np.diag(boxlength),
            )
        )
    return Snapshots(nsnapshots=len(frames), snapshots=frames)


def decompose(snapshot, qvector, vector):
    qreal = qvector.astype(float) * (2 * np.pi / snapshot.boxlength)[None, :]
    fft = np.zeros(qreal.shape, dtype=complex)
    for k, q in enumerate(qreal):
        phase = np.exp(-1j * (snapshot.positions @ q))
        fft[k] = (phase[:, None] * vector).sum(axis=0) / np.sqrt(snapshot.nparticle)
    qnorm = np.sqrt((qreal**2).sum(axis=1))
    qhat = qreal / qnorm[:, None]
    lpart = qhat * (qhat * fft).sum(axis=1)[:, None]
    return qreal, qnorm, {"FFT": fft, "T_FFT": fft - lpart, "L_FFT": lpart}


def correlate(series, linear):
    """series: complex array [nframes, ndim] -> normalised time correlation [nframes]"""
    nframes = series.shape[0]
    out = np.zeros(nframes)
    if linear:
        for lag in range(nframes):
            terms = [(series[n] * np.conj(series[n - lag])).sum().real for n in range(lag, nframes)]
            out[lag] = np.mean(terms)
    else:
        for n in range(nframes):
            out[n] = (series[n] * np.conj(series[0])).sum().real
    return out / out[0]


def check(rng, ndim, npart, timesteps, qvector, dt, tmpdir, dump, tag):
    snapshots = make_series(rng, ndim, npart, timesteps)
    nframes = snapshots.nsnapshots
    drift = rng.normal(size=(npart, ndim))
    vectors = np.array([drift + 0.4 * k * rng.normal(size=(npart, ndim)) for k in range(nframes)])
    prefix = os.path.join(tmpdir, tag)
    before = set(os.listdir(tmpdir))
    if dt is None:
        alldata = vector_fft_corr(snapshots, qvector, vectors, outputfile=prefix)
        dt = 0.002
    else:
        alldata = vector_fft_corr(snapshots, qvector, vectors, dt=dt, outputfile=prefix)
    created = set(os.listdir(tmpdir)) - before
    assert created == {f"{tag}.spectra.csv", f"{tag}.FFT.npy", f"{tag}.T_FFT.npy", f"{tag}.L_FFT.npy"}, created
    assert list(alldata.keys()) == ["FFT", "T_FFT", "L_FFT"]

    parts = [decompose(snapshots.snapshots[k], qvector, vectors[k]) for k in range(nframes)]
    qreal, qnorm = parts[0][0], parts[0][1]
    nq = qvector.shape[0]
    steps = np.array(timesteps)
    linear = len(set(np.diff(steps))) == 1
    times = (steps - steps[0]) * dt

    for header in ("FFT", "T_FFT", "L_FFT"):
        table = alldata[header]
        values = table.values
        assert values.shape == (nq, ndim + 1 + nframes)
        np.testing.assert_allclose(values[:, :ndim], qreal, atol=2e-8)
        np.testing.assert_allclose(values[:, ndim], qnorm, atol=2e-8)
        np.testing.assert_allclose(np.array(table.columns[ndim + 1 :], dtype=float), times, rtol=1e-12, atol=1e-15)
        for k in range(nq):
            series = np.array([parts[n][2][header][k] for n in range(nframes)])
            np.testing.assert_allclose(values[k, ndim + 1 :], correlate(series, linear), atol=2e-5)
        np.testing.assert_allclose(values[:, ndim + 1], 1.0, atol=1e-8)
        saved = np.load(prefix + "." + header + ".npy")
        np.testing.assert_array_equal(saved, values)
        dump[f"{tag}_{header}"] = values
        dump[f"{tag}_{header}_cols"] = np.array([str(c) for c in table.columns])

    # averaged spectra: frame average of the per-wavenumber averages of Sq, Sq_T, Sq_L
    with open(prefix + ".spectra.csv", "r", encoding="utf-8") as f:
        text = f.read()
    assert text.splitlines()[0] == "q,Sq,Sq_T,Sq_L"
    spectra = pd.read_csv(prefix + ".spectra.csv")
    qround = np.round(qnorm, 8)
    uniq = np.unique(qround)
    np.testing.assert_allclose(spectra["q"].values, uniq, atol=2e-8)
    for col, header in (("Sq", "FFT"), ("Sq_T", "T_FFT"), ("Sq_L", "L_FFT")):
        expect = np.zeros(len(uniq))
        for n in range(nframes):
            power = (np.abs(parts[n][2][header]) ** 2).sum(axis=1)
            expect += np.array([power[qround == u].mean() for u in uniq])
        expect /= nframes
        np.testing.assert_allclose(spectra[col].values, expect, atol=1e-6)
    np.testing.assert_allclose(spectra["Sq"].values, spectra["Sq_T"].values + spectra["Sq_L"].values, atol=1e-6)
    dump[f"{tag}_spectra_csv"] = np.array(text)


def main():
    rng = np.random.default_rng(990071)
    tmpdir = tempfile.mkdtemp()
    dump = {}
    try:
        q2 = np.array([[1, 0], [0, 1], [-1, 0], [1, 1], [1, -1], [2, 1], [0, -3]])
        q3 = np.array([[1, 0, 0], [0, 0, -1], [0, 1, 0], [1, 1, -1], [2, -1, 0]])
        # linear dump interval, odd number of frames, default dt
        check(rng, 2, 21, [100, 150, 200, 250, 300], q2, None, tmpdir, dump, "lin2d")
        # logarithmic dump interval, non-default dt
        check(rng, 2, 18, [0, 1, 2, 4, 8, 16], q2, 0.005, tmpdir, dump, "log2d")
        # 3D, linear, even number of frames
        check(rng, 3, 25, [0, 10, 20, 30], q3, 0.01, tmpdir, dump, "lin3d")
        # 3D, logarithmic
        check(rng, 3, 16, [5, 6, 8, 12, 20], q3, 0.002, tmpdir, dump, "log3d")
        # two frames and a single wave vector
        check(rng, 2, 14, [0, 7], np.array([[2, 2]]), 0.002, tmpdir, dump, "two2d")
    finally:
        shutil.rmtree(tmpdir, ignore_errors=True)

    if len(sys.argv) > 1:
        np.savez(sys.argv[1], **dump)
    print("vector_fft_corr demo OK:", len(dump), "objects checked")


if __name__ == "__main__":
    main()
