# coding = utf-8
"""
Demo for PyMatterSim.utils.geometry.triangle_area (which measures the three sides
through PyMatterSim.utils.pbc.remove_pbc).

Expected values are computed independently here:
 * small triangles whose vertices are thrown into arbitrary periodic images: the
   area must equal the plain cross-product area of the un-shifted triangle
   (2D / 3D, orthogonal and lower-triangular cells with negative tilt, every
   periodicity mask; shifts only along the periodic axes);
 * arbitrary (large) triangles: Heron's formula on side lengths obtained with a
   per-vector reference minimum-image routine written here (np.linalg.solve + loop);
 * orthogonal cells: side lengths from a brute-force search over periodic images.
Exits 0 when everything agrees.
"""

import itertools
import logging
import sys

import numpy as np

from PyMatterSim.utils.geometry import triangle_area
from PyMatterSim.utils.pbc import remove_pbc

logging.disable(logging.CRITICAL)


def reference_min_image(vec, hmatrix, ppp):
    frac = np.linalg.solve(np.asarray(hmatrix, dtype=float).T, np.asarray(vec, dtype=float))
    out = np.zeros(len(frac))
    for j, periodic in enumerate(ppp):
        if periodic:
            frac[j] -= np.round(frac[j])
        out += frac[j] * hmatrix[j]
    return out


def heron(a, b, c):
    p = 0.5 * (a + b + c)
    return np.sqrt(p * (p - a) * (p - b) * (p - c))


def plain_area(tri):
    u, v = tri[1] - tri[0], tri[2] - tri[0]
    if tri.shape[1] == 2:
        return 0.5 * abs(u[0] * v[1] - u[1] * v[0])
    return 0.5 * np.linalg.norm(np.cross(u, v))


def make_cells(rng):
    cells = []
    for ndim in (2, 3):
        cells.append(("orthogonal", np.diag(rng.uniform(8.0, 20.0, size=ndim))))
        for sign in (1.0, -1.0):
            tri = np.diag(rng.uniform(8.0, 20.0, size=ndim))
            for i in range(ndim):
                for j in range(i):
                    tri[i, j] = sign * rng.uniform(0.2, 0.49) * tri[j, j]
            cells.append(("triclinic", tri))
    return cells


def main():
    rng = np.random.default_rng(5150)
    ncases = 0
    for kind, hmatrix in make_cells(rng):
        ndim = hmatrix.shape[0]
        for mask in itertools.product((0, 1), repeat=ndim):
            mask_arr = np.array(mask)
            for _ in range(8):
                # (1) small triangle, vertices moved to arbitrary images along the periodic axes
                centre = rng.uniform(-1.0, 1.0, size=ndim) @ hmatrix
                small = centre + rng.uniform(-0.8, 0.8, size=(3, ndim))
                images = small + (rng.integers(-3, 4, size=(3, ndim)) * mask_arr) @ hmatrix
                for ppp in (list(mask), mask_arr):
                    got = triangle_area(images, hmatrix, ppp)
                    assert np.ndim(got) == 0 and isinstance(float(got), float)
                    assert abs(got - plain_area(small)) <= 1e-8 * max(1.0, plain_area(small)), (kind, mask)
                    ncases += 1

                # (2) arbitrary triangle, sides from the per-vector reference
                big = rng.uniform(-2.0, 2.0, size=(3, ndim)) @ hmatrix
                sides = [
                    np.linalg.norm(reference_min_image(big[i] - big[j], hmatrix, mask))
                    for i, j in ((0, 1), (0, 2), (1, 2))
                ]
                if sum(sides) <= 2.0 * max(sides) * (1 + 1e-3):
                    # minimum-image sides need not satisfy the triangle inequality (Heron -> nan),
                    # and Heron is ill-conditioned for nearly flat triangles; skip those
                    continue
                expected = heron(*sides)
                got = triangle_area(big, hmatrix, mask_arr)
                assert abs(got - expected) <= 1e-7 * max(1.0, expected), (kind, mask, got, expected)
                # extra rows beyond the first three are ignored
                padded = np.vstack([big, rng.normal(size=(2, ndim))])
                assert triangle_area(padded, hmatrix, mask_arr) == got
                # the sides are the ones remove_pbc gives for whole arrays as well
                rows = remove_pbc(np.array([big[0] - big[1], big[0] - big[2], big[1] - big[2]]), hmatrix, mask_arr)
                assert np.allclose(np.linalg.norm(rows, axis=1), sides, rtol=0, atol=1e-8)
                ncases += 1

                # (3) orthogonal cells: brute-force shortest images
                if kind == "orthogonal":
                    offsets = (np.array(list(itertools.product(range(-5, 6), repeat=ndim))) * mask_arr) @ hmatrix
                    brute = [
                        np.linalg.norm((big[i] - big[j])[None, :] + offsets, axis=1).min()
                        for i, j in ((0, 1), (0, 2), (1, 2))
                    ]
                    assert np.allclose(brute, sides, rtol=0, atol=1e-9), "not the shortest images"
                    assert abs(got - heron(*brute)) <= 1e-7 * max(1.0, got)
                    ncases += 1

    # default mask is the fully periodic 2D one
    box = np.array([[10.0, 0.0], [0.0, 10.0]])
    tri = np.array([[0.5, 0.5], [9.5, 0.5], [0.5, 9.5]])  # right triangle with legs 1 across the boundary
    assert abs(triangle_area(tri, box) - 0.5) < 1e-12
    assert abs(triangle_area(tri, box, [1, 1]) - 0.5) < 1e-12
    # without periodicity the legs are 9
    assert abs(triangle_area(tri, box, [0, 0]) - 40.5) < 1e-10
    # periodic along x only: legs 1 (x) and 9 (y)
    assert abs(triangle_area(tri, box, [1, 0]) - 4.5) < 1e-11

    print(f"triangle_area demo: {ncases} comparisons OK")
    return 0


if __name__ == "__main__":
    sys.exit(main())
