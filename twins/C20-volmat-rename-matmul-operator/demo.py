# coding = utf-8
"""
Demo for PyMatterSim.neighbors.freud_neighbors / read_neighbors (property C20).

Builds small synthetic periodic configurations (2D and 3D, box origin at zero,
shifted origin, symmetric origin, several frames with unequal particle numbers)
and checks, through the public functions only,

  * convert_configuration : centred coordinates, z padding in 2D, freud boxes
  * cal_neighbors         : the three output files, byte for byte, against a
                            reference writer in this file that talks to freud
                            directly; tessellation invariants (symmetry, equal
                            positive weights, volumes sum to the box volume)
  * read_neighbors        : hand-off of the written files to the reader
                            (full table and truncated table, Nmax < cn)
  * VolumeMatrix          : raw matrix against a reference finite-difference
                            implementation in this file, for a frame index != 0,
                            rows summing to zero over each displaced coordinate,
                            saving of the raw / transformed matrix

Exit status 0 when everything agrees.
"""

import os
import shutil
import sys
import tempfile

import freud
import numpy as np

from PyMatterSim.neighbors.freud_neighbors import (
    VolumeMatrix,
    cal_neighbors,
    convert_configuration,
)
from PyMatterSim.neighbors.read_neighbors import read_neighbors
from PyMatterSim.reader.reader_utils import SingleSnapshot, Snapshots

FAILURES = []


def check(cond, message):
    """record a failed expectation"""
    if not cond:
        FAILURES.append(message)
        print("FAIL:", message)


# --------------------------------------------------------------------------
# synthetic input
# --------------------------------------------------------------------------
def make_snapshots(seed, ndim, nparticles, lo, length):
    """random periodic configurations in the orthogonal box [lo, lo+length)"""
    rng = np.random.default_rng(seed)
    lo = np.asarray(lo, dtype=float)
    length = np.asarray(length, dtype=float)
    frames = []
    for n, npart in enumerate(nparticles):
        positions = lo + rng.random((npart, ndim)) * length
        frames.append(
            SingleSnapshot(
                timestep=100 * n,
                nparticle=npart,
                particle_type=np.ones(npart, dtype=np.int32),
                positions=positions,
                boxlength=length.copy(),
                boxbounds=np.column_stack((lo, lo + length)),
                realbounds=None,
                hmatrix=np.diag(length),
            )
        )
    return Snapshots(nsnapshots=len(frames), snapshots=frames)


# --------------------------------------------------------------------------
# reference implementations (independent of the library code)
# --------------------------------------------------------------------------
def ref_box_points(snapshot):
    """centre the box at the origin by hand, pad z for 2D"""
    ndim = snapshot.positions.shape[1]
    centre = np.array([b[0] + 0.5 * (b[1] - b[0]) for b in snapshot.boxbounds])
    pts = np.zeros((snapshot.positions.shape[0], 3))
    for d in range(ndim):
        pts[:, d] = snapshot.positions[:, d] - centre[d]
    if ndim == 2:
        box = freud.box.Box(Lx=snapshot.boxlength[0], Ly=snapshot.boxlength[1], is2D=True)
    else:
        box = freud.box.Box(
            Lx=snapshot.boxlength[0], Ly=snapshot.boxlength[1], Lz=snapshot.boxlength[2]
        )
    return box, pts


def ref_voronoi(snapshot):
    """rows (i, j, weight) and volumes straight from freud"""
    box, pts = ref_box_points(snapshot)
    voro = freud.locality.Voronoi()
    voro.compute((box, pts))
    pairs = np.array(voro.nlist[:], dtype=np.int64)
    weights = np.array(voro.nlist.weights, dtype=np.float64)
    volumes = np.array(voro.volumes, dtype=np.float64)
    return pairs, weights, volumes


def ref_files(snapshots):
    """expected text of the three files"""
    ndim = snapshots.snapshots[0].positions.shape[1]
    bondname = "edgelengthlist" if ndim == 2 else "facearealist"
    neigh, bond, overall = [], [], ["id cn area_or_volume\n"]
    for snapshot in snapshots.snapshots:
        pairs, weights, volumes = ref_voronoi(snapshot)
        neigh.append("id   cn   neighborlist\n")
        bond.append("id   cn   %s\n" % bondname)
        for i in range(snapshot.positions.shape[0]):
            rows = np.flatnonzero(pairs[:, 0] == i)
            cn = len(rows)
            neigh.append("%d %d " % (i + 1, cn) + "".join("%d " % (pairs[r, 1] + 1) for r in rows) + "\n")
            bond.append("%d %d " % (i + 1, cn) + "".join("%.6f " % weights[r] for r in rows) + "\n")
            overall.append("%d %d %.6f\n" % (i + 1, cn, volumes[i]))
    return "".join(neigh), "".join(bond), "".join(overall)


def ref_volume_matrix(snapshot, ndim, deltar):
    """central finite differences of the cell volumes, self term from
    translation invariance, normalisation by the unperturbed volume"""
    box, pts0 = ref_box_points(snapshot)
    npart = pts0.shape[0]

    def volumes(points):
        return np.array(freud.locality.Voronoi().compute((box, points)).volumes, dtype=np.float64)

    vol0 = volumes(pts0)
    mat = np.zeros((npart, npart * ndim))
    for k in range(npart):
        for d in range(ndim):
            plus = pts0.copy()
            plus[k, d] += deltar
            minus = pts0.copy()
            minus[k, d] -= deltar
            mat[:, ndim * k + d] = (volumes(plus) - volumes(minus)) / (2.0 * deltar)
            mat[k, ndim * k + d] = 0.0
    for i in range(npart):
        for d in range(ndim):
            mat[i, ndim * i + d] = -sum(mat[i, ndim * k + d] for k in range(npart) if k != i)
    return mat / vol0[:, None]


# --------------------------------------------------------------------------
# checks
# --------------------------------------------------------------------------
def check_convert(tag, snapshots):
    """convert_configuration against hand-centred coordinates"""
    list_box, list_points = convert_configuration(snapshots)
    check(len(list_box) == snapshots.nsnapshots, f"{tag}: number of boxes")
    check(len(list_points) == snapshots.nsnapshots, f"{tag}: number of point sets")
    for n, snapshot in enumerate(snapshots.snapshots):
        box, pts = ref_box_points(snapshot)
        got = np.asarray(list_points[n])
        check(got.shape == (snapshot.nparticle, 3), f"{tag}: frame {n} points shape {got.shape}")
        check(got.dtype == np.float64, f"{tag}: frame {n} points dtype {got.dtype}")
        check(np.allclose(got, pts, rtol=0, atol=1e-12), f"{tag}: frame {n} centred points")
        if snapshot.positions.shape[1] == 2:
            check(np.all(got[:, 2] == 0.0), f"{tag}: frame {n} z padding")
        check(list_box[n] == box, f"{tag}: frame {n} freud box {list_box[n]} != {box}")
        check(bool(list_box[n].is2D) == (snapshot.positions.shape[1] == 2), f"{tag}: frame {n} is2D")
        # the input must not be modified
        check(snapshot.positions.shape[1] in (2, 3), f"{tag}: frame {n} input shape changed")


def parse_rows(text, header_every_frame, nparticles):
    """split a written file into frames of rows of tokens"""
    lines = text.splitlines()
    frames, cursor = [], 0
    if not header_every_frame:
        cursor = 1
    for npart in nparticles:
        if header_every_frame:
            cursor += 1
        frames.append([line.split() for line in lines[cursor : cursor + npart]])
        cursor += npart
    check(cursor == len(lines), "file has trailing or missing lines")
    return frames


def check_neighbors(tag, snapshots, workdir):
    """cal_neighbors files, invariants, and the reader"""
    ndim = snapshots.snapshots[0].positions.shape[1]
    nparticles = [s.nparticle for s in snapshots.snapshots]
    out = os.path.join(workdir, tag)
    result = cal_neighbors(snapshots, outputfile=out)
    check(result is None, f"{tag}: cal_neighbors returns None")
    bondfile = out + (".edgelength.dat" if ndim == 2 else ".facearea.dat")
    other = out + (".facearea.dat" if ndim == 2 else ".edgelength.dat")
    check(not os.path.exists(other), f"{tag}: unexpected file {other}")

    texts = []
    for name in (out + ".neighbor.dat", bondfile, out + ".overall.dat"):
        with open(name, "r", encoding="utf-8") as f:
            texts.append(f.read())
    expected = ref_files(snapshots)
    for got, want, label in zip(texts, expected, ("neighbor", "bond", "overall")):
        check(got == want, f"{tag}: {label} file differs from the reference writer")

    # invariants from the written text itself
    nframes = parse_rows(texts[0], True, nparticles)
    bframes = parse_rows(texts[1], True, nparticles)
    oframes = parse_rows(texts[2], False, nparticles)
    for n, snapshot in enumerate(snapshots.snapshots):
        npart = snapshot.nparticle
        nbr, wgt = {}, {}
        for i in range(npart):
            nrow, brow, orow = nframes[n][i], bframes[n][i], oframes[n][i]
            check(int(nrow[0]) == i + 1 and int(brow[0]) == i + 1 and int(orow[0]) == i + 1, f"{tag}: frame {n} id order at row {i}")
            cn = int(nrow[1])
            check(cn == len(nrow) - 2, f"{tag}: frame {n} particle {i + 1} cn vs neighbours")
            check(int(brow[1]) == cn and len(brow) - 2 == cn, f"{tag}: frame {n} particle {i + 1} cn vs weights")
            check(int(orow[1]) == cn, f"{tag}: frame {n} particle {i + 1} cn in overall")
            nbr[i + 1] = [int(j) for j in nrow[2:]]
            wgt[i + 1] = [float(w) for w in brow[2:]]
        for i in range(1, npart + 1):
            for j, w in zip(nbr[i], wgt[i]):
                check(1 <= j <= npart, f"{tag}: frame {n} neighbour id out of range")
                check(w > 0.0, f"{tag}: frame {n} weight {i}-{j} not positive")
                back = [wb for jb, wb in zip(nbr[j], wgt[j]) if jb == i]
                check(len(back) >= 1, f"{tag}: frame {n} bond {i}-{j} not symmetric")
                check(any(abs(wb - w) <= 2.1e-6 for wb in back), f"{tag}: frame {n} weight {i}-{j} differs in the two directions")
        total = sum(float(row[2]) for row in oframes[n])
        check(abs(total - np.prod(snapshot.boxlength)) <= 1e-6 * npart, f"{tag}: frame {n} volumes sum {total} vs box {np.prod(snapshot.boxlength)}")

    # hand-off to the reader: full tables
    with open(out + ".neighbor.dat", "r", encoding="utf-8") as fn, open(bondfile, "r", encoding="utf-8") as fb:
        for n, snapshot in enumerate(snapshots.snapshots):
            npart = snapshot.nparticle
            pairs, weights, _ = ref_voronoi(snapshot)
            counts = np.bincount(pairs[:, 0], minlength=npart)
            width = counts.max()
            want_n = np.zeros((npart, width + 1), dtype=np.int32)
            want_w = np.zeros((npart, width + 1))
            for i in range(npart):
                rows = np.flatnonzero(pairs[:, 0] == i)
                want_n[i, 0] = len(rows)
                want_n[i, 1 : len(rows) + 1] = pairs[rows, 1]
                want_w[i, 0] = len(rows)
                want_w[i, 1 : len(rows) + 1] = [float("%.6f" % weights[r]) for r in rows]
            got_n = read_neighbors(fn, npart)
            got_w = read_neighbors(fb, npart)
            check(got_n.dtype == np.int32, f"{tag}: frame {n} reader dtype {got_n.dtype}")
            check(got_n.shape == want_n.shape and np.array_equal(got_n, want_n), f"{tag}: frame {n} reader neighbour table")
            check(got_w.shape == want_w.shape and np.array_equal(got_w, want_w), f"{tag}: frame {n} reader weight table")
        check(fn.readline() == "" and fb.readline() == "", f"{tag}: reader did not consume the files")

    # hand-off to the reader: truncated tables (Nmax smaller than some cn)
    nmax = 4
    with open(out + ".neighbor.dat", "r", encoding="utf-8") as fn, open(bondfile, "r", encoding="utf-8") as fb:
        for n, snapshot in enumerate(snapshots.snapshots):
            npart = snapshot.nparticle
            pairs, weights, _ = ref_voronoi(snapshot)
            want_n = np.zeros((npart, nmax + 1), dtype=np.int32)
            want_w = np.zeros((npart, nmax + 1))
            for i in range(npart):
                rows = np.flatnonzero(pairs[:, 0] == i)[:nmax]
                want_n[i, 0] = len(rows)
                want_n[i, 1 : len(rows) + 1] = pairs[rows, 1]
                want_w[i, 0] = len(rows)
                want_w[i, 1 : len(rows) + 1] = [float("%.6f" % weights[r]) for r in rows]
            got_n = read_neighbors(fn, npart, Nmax=nmax)
            got_w = read_neighbors(fb, npart, Nmax=nmax)
            check(np.array_equal(got_n, want_n), f"{tag}: frame {n} truncated neighbour table")
            check(np.array_equal(got_w, want_w), f"{tag}: frame {n} truncated weight table")


def check_volume_matrix(tag, snapshots, ndim, nconfig, deltar, workdir):
    """VolumeMatrix for frame nconfig"""
    snapshot = snapshots.snapshots[nconfig]
    npart = snapshot.nparticle
    before = [s.positions.copy() for s in snapshots.snapshots]

    raw = VolumeMatrix(snapshots, ndim=ndim, nconfig=nconfig, deltar=deltar, transform_matrix=False)
    check(raw.shape == (npart, npart * ndim), f"{tag}: raw matrix shape {raw.shape}")
    want = ref_volume_matrix(snapshot, ndim, deltar)
    scale = np.abs(want).max()
    check(np.allclose(raw, want, rtol=0, atol=1e-9 * scale), f"{tag}: raw matrix vs reference, max diff {np.abs(raw - want).max():.3e}")
    colsum = raw.reshape(npart, npart, ndim).sum(axis=1)
    check(np.abs(colsum).max() <= 1e-12 * scale * npart, f"{tag}: rows do not sum to zero, {np.abs(colsum).max():.3e}")
    for n, s in enumerate(snapshots.snapshots):
        check(np.array_equal(s.positions, before[n]), f"{tag}: input positions of frame {n} modified")

    # deterministic, and saving the raw matrix
    outfile = os.path.join(workdir, tag + "_raw")
    raw2 = VolumeMatrix(snapshots, ndim=ndim, nconfig=nconfig, deltar=deltar, transform_matrix=False, outputfile=outfile)
    check(np.array_equal(raw, raw2), f"{tag}: raw matrix not reproducible")
    check(os.path.exists(outfile + ".npy"), f"{tag}: raw matrix not saved")
    if os.path.exists(outfile + ".npy"):
        check(np.array_equal(np.load(outfile + ".npy"), raw2), f"{tag}: saved raw matrix differs")

    # default arguments: transformed matrix
    outfile = os.path.join(workdir, tag + "_tr")
    transformed = VolumeMatrix(snapshots, ndim=ndim, nconfig=nconfig, deltar=deltar, outputfile=outfile)
    check(transformed.shape == (npart * ndim, npart * ndim), f"{tag}: transformed shape {transformed.shape}")
    check(os.path.exists(outfile + ".npy"), f"{tag}: transformed matrix not saved")
    if os.path.exists(outfile + ".npy"):
        check(np.array_equal(np.load(outfile + ".npy"), transformed, equal_nan=True), f"{tag}: saved transformed matrix differs")
    # same chain of products on the raw matrix (A A^T is nearly singular, so
    # only the identical chain of operations can be compared)
    chain = np.matmul(np.matmul(raw.T, np.linalg.inv(np.matmul(raw, raw.T))), raw)
    check(np.array_equal(transformed, chain, equal_nan=True), f"{tag}: transformed matrix vs product chain")


def main():
    workdir = tempfile.mkdtemp(prefix="c20_demo_")
    try:
        cases = {
            # 2D, origin at zero, two frames with unequal particle numbers
            "n2d_zero": make_snapshots(1, 2, [40, 41], [0.0, 0.0], [6.0, 7.5]),
            # 2D, shifted (negative and positive) origin, three frames
            "n2d_shift": make_snapshots(2, 2, [35, 36, 30], [-3.25, 11.5], [5.5, 6.0]),
            # 2D, symmetric bounds: boxbounds.sum() == 0, positions already centred
            "n2d_sym": make_snapshots(3, 2, [33], [-3.0, -3.5], [6.0, 7.0]),
            # 2D, bounds that sum to zero without being centred is not a valid
            # centred input for the library, so it is not exercised here
            # 3D, origin at zero
            "n3d_zero": make_snapshots(4, 3, [60, 61], [0.0, 0.0, 0.0], [4.0, 4.5, 5.0]),
            # 3D, shifted origin
            "n3d_shift": make_snapshots(5, 3, [55, 50], [2.5, -7.0, 0.75], [4.5, 4.0, 4.25]),
            # 3D, symmetric bounds
            "n3d_sym": make_snapshots(6, 3, [52], [-2.0, -2.25, -2.5], [4.0, 4.5, 5.0]),
        }
        for tag, snapshots in cases.items():
            check_convert(tag, snapshots)
            check_neighbors(tag, snapshots, workdir)

        vm_cases = {
            "v2d_shift": (make_snapshots(7, 2, [12, 13, 11], [-1.5, 4.0], [4.0, 4.5]), 2, 1, 0.01),
            "v2d_zero_last": (make_snapshots(8, 2, [10, 14], [0.0, 0.0], [4.0, 4.0]), 2, 1, 0.005),
            "v2d_first": (make_snapshots(9, 2, [12, 9], [1.0, 2.0], [3.5, 4.0]), 2, 0, 0.01),
            "v3d_shift": (make_snapshots(10, 3, [9, 10], [0.5, -2.0, 3.0], [3.0, 3.2, 3.4]), 3, 1, 0.01),
            "v3d_sym": (make_snapshots(11, 3, [10], [-1.5, -1.5, -1.5], [3.0, 3.0, 3.0]), 3, 0, 0.02),
        }
        for tag, (snapshots, ndim, nconfig, deltar) in vm_cases.items():
            check_volume_matrix(tag, snapshots, ndim, nconfig, deltar, workdir)
    finally:
        shutil.rmtree(workdir, ignore_errors=True)

    if FAILURES:
        print(f"{len(FAILURES)} check(s) failed")
        return 1
    print("all checks passed")
    return 0


if __name__ == "__main__":
    sys.exit(main())
