"""Demo for the loop restructuring in static/geometric.py:q8_tetrahedral (the nested
`for j ... for k in range(j+1, ...)` loop over the 6 neighbour pairs is replaced by one loop
over a pair list that is built once before the frame/particle loops).

Checks, through the public function only:
  * diamond lattice (every atom has a perfect tetrahedral shell) -> order parameter == 1,
    in an orthogonal cell and after shearing the same crystal into a triclinic description
    (lattice-equivalent cell with negative tilt), with atoms stored in arbitrary images;
  * random configurations (orthogonal / triclinic cells, several frames, open boundaries)
    against a plain reference implementation written here;
  * saving to outputfile.
Exit code 0 on success.
"""

import logging
import os
import shutil
import sys
import tempfile

import numpy as np

from PyMatterSim.reader.reader_utils import SingleSnapshot, Snapshots
from PyMatterSim.static.geometric import q8_tetrahedral

logging.disable(logging.CRITICAL)


def ref_min_image(vec, hmatrix, ppp):
    frac = np.linalg.solve(hmatrix.T, vec)
    out = np.zeros(len(vec))
    for k in range(len(vec)):
        f = frac[k]
        if ppp[k]:
            f = f - np.rint(f)
        out += f * hmatrix[k]
    return out


def snapshot_from(positions, hmatrix):
    nparticle, ndim = positions.shape
    boxlength = np.diag(hmatrix).copy()
    boxbounds = np.c_[np.zeros(ndim), boxlength]
    return SingleSnapshot(
        timestep=0, nparticle=nparticle, particle_type=np.ones(nparticle, dtype=int), positions=positions,
        boxlength=boxlength, boxbounds=boxbounds, realbounds=boxbounds, hmatrix=hmatrix,
    )


def ref_q8(snapshots, ppp):
    nparticle = snapshots.snapshots[0].nparticle
    out = np.zeros((snapshots.nsnapshots, nparticle))
    for n, snap in enumerate(snapshots.snapshots):
        for i in range(nparticle):
            vecs = []
            for j in range(nparticle):
                if j != i:
                    vecs.append(ref_min_image(snap.positions[j] - snap.positions[i], snap.hmatrix, ppp))
            vecs = sorted(vecs, key=np.linalg.norm)[:4]
            total = 0.0
            for a in range(4):
                for b in range(a + 1, 4):
                    cosine = float(np.dot(vecs[a], vecs[b]) / np.linalg.norm(vecs[a]) / np.linalg.norm(vecs[b]))
                    total += (cosine + 1.0 / 3.0) ** 2
            # normalisation used by the library: 1 - (3/8) * sum / 4
            out[n, i] = 1.0 - 3.0 / 8.0 * total / 4.0
    return out


def diamond(ncell, a):
    basis = np.array([[0, 0, 0], [0, 2, 2], [2, 0, 2], [2, 2, 0],
                      [1, 1, 1], [1, 3, 3], [3, 1, 3], [3, 3, 1]]) / 4.0
    cells = np.array([[x, y, z] for x in range(ncell) for y in range(ncell) for z in range(ncell)])
    return (cells[:, None, :] + basis[None, :, :]).reshape(-1, 3) * a, np.diag([ncell * a] * 3)


def main():
    rng = np.random.default_rng(5)
    tmpdir = tempfile.mkdtemp()
    try:
        ppp = np.array([1, 1, 1])

        # ---- perfect tetrahedral network
        positions, hmatrix = diamond(2, 1.7)
        nparticle = positions.shape[0]
        shifts = rng.integers(-2, 3, size=(nparticle, 3)) @ hmatrix
        order = rng.permutation(nparticle)
        snap_a = snapshot_from((positions + shifts + np.array([0.3, -1.2, 0.77]))[order], hmatrix)
        # the same crystal, described by a lattice-equivalent sheared cell (negative tilts)
        length = hmatrix[0, 0]
        hsheared = np.array([[length, 0, 0], [-length, length, 0], [length, -length, length]])
        snap_b = snapshot_from(positions + rng.integers(-2, 3, size=(nparticle, 3)) @ hsheared, hsheared)
        for snap in (snap_a, snap_b):
            got = q8_tetrahedral(Snapshots(nsnapshots=1, snapshots=[snap]), ppp=ppp)
            assert got.shape == (1, nparticle)
            assert np.allclose(got, 1.0, rtol=0, atol=1e-12), np.abs(got - 1).max()

        # ---- random configurations against the reference
        cells = {
            "ortho": np.diag([5.0, 4.0, 6.0]),
            "triclinic": np.array([[5.0, 0.0, 0.0], [-1.4, 4.0, 0.0], [0.9, -1.0, 6.0]]),
        }
        for name, hmatrix in cells.items():
            for nparticle in (5, 40):  # 5 = the minimum number of particles (centre + 4 neighbours)
                snaps = []
                for _ in range(3):
                    frac = rng.uniform(0, 1, size=(nparticle, 3)) + rng.integers(-2, 3, size=(nparticle, 3))
                    snaps.append(snapshot_from(frac @ hmatrix, hmatrix))
                snapshots = Snapshots(nsnapshots=3, snapshots=snaps)
                for this_ppp in (np.array([1, 1, 1]), np.array([0, 0, 0]), np.array([1, 0, 1])):
                    want = ref_q8(snapshots, this_ppp)
                    outfile = os.path.join(tmpdir, f"q8_{name}_{nparticle}.npy")
                    got = q8_tetrahedral(snapshots, ppp=this_ppp, outputfile=outfile)
                    assert got.shape == want.shape
                    assert np.allclose(got, want, rtol=1e-11, atol=1e-12), (name, nparticle, np.abs(got - want).max())
                    assert np.array_equal(np.load(outfile), got)
    finally:
        shutil.rmtree(tmpdir, ignore_errors=True)
    print("OK")
    return 0


if __name__ == "__main__":
    sys.exit(main())
