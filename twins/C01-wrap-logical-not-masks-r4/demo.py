"""Standalone demo: LAMMPS text dump reading fidelity (property C01).

Builds synthetic dump files in a temporary directory, reads them through the
public entry points (DumpReader.read_onefile and read_lammps_wrapper) and
compares every observable with values computed independently in this file.
Exits 0 on success, 1 on any mismatch.
"""
import os
import shutil
import sys
import tempfile

import numpy as np

from PyMatterSim.reader.dump_reader import DumpReader
from PyMatterSim.reader.lammps_reader_helper import read_lammps_wrapper
from PyMatterSim.reader.reader_utils import DumpFileType

FOCUS = "wrap-logical-not-masks"
RTOL = 1e-12


def close(a, b, scale=1.0):
    a = np.asarray(a, dtype=float)
    b = np.asarray(b, dtype=float)
    if a.shape != b.shape:
        return False
    if a.size == 0:
        return True
    return bool(np.all(np.abs(a - b) <= RTOL * (scale + np.abs(b))))


def num(v):
    """text from which float() recovers v exactly"""
    return repr(float(v))


def make_frame(rng, ndim, style, triclinic, nparticle, timestep, tilt_sign, extra_cols):
    """returns (list of text lines, dict of expected observables)"""
    lo3 = rng.uniform(-7.0, 5.0, size=3)
    len3 = rng.uniform(3.0, 11.0, size=3)
    hi3 = lo3 + len3
    lines = ["ITEM: TIMESTEP", str(timestep), "ITEM: NUMBER OF ATOMS", str(nparticle)]
    exp = {"timestep": timestep, "nparticle": nparticle}

    if triclinic:
        xy = tilt_sign[0] * rng.uniform(0.2, 0.45) * len3[0]
        xz = tilt_sign[1] * rng.uniform(0.2, 0.45) * len3[0] if ndim == 3 else 0.0
        yz = tilt_sign[2] * rng.uniform(0.2, 0.45) * len3[1] if ndim == 3 else 0.0
        xlo_b = lo3[0] + min(0.0, xy, xz, xy + xz)
        xhi_b = hi3[0] + max(0.0, xy, xz, xy + xz)
        ylo_b = lo3[1] + min(0.0, yz)
        yhi_b = hi3[1] + max(0.0, yz)
        lines.append("ITEM: BOX BOUNDS xy xz yz pp pp pp")
        lines.append(f"{num(xlo_b)} {num(xhi_b)} {num(xy)}")
        lines.append(f"{num(ylo_b)} {num(yhi_b)} {num(xz)}")
        lines.append(f"{num(lo3[2])} {num(hi3[2])} {num(yz)}")
        hfull = np.array([[len3[0], 0.0, 0.0], [xy, len3[1], 0.0], [xz, yz, len3[2]]])
        exp["hmatrix"] = hfull[:ndim, :ndim]
        exp["boxlength"] = len3[:ndim]
        exp["boxbounds"] = np.array([[xlo_b, xhi_b], [ylo_b, yhi_b], [lo3[2], hi3[2]]])[:ndim]
        exp["realbounds"] = np.column_stack((lo3, hi3))[:ndim]
    else:
        lines.append("ITEM: BOX BOUNDS pp pp pp")
        for d in range(3):
            lines.append(f"{num(lo3[d])} {num(hi3[d])}")
        exp["hmatrix"] = np.diag(len3[:ndim])
        exp["boxlength"] = len3[:ndim]
        exp["boxbounds"] = np.column_stack((lo3, hi3))[:ndim]
        exp["realbounds"] = None

    coord_names = {"x": "x y z", "xs": "xs ys zs", "xu": "xu yu zu"}[style].split()[:ndim]
    extra_names = ["vx", "vy", "c_q"][:extra_cols]
    lines.append("ITEM: ATOMS id type " + " ".join(coord_names + extra_names))

    types = rng.integers(1, 4, size=nparticle)
    lo, length = lo3[:ndim], len3[:ndim]
    scaled = rng.uniform(0.0, 1.0, size=(nparticle, ndim))
    if style == "xs":
        written = scaled
        if triclinic:
            expected_pos = lo + scaled @ exp["hmatrix"]
        else:
            expected_pos = lo + scaled * length
    elif style == "xu":
        # unwrapped: anywhere, many box lengths away; returned verbatim
        written = lo + (scaled + rng.integers(-3, 4, size=(nparticle, ndim))) * length
        expected_pos = written
    else:  # wrapped style 'x'
        if triclinic:
            written = lo + scaled @ exp["hmatrix"]
            expected_pos = written  # triclinic: verbatim
        else:
            inside = lo + (0.02 + 0.96 * scaled) * length
            shift = rng.integers(-1, 2, size=(nparticle, ndim))  # -1, 0, +1 box
            written = inside + shift * length
            if nparticle >= 2:
                written[0] = lo            # exactly on the lower bound: must stay
                written[1] = hi3[:ndim]    # exactly on the upper bound: must stay
            # reference wrap written independently
            expected_pos = written.copy()
            for i in range(nparticle):
                for d in range(ndim):
                    if expected_pos[i, d] < lo[d]:
                        expected_pos[i, d] = expected_pos[i, d] + length[d]
                    if expected_pos[i, d] > lo[d] + length[d]:
                        expected_pos[i, d] = expected_pos[i, d] - length[d]
            exp["inside"] = (lo, lo + length)

    order = rng.permutation(nparticle)  # atom lines in arbitrary order
    for j in order:
        cols = [str(j + 1), str(int(types[j]))] + [num(v) for v in written[j]]
        cols += [num(v) for v in rng.normal(size=extra_cols)]
        lines.append(" ".join(cols))
    exp["particle_type"] = types
    exp["written"] = written
    exp["positions"] = expected_pos
    return lines, exp


def check(snapshots, expected, label):
    errors = []
    if snapshots.nsnapshots != len(expected) or len(snapshots.snapshots) != len(expected):
        return [f"{label}: frame count {snapshots.nsnapshots} != {len(expected)}"]
    for n, (snap, exp) in enumerate(zip(snapshots.snapshots, expected)):
        tag = f"{label} frame {n}"
        if snap.timestep != exp["timestep"]:
            errors.append(f"{tag}: timestep")
        if snap.nparticle != exp["nparticle"]:
            errors.append(f"{tag}: nparticle")
        if snap.particle_type.shape != exp["particle_type"].shape or not np.array_equal(
                snap.particle_type, exp["particle_type"]):
            errors.append(f"{tag}: particle_type")
        scale = float(np.abs(exp["boxbounds"]).max() + np.abs(exp["hmatrix"]).max())
        for name in ("positions", "boxlength", "boxbounds", "hmatrix"):
            if not close(getattr(snap, name), exp[name], scale):
                errors.append(f"{tag}: {name}")
        if exp["realbounds"] is None:
            if snap.realbounds is not None:
                errors.append(f"{tag}: realbounds should be None")
        elif not close(snap.realbounds, exp["realbounds"], scale):
            errors.append(f"{tag}: realbounds")
        if "inside" in exp and snap.positions.size:
            lo, hi = exp["inside"]
            if np.any(snap.positions < lo - 1e-9) or np.any(snap.positions > hi + 1e-9):
                errors.append(f"{tag}: wrapped positions outside the box")
            moved = np.abs(snap.positions - exp["written"])
            ok = (moved <= 1e-9) | (np.abs(moved - (hi - lo)) <= 1e-9)
            if not np.all(ok):
                errors.append(f"{tag}: moved by something else than 0 or one box length")
    return errors


def main():
    rng = np.random.default_rng(404)
    tmpdir = tempfile.mkdtemp()
    errors = []
    ncases = 0
    try:
        cases = [
            # (ndim, style, triclinic, particle counts per frame, tilt signs (xy, xz, yz), extra columns)
            # wrapped style in orthogonal cells: excursions of -1 / 0 / +1 box, particles exactly on both bounds
            (3, "x", False, (9, 10, 9), (1, 1, 1), 0),
            (3, "x", False, (40,), (1, 1, 1), 2),
            (3, "x", False, (1, 0, 2), (1, 1, 1), 0),
            (2, "x", False, (8, 9), (1, 1, 1), 2),
            (2, "x", False, (30, 31, 0, 30), (1, 1, 1), 0),
            # styles that must NOT be wrapped
            (3, "xu", False, (7,), (1, 1, 1), 1),
            (2, "xu", False, (5, 6, 0, 4), (1, 1, 1), 0),
            (3, "xs", False, (11, 12), (1, 1, 1), 3),
            (2, "xs", False, (6, 0, 7), (1, 1, 1), 0),
            (3, "x", True, (6, 7), (-1, 1, -1), 0),
            (2, "x", True, (5,), (1, 1, 1), 1),
            (3, "xs", True, (9,), (-1, -1, -1), 2),
            (2, "xs", True, (6, 7, 0), (-1, 1, 1), 1),
        ]
        for ndim, style, triclinic, counts, tilt_sign, extra_cols in cases:
            lines, expected = [], []
            for k, npart in enumerate(counts):
                frame_lines, exp = make_frame(
                    rng, ndim, style, triclinic, npart, 1000 * k + 7, tilt_sign, extra_cols)
                lines += frame_lines
                expected.append(exp)
            label = f"ndim={ndim} style={style} tric={triclinic} N={counts} tilt={tilt_sign}"
            path = os.path.join(tmpdir, f"case{ncases}.atom")
            with open(path, "w", encoding="utf-8") as f:
                f.write("\n".join(lines) + "\n")
            reader = DumpReader(path, ndim=ndim, filetype=DumpFileType.LAMMPS)
            reader.read_onefile()
            errors += check(reader.snapshots, expected, "DumpReader " + label)
            errors += check(read_lammps_wrapper(path, ndim), expected, "wrapper " + label)
            ncases += 1
    finally:
        shutil.rmtree(tmpdir, ignore_errors=True)
    if errors:
        print(f"[{FOCUS}] FAILED ({len(errors)} mismatches)")
        for e in errors[:20]:
            print("  ", e)
        return 1
    print(f"[{FOCUS}] OK: {ncases} synthetic dump files read back exactly")
    return 0


if __name__ == "__main__":
    sys.exit(main())
