"""Demo for the time_correlation refactoring (see notes.md).

Exercises PyMatterSim.dynamic.time_corr.time_correlation on synthetic series of
shape (T, N), (T, N, d), (T, N, d, d), real and complex, for evenly and unevenly
spaced frames, T = 1, 2 and larger, and compares with a straightforward
reference written here.  Exits 0 on the unchanged and on the refactored tree.
"""
import os
import shutil
import sys
import tempfile
import warnings

import numpy as np
import pandas as pd

from PyMatterSim.dynamic.time_corr import time_correlation
from PyMatterSim.reader.reader_utils import SingleSnapshot, Snapshots

warnings.simplefilter("ignore")  # complex tensor input: numpy ComplexWarning (unchanged behaviour)


def make_snapshots(timesteps, nparticle):
    e = np.zeros(0)
    return Snapshots(
        nsnapshots=len(timesteps),
        snapshots=[SingleSnapshot(int(t), nparticle, e, e, e, e, e, e) for t in timesteps],
    )


def product(later, earlier):
    """real part of the particle-summed product later * conj(earlier)"""
    if later.ndim <= 2:
        return float(np.real(np.sum(later * np.conj(earlier))))
    # tensor: trace of the matrix product, summed over particles
    return float(np.real(np.einsum("nij,nji->", later, np.conj(earlier))))


def reference(timesteps, condition, dt):
    T = len(timesteps)
    evenly = len(set(np.diff(timesteps).tolist())) == 1
    corr = np.zeros(T)
    for k in range(T):
        if evenly:
            corr[k] = np.mean([product(condition[t0 + k], condition[t0]) for t0 in range(T - k)])
        else:
            corr[k] = product(condition[k], condition[0])
    return (np.asarray(timesteps) - timesteps[0]) * dt, corr / corr[0]


def main():
    rng = np.random.default_rng(7)
    tmp = tempfile.mkdtemp()
    nchecked = 0
    try:
        series = (
            [42],  # single frame: unevenly-spaced branch (no differences)
            [3, 8],  # two frames: evenly spaced
            [0, 10, 20, 30, 40, 50, 60],  # evenly spaced, odd count
            [1000, 1010, 1020, 1030],  # evenly spaced, non-zero first step
            [5, 6, 8, 12, 20, 36],  # log spaced
            [0, 1, 2, 4, 5],  # nearly even -> single origin
        )
        for timesteps in series:
            timesteps = np.array(timesteps)
            for shape in ((6,), (1,), (5, 2), (4, 3), (4, 3, 3), (3, 2, 2)):
                for cplx in (False, True):
                    full = (len(timesteps),) + shape
                    cond = rng.normal(size=full) + 0.7
                    if cplx:
                        cond = cond + 1j * rng.normal(size=full)
                    for dt in (0.002, 0.5):
                        out = os.path.join(tmp, f"tc_{nchecked}.csv")
                        snaps = make_snapshots(timesteps, shape[0])
                        df = time_correlation(snaps, cond, dt=dt, outputfile=out)
                        t_ref, c_ref = reference(timesteps, cond, dt)
                        assert isinstance(df, pd.DataFrame)
                        assert list(df.columns) == ["t", "time_corr"], df.columns
                        assert df.shape == (len(timesteps), 2)
                        np.testing.assert_allclose(df["t"].values, t_ref, rtol=0, atol=1e-12)
                        np.testing.assert_allclose(df["time_corr"].values, c_ref, rtol=1e-10, atol=1e-12)
                        assert df["time_corr"].values[0] == 1.0
                        assert df["t"].values[0] == 0.0
                        # file output: same numbers, %.8f, header "t,time_corr", no index
                        with open(out, encoding="utf-8") as f:
                            lines = f.read().splitlines()
                        assert lines[0] == "t,time_corr"
                        assert len(lines) == len(timesteps) + 1
                        assert lines[1] == "0.00000000,1.00000000", lines[1]
                        back = pd.read_csv(out)
                        np.testing.assert_allclose(back.values, df.values, rtol=0, atol=1e-8)
                        nchecked += 1
        # default dt and no file written when outputfile is ""
        ts = np.array([0, 5, 10])
        cond = rng.normal(size=(3, 4))
        before = set(os.listdir(tmp))
        df = time_correlation(make_snapshots(ts, 4), cond)
        assert set(os.listdir(tmp)) == before
        np.testing.assert_allclose(df["t"].values, ts * 0.002, rtol=0, atol=1e-15)
        # wrong rank is rejected
        for bad in (np.ones(3), np.ones((3, 2, 2, 2, 2))):
            try:
                time_correlation(make_snapshots(ts, 2), bad)
            except ValueError:
                pass
            else:
                raise AssertionError("expected ValueError for condition of rank %d" % bad.ndim)
    finally:
        shutil.rmtree(tmp, ignore_errors=True)
    print(f"demo OK ({nchecked} cases)")
    return 0


if __name__ == "__main__":
    sys.exit(main())
