"""Demo for the defensive / formatting edits in cutoffneighbors
(`with` for the file handle, f-string row prefix, assert, debug logging).

Builds synthetic multi-frame trajectories (2D/3D, orthogonal / triclinic with negative
tilt, all periodicity masks, cutoffs giving empty, unequal and full neighbour lists),
calls the public cutoffneighbors, checks the written text byte-for-byte against the
text rebuilt here from a scalar brute-force reference, checks symmetry and the
read_neighbors round trip.  Exits 0 on the unchanged and on the refactored tree.
"""
import itertools
import math
import os
import shutil
import sys
import tempfile

import numpy as np

from PyMatterSim.neighbors.calculate_neighbors import cutoffneighbors
from PyMatterSim.neighbors.read_neighbors import read_neighbors
from PyMatterSim.reader.reader_utils import SingleSnapshot, Snapshots


def make(rng, n, hmatrix, nframes):
    ndim = hmatrix.shape[0]
    frames = []
    for t in range(nframes):
        pos = (rng.random((n, ndim)) * 1.4 - 0.2) @ hmatrix  # some particles outside the cell
        frames.append(SingleSnapshot(
            timestep=10 * t, nparticle=n, particle_type=np.ones(n, dtype=int), positions=pos,
            boxlength=np.diag(hmatrix).copy(), boxbounds=np.zeros((ndim, 2)),
            realbounds=np.zeros((ndim, 2)), hmatrix=hmatrix))
    return Snapshots(nsnapshots=nframes, snapshots=frames)


def distance(ri, rj, hmatrix, hinv, ppp):
    """scalar minimum-image distance (fractional rounding in periodic directions)"""
    ndim = len(ri)
    d = [rj[k] - ri[k] for k in range(ndim)]
    s = [sum(d[k] * hinv[k][c] for k in range(ndim)) for c in range(ndim)]
    s = [s[c] - (round(s[c]) if ppp[c] else 0.0) for c in range(ndim)]
    r = [sum(s[k] * hmatrix[k][c] for k in range(ndim)) for c in range(ndim)]
    return math.sqrt(sum(x * x for x in r))


def reference_text(snaps, r_cut, ppp, margin=1e-9):
    """expected file content; None if some distance is within `margin` of r_cut"""
    text = []
    tables = []
    for snapshot in snaps.snapshots:
        h = snapshot.hmatrix
        hinv = np.linalg.inv(h)
        pos = snapshot.positions
        text.append("id     cn     neighborlist\n")
        table = []
        for i in range(snapshot.nparticle):
            dist = [(distance(pos[i], pos[j], h, hinv, ppp), j) for j in range(snapshot.nparticle) if j != i]
            if any(abs(d - r_cut) < margin for d, _ in dist):
                return None, None
            near = sorted((d, j) for d, j in dist if d <= r_cut)
            ids = [j for _, j in near]
            table.append(ids)
            text.append("%d %d " % (i + 1, len(ids)) + " ".join(str(j + 1) for j in ids) + "\n")
        tables.append(table)
    return "".join(text), tables


def main():
    rng = np.random.default_rng(23)
    tmp = tempfile.mkdtemp()
    ok = True
    try:
        cells = [np.diag([6.0, 7.0, 8.0]),
                 np.array([[7.0, 0, 0], [-2.0, 6.5, 0], [1.0, -1.5, 8.0]]),
                 np.diag([9.0, 7.0]),
                 np.array([[9.0, 0], [-3.0, 8.0]])]
        n = 25
        for cell in cells:
            ndim = cell.shape[0]
            for ppp in itertools.product((1, 0), repeat=ndim):
                ppp = np.array(ppp)
                snaps = make(rng, n, cell, 3)
                for r_cut in (0.05, 1.7, 2.9, 100.0):
                    exp_text, tables = reference_text(snaps, r_cut, ppp)
                    if exp_text is None:  # a distance too close to the cutoff: skip this case
                        continue
                    fn = os.path.join(tmp, "cut.dat")
                    cutoffneighbors(snaps, r_cut=r_cut, ppp=ppp, fnfile=fn)
                    with open(fn, encoding="utf-8") as f:
                        got_text = f.read()
                    if got_text != exp_text:
                        ok = False
                        print("TEXT MISMATCH", cell.tolist(), ppp, r_cut)
                    with open(fn, encoding="utf-8") as f:
                        for table in tables:
                            back = read_neighbors(f, n, Nmax=200)
                            cn = np.array([len(t) for t in table])
                            good = back.dtype == np.int32 and back.shape == (n, cn.max() + 1)
                            good = good and np.array_equal(back[:, 0], cn)
                            for i, t in enumerate(table):
                                good = good and back[i, 1:1 + len(t)].tolist() == t
                                good = good and not back[i, 1 + len(t):].any()
                                good = good and i not in t
                                good = good and all(i in table[j] for j in t)  # symmetric relation
                            if not good:
                                ok = False
                                print("READ-BACK MISMATCH", cell.tolist(), ppp, r_cut)
        # simple cubic lattice, spacing 2 in a box of 8 (all arithmetic exact): the cutoff is inclusive
        grid = np.array(list(itertools.product(range(4), repeat=3)), dtype=float) * 2.0
        cell = np.diag([8.0, 8.0, 8.0])
        snap = SingleSnapshot(0, 64, np.ones(64, dtype=int), grid, np.diag(cell).copy(),
                              np.zeros((3, 2)), np.zeros((3, 2)), cell)
        for r_cut, expected_cn in ((2.0, 6), (1.9999999, 0)):
            fn = os.path.join(tmp, "sc.dat")
            cutoffneighbors(Snapshots(1, [snap]), r_cut=r_cut, ppp=np.array([1, 1, 1]), fnfile=fn)
            with open(fn, encoding="utf-8") as f:
                lines = f.read().split("\n")
            if lines[0] != "id     cn     neighborlist" or lines[-1] != "" or len(lines) != 66:
                ok = False
                print("LATTICE LAYOUT MISMATCH")
            for i, line in enumerate(lines[1:65]):
                if not line.startswith("%d %d " % (i + 1, expected_cn)):
                    ok = False
                    print("LATTICE MISMATCH", r_cut, i, repr(line))
                ids = {int(x) - 1 for x in line.split()[2:]}
                exp = set()
                if expected_cn:
                    for k in range(3):
                        for s in (-2.0, 2.0):
                            r = grid[i].copy()
                            r[k] = (r[k] + s) % 8.0
                            exp.add(int(np.flatnonzero((grid == r).all(axis=1))[0]))
                if ids != exp:
                    ok = False
                    print("LATTICE SET MISMATCH", r_cut, i)
    finally:
        shutil.rmtree(tmp)
    print("OK" if ok else "FAILED")
    return 0 if ok else 1


if __name__ == "__main__":
    sys.exit(main())
