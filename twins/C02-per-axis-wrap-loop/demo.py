"""demo for the twin 'per-axis-wrap-loop': remove_pbc wraps the fractional coordinates one cell axis at a time instead of by one broadcast expression

run: PYTHONPATH=<worktree> /venv/bin/python demo.py  (exit status 0 = all checks passed)
"""
import itertools
import logging
import shutil
import sys
import tempfile

import numpy as np

logging.disable(logging.CRITICAL)

from PyMatterSim.utils.geometry import triangle_area  # noqa: E402
from PyMatterSim.utils.pbc import remove_pbc  # noqa: E402

CHECKS = 0


def check(cond, msg):
    global CHECKS
    CHECKS += 1
    if not cond:
        print("FAIL:", msg)
        sys.exit(1)


def reference_remove_pbc(vectors, hmatrix, ppp):
    """straightforward per-vector, per-component reference (plain Python loops)"""
    hmatrix = np.asarray(hmatrix, dtype=float)
    ndim = hmatrix.shape[0]
    hinv = np.linalg.inv(hmatrix)
    vectors = np.asarray(vectors, dtype=float).reshape(-1, ndim)
    result = []
    for vec in vectors:
        frac = [sum(vec[j] * hinv[j, k] for j in range(ndim)) for k in range(ndim)]
        for k in range(ndim):
            if ppp[k]:
                frac[k] = frac[k] - float(np.rint(frac[k]))
        result.append([sum(frac[k] * hmatrix[k, m] for k in range(ndim)) for m in range(ndim)])
    return np.array(result, dtype=float).reshape(-1, ndim)


def make_cells(rng, ndim):
    """orthogonal, LAMMPS-style lower-triangular (negative tilts) and general cells"""
    lengths = rng.uniform(4.0, 25.0, size=ndim)
    ortho = np.diag(lengths)
    tri = np.diag(lengths)
    tri[1, 0] = -0.41 * lengths[0]
    if ndim == 3:
        tri[2, 0] = 0.27 * lengths[0]
        tri[2, 1] = -0.33 * lengths[1]
    general = rng.normal(size=(ndim, ndim)) + 5.0 * np.eye(ndim)
    return {"orthogonal": ortho, "triclinic": tri, "general": general}


def contract_checks(rng):
    for ndim in (2, 3):
        for name, hmatrix in make_cells(rng, ndim).items():
            hinv = np.linalg.inv(hmatrix)
            scale = float(np.abs(hmatrix).max())
            for ppp in itertools.product((0, 1), repeat=ndim):
                mask = np.array(ppp, dtype=bool)
                vectors = rng.normal(scale=2.5 * scale, size=(41, ndim))
                tag = f"{ndim}D {name} ppp={ppp}"
                out = remove_pbc(vectors, hmatrix, np.array(ppp))
                check(out.shape == vectors.shape, f"{tag}: shape")
                # 1. equals the straightforward reference
                ref = reference_remove_pbc(vectors, hmatrix, ppp)
                check(np.allclose(out, ref, rtol=1e-10, atol=1e-10 * scale), f"{tag}: reference")
                # 2. difference is an integer combination of the periodic cell vectors only
                shift = np.dot(out - vectors, hinv)
                check(np.allclose(shift, np.rint(shift), atol=1e-8), f"{tag}: integer shifts")
                check(np.allclose(shift[:, ~mask], 0.0, atol=1e-8), f"{tag}: non-periodic untouched")
                # 3. fractional coordinates in the half cell along periodic axes
                frac_in = np.dot(vectors, hinv)
                frac_out = np.dot(out, hinv)
                check(np.all(np.abs(frac_out[:, mask]) <= 0.5 + 1e-9), f"{tag}: half cell")
                check(np.allclose(frac_out[:, ~mask], frac_in[:, ~mask], atol=1e-9), f"{tag}: fractional kept")
                # 4. invariance under lattice translations along the periodic axes
                ints = rng.integers(-4, 5, size=vectors.shape) * np.array(ppp)
                moved = vectors + np.dot(ints, hmatrix)
                out_moved = remove_pbc(moved, hmatrix, list(ppp))
                check(np.allclose(out_moved, out, atol=1e-8 * scale), f"{tag}: lattice invariance")
                # 5. idempotent
                twice = remove_pbc(out, hmatrix, tuple(ppp))
                check(np.allclose(twice, out, atol=1e-10 * scale), f"{tag}: idempotent")
                # 6. orthogonal cells: the shortest of all periodic images
                if name == "orthogonal":
                    best = np.full(len(vectors), np.inf)
                    for image in itertools.product((-1, 0, 1), repeat=ndim):
                        cand = out + np.dot(np.array(image) * np.array(ppp), hmatrix)
                        best = np.minimum(best, np.sqrt((cand * cand).sum(axis=1)))
                    check(np.all(np.sqrt((out * out).sum(axis=1)) <= best + 1e-9), f"{tag}: shortest image")
                # 7. single vector of shape (d,), empty selection, non-contiguous view, list of ppp
                single = remove_pbc(vectors[0], hmatrix, ppp)
                check(np.asarray(single).size == ndim, f"{tag}: single vector size")
                check(np.allclose(np.asarray(single).reshape(-1), ref[0], rtol=1e-10, atol=1e-10 * scale),
                      f"{tag}: single vector")
                empty = remove_pbc(vectors[:0], hmatrix, np.array(ppp))
                check(empty.shape == (0, ndim), f"{tag}: empty selection")
                wide = rng.normal(scale=scale, size=(17, ndim + 3))
                view = wide[::2, 1:1 + ndim]
                check(np.allclose(remove_pbc(view, hmatrix, np.array(ppp)),
                                  reference_remove_pbc(view, hmatrix, ppp), rtol=1e-10, atol=1e-10 * scale),
                      f"{tag}: strided view")
                # 8. a stack of frames (k, n, d) is treated vector by vector
                stack = vectors[:40].reshape(4, 10, ndim)
                out_stack = remove_pbc(stack, hmatrix, np.array(ppp))
                check(out_stack.shape == stack.shape and
                      np.allclose(out_stack.reshape(-1, ndim), ref[:40], rtol=1e-10, atol=1e-10 * scale),
                      f"{tag}: stacked frames")
                # 9. through a public caller: area of a triangle spanning the boundary
                tri = rng.normal(scale=scale, size=(3, ndim))
                sides = [np.linalg.norm(reference_remove_pbc(tri[a] - tri[b], hmatrix, ppp))
                         for a, b in ((0, 1), (0, 2), (1, 2))]
                half = sum(sides) / 2.0
                heron = half * (half - sides[0]) * (half - sides[1]) * (half - sides[2])
                if heron > 1e-6 * scale ** 4:
                    area = triangle_area(tri, hmatrix, np.array(ppp))
                    check(np.isclose(area, np.sqrt(heron), rtol=1e-8), f"{tag}: triangle_area")


def exact_checks():
    """power-of-two orthogonal cells: every operation is exact, including half-cell ties (round half to even)"""
    hmatrix = np.diag([4.0, 8.0, 16.0])
    vectors = np.array([[2.0, 4.0, 8.0],      # fractions  0.5 -> image 0
                        [6.0, 12.0, 24.0],    # fractions  1.5 -> image 2
                        [10.0, 20.0, 40.0],   # fractions  2.5 -> image 2
                        [-2.0, -4.0, -8.0],   # fractions -0.5 -> image 0
                        [-6.0, -12.0, -24.0],  # fractions -1.5 -> image -2
                        [5.0, -3.0, 17.0],
                        [0.0, 0.0, 0.0]])
    expected = np.array([[2.0, 4.0, 8.0],
                         [-2.0, -4.0, -8.0],
                         [2.0, 4.0, 8.0],
                         [-2.0, -4.0, -8.0],
                         [2.0, 4.0, 8.0],
                         [1.0, -3.0, 1.0],
                         [0.0, 0.0, 0.0]])
    check(np.array_equal(remove_pbc(vectors, hmatrix), expected), "exact 3D default ppp")
    check(np.array_equal(remove_pbc(vectors, hmatrix, [1, 1, 1]), expected), "exact 3D list ppp")
    for ppp in itertools.product((0, 1), repeat=3):
        want = np.where(np.array(ppp, dtype=bool), expected, vectors)
        check(np.array_equal(remove_pbc(vectors, hmatrix, np.array(ppp)), want), f"exact 3D ppp={ppp}")
    for ppp in itertools.product((0, 1), repeat=2):
        want = np.where(np.array(ppp, dtype=bool), expected[:, :2], vectors[:, :2])
        check(np.array_equal(remove_pbc(vectors[:, :2], hmatrix[:2, :2], np.array(ppp)), want),
              f"exact 2D ppp={ppp}")
    # sheared power-of-two cell with negative tilt, still exact
    tilted = np.array([[8.0, 0.0], [-4.0, 8.0]])
    vec = np.array([[7.0, 1.0], [-9.0, 13.0], [3.0, -6.0]])
    # fractional coordinates s = r H^-1: s_y = y/8, s_x = (x + 4 s_y)/8
    want = []
    for x, y in vec:
        s_y = y / 8.0
        s_x = (x + 4.0 * s_y) / 8.0
        s_x -= np.rint(s_x)
        s_y -= np.rint(s_y)
        want.append([8.0 * s_x - 4.0 * s_y, 8.0 * s_y])
    check(np.array_equal(remove_pbc(vec, tilted, [1, 1]), np.array(want)), "exact tilted 2D")
    # integer-typed displacements and nested-list input
    ivec = np.array([[5, -3, 17], [6, 12, 24]])
    check(np.array_equal(remove_pbc(ivec, hmatrix, np.array([1, 1, 1])),
                         np.array([[1.0, -3.0, 1.0], [-2.0, -4.0, -8.0]])), "exact integer input")
    check(np.array_equal(remove_pbc(ivec.tolist(), hmatrix, (1, 0, 1)),
                         np.array([[1.0, -3.0, 1.0], [-2.0, 12.0, -8.0]])), "exact list input")
    # inputs are not modified in place
    keep = vectors.copy()
    keep_h = hmatrix.copy()
    keep_p = np.array([1, 0, 1])
    remove_pbc(vectors, hmatrix, keep_p)
    check(np.array_equal(keep, vectors) and np.array_equal(keep_h, hmatrix) and
          np.array_equal(keep_p, [1, 0, 1]), "inputs untouched")


def extra(rng):
    """each axis handled on its own: mixed masks on stacks, single vectors, empty and float32 data"""
    for ndim in (2, 3):
        for name, hmatrix in make_cells(rng, ndim).items():
            hinv = np.linalg.inv(hmatrix)
            scale = float(np.abs(hmatrix).max())
            for ppp in itertools.product((0, 1), repeat=ndim):
                mask = np.array(ppp, dtype=bool)
                tag = f"{ndim}D {name} ppp={ppp}"
                stack = rng.normal(scale=3.0 * scale, size=(3, 2, 7, ndim))
                out = remove_pbc(stack, hmatrix, np.array(ppp))
                check(out.shape == stack.shape, f"{tag}: 4D stack shape")
                ref = reference_remove_pbc(stack, hmatrix, ppp)
                check(np.allclose(out.reshape(-1, ndim), ref, rtol=1e-10, atol=1e-10 * scale), f"{tag}: 4D stack")
                frac_in = np.dot(stack.reshape(-1, ndim), hinv)
                frac_out = np.dot(out.reshape(-1, ndim), hinv)
                # axis by axis: periodic axes wrapped, the others kept
                for axis in range(ndim):
                    if mask[axis]:
                        check(np.all(np.abs(frac_out[:, axis]) <= 0.5 + 1e-9), f"{tag}: axis {axis} wrapped")
                        delta = frac_out[:, axis] - frac_in[:, axis]
                        check(np.allclose(delta, np.rint(delta), atol=1e-8), f"{tag}: axis {axis} integer")
                    else:
                        check(np.allclose(frac_out[:, axis], frac_in[:, axis], atol=1e-9), f"{tag}: axis {axis} kept")
                one = remove_pbc(stack[0, 0, 0], hmatrix, np.array(ppp))
                check(np.allclose(np.asarray(one).reshape(-1), ref[0], rtol=1e-10, atol=1e-10 * scale),
                      f"{tag}: single vector")
                check(np.asarray(one).shape == (1, ndim), f"{tag}: single vector comes back as one row")
                none = remove_pbc(np.zeros((0, ndim)), hmatrix, np.array(ppp))
                check(none.shape == (0, ndim) and none.dtype == np.float64, f"{tag}: empty")
                h32 = hmatrix.astype(np.float32)
                v32 = stack[0, 0].astype(np.float32)
                out32 = remove_pbc(v32, h32, np.array(ppp))
                check(out32.shape == v32.shape, f"{tag}: float32 shape")
                ref32 = reference_remove_pbc(v32, h32, ppp)
                frac32 = np.abs(np.dot(v32.astype(float), np.linalg.inv(h32.astype(float))))
                safe = np.all(np.abs(frac32 - np.floor(frac32) - 0.5) > 1e-3, axis=1)  # away from ties
                check(np.allclose(out32[safe], ref32[safe], rtol=1e-4, atol=1e-4 * scale), f"{tag}: float32 data")


def main(extra=None):
    workdir = tempfile.mkdtemp()
    try:
        rng = np.random.default_rng(20260929)
        contract_checks(rng)
        exact_checks()
        if extra is not None:
            extra(rng)
    finally:
        shutil.rmtree(workdir, ignore_errors=True)
    print(f"OK ({CHECKS} checks)")
    sys.exit(0)


if __name__ == "__main__":
    main(extra)
