"""Demo for the S2.particle_s2 refactoring (dimension dispatch through a dictionary of lambdas).

Run: PYTHONPATH=<worktree> /venv/bin/python demo.py [--dump FILE]
Exits 0 when particle_s2 (and the saved particle g(r)) agree with an independent reference.
"""
import os
import pickle
import shutil
import sys
import tempfile

import numpy as np

from PyMatterSim.reader.reader_utils import SingleSnapshot, Snapshots
from PyMatterSim.static.pairentropy import S2, s2_integral


def make_snapshots(frames, types, hmatrix):
    hmatrix = np.asarray(hmatrix, dtype=float)
    ndim = hmatrix.shape[0]
    boxlength = np.diag(hmatrix).copy()
    bounds = np.column_stack((np.zeros(ndim), boxlength))
    snaps = []
    for t, pos in enumerate(frames):
        pos = np.asarray(pos, dtype=float)
        snaps.append(SingleSnapshot(
            timestep=t * 10,
            nparticle=pos.shape[0],
            particle_type=np.asarray(types, dtype=np.int32),
            positions=pos,
            boxlength=boxlength,
            boxbounds=bounds,
            realbounds=bounds,
            hmatrix=hmatrix,
        ))
    return Snapshots(nsnapshots=len(snaps), snapshots=snaps)


def reference(frames, types, hmatrix, sigmas, ppp, rdelta, ndelta):
    """definition: S2_i = -(d-1) pi rho int (g ln g - g + 1) r^(d-1) dr, trapezoid rule,
    g_i(r) = sum_j Gauss(r - r_ij, sigma_ij) / (S_d r^(d-1) rho), minimum image, r_ij < r_max"""
    hmatrix = np.asarray(hmatrix, dtype=float)
    hinv = np.linalg.inv(hmatrix)
    ndim = hmatrix.shape[0]
    types = np.asarray(types)
    nparticle = len(types)
    rho = nparticle / np.prod(np.diag(hmatrix))
    bins = (np.arange(ndelta) + 0.5) * rdelta
    rmax = bins[-1]
    shell = 2 * np.pi * bins * rho if ndim == 2 else 4 * np.pi * bins ** 2 * rho
    s2 = np.zeros((len(frames), nparticle))
    grs = np.zeros((len(frames), nparticle, ndelta))
    for n, pos in enumerate(frames):
        for i in range(nparticle):
            g = np.zeros(ndelta)
            for j in range(nparticle):
                if j == i:
                    continue
                frac = (pos[j] - pos[i]) @ hinv
                frac = frac - np.rint(frac) * np.asarray(ppp)
                rij = np.sqrt(np.sum((frac @ hmatrix) ** 2))
                if rij < rmax:
                    sig = sigmas[types[i] - 1, types[j] - 1]
                    g += np.exp(-(bins - rij) ** 2 / (2 * sig ** 2)) / np.sqrt(2 * np.pi * sig ** 2)
            g = g / shell
            y = (g * np.log(g) - g + 1) * bins ** (ndim - 1)
            integral = np.sum(0.5 * (y[1:] + y[:-1]) * np.diff(bins))
            s2[n, i] = -(ndim - 1) * np.pi * rho * integral
            grs[n, i] = g
    return s2, grs


def main():
    dump = sys.argv[sys.argv.index("--dump") + 1] if "--dump" in sys.argv else None
    rng = np.random.default_rng(77)
    tmpdir = tempfile.mkdtemp()
    cwd = os.getcwd()
    collected = {}
    try:
        os.chdir(tmpdir)  # 'particle_gr.' + outputfile is written relative to the cwd
        # deliberately non-symmetric width matrices: the entry used must be [type_i, type_j]
        sig2 = np.array([[0.20, 0.26], [0.31, 0.23]])
        sig3 = np.array([[0.21, 0.25, 0.3], [0.27, 0.22, 0.33], [0.29, 0.24, 0.2]])
        cases = {}
        h = np.diag([5.0, 6.0])
        types = rng.permutation(np.r_[np.ones(18), 2 * np.ones(12)]).astype(int)
        cases["2d_ortho"] = ([rng.random((30, 2)) @ h for _ in range(2)], types, h, sig2, np.array([1, 1]), 0.05, 40)
        h = np.array([[5.0, 0.0], [-1.6, 5.5]])
        cases["2d_triclinic"] = ([rng.random((30, 2)) @ h], types, h, sig2, np.array([1, 1]), 0.04, 55)
        h = np.diag([4.0, 4.5, 3.8])
        types3 = rng.permutation(np.r_[np.ones(20), 2 * np.ones(12), 3 * np.ones(8)]).astype(int)
        cases["3d_ortho"] = ([rng.random((40, 3)) @ h for _ in range(2)], types3, h, sig3, np.array([1, 1, 1]), 0.05, 36)
        h = np.array([[4.2, 0, 0], [-1.1, 4.0, 0], [0.7, -0.9, 4.4]])
        cases["3d_triclinic"] = ([rng.random((40, 3)) @ h], types3, h, sig3, np.array([1, 1, 1]), 0.03, 61)
        h = np.diag([4.0, 4.0, 4.0])
        cases["3d_slab"] = ([rng.random((35, 3)) @ h], np.ones(35, dtype=int), h, np.array([[0.25]]), np.array([1, 1, 0]), 0.05, 30)

        for name, (frames, types, h, sig, ppp, rdelta, ndelta) in cases.items():
            snaps = make_snapshots(frames, types, h)
            ref_s2, ref_gr = reference(frames, types, h, sig, ppp, rdelta, ndelta)
            # without saving g(r), no output file
            obj = S2(snaps, sigmas=sig, ppp=ppp, rdelta=rdelta, ndelta=ndelta)
            got = obj.particle_s2()
            assert isinstance(got, np.ndarray) and got.shape == ref_s2.shape, name
            assert np.all(np.isfinite(got)), name
            assert np.allclose(got, ref_s2, rtol=1e-10, atol=1e-12), (name, np.abs(got - ref_s2).max())
            assert np.array_equal(obj.s2_results, got), name
            # with g(r) saved
            obj = S2(snaps, sigmas=sig, ppp=ppp, rdelta=rdelta, ndelta=ndelta)
            got2, gr = obj.particle_s2(savegr=True, outputfile=name + ".npy")
            assert np.array_equal(got2, got), name
            assert np.allclose(gr, ref_gr, rtol=1e-10, atol=1e-300), name
            assert np.array_equal(np.load(name + ".npy"), got), name
            assert np.array_equal(np.load("particle_gr." + name + ".npy"), gr), name
            # the scalar is the integral of the returned g(r)
            ndim = len(ppp)
            bins = (np.arange(ndelta) + 0.5) * rdelta
            rho = len(types) / np.prod(np.diag(h))
            assert np.allclose(got[0, 3], -(ndim - 1) * np.pi * rho * s2_integral(gr[0, 3], bins, ndim), rtol=1e-13)
            collected[name] = (got, gr)

        # a dimension that is neither 2 nor 3 is rejected with the documented ValueError
        h = np.diag([3.0, 3.0, 3.0, 3.0])
        snaps4 = make_snapshots([rng.random((6, 4)) @ h], np.ones(6, dtype=int), h)
        try:
            S2(snaps4, sigmas=np.array([[0.3]]), ppp=np.array([1, 1, 1, 1]), rdelta=0.05, ndelta=10).particle_s2()
        except ValueError as err:
            assert str(err) == "Input dimension is not 2 or 3"
        else:
            raise AssertionError("4D input accepted")
        if dump:
            with open(dump, "wb") as fout:
                pickle.dump(collected, fout)
    finally:
        os.chdir(cwd)
        shutil.rmtree(tmpdir, ignore_errors=True)
    print("s2-shellnorm-lambda-dispatch demo: OK")
    return 0


if __name__ == "__main__":
    sys.exit(main())
