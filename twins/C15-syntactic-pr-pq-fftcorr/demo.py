"""Demo for the purely syntactic refactoring of participation_ratio, phase_quotient and vector_fft_corr.

Run: PYTHONPATH=<worktree> /venv/bin/python demo.py
Exits 0 when every public result agrees with an independent reference written here.
"""
import logging
import os
import shutil
import sys
import tempfile

import numpy as np
import pandas as pd

from PyMatterSim.reader.reader_utils import SingleSnapshot, Snapshots
from PyMatterSim.static.vector import participation_ratio, phase_quotient, vector_fft_corr

logging.disable(logging.CRITICAL)
rng = np.random.default_rng(1501)
tmpdir = tempfile.mkdtemp()
failures = []


def check(name, ok):
    print(("ok   " if ok else "FAIL ") + name)
    if not ok:
        failures.append(name)


def write_neighbors(path, nparticle, cnmin, cnmax):
    """unsorted ids, unequal coordination numbers, 1-based ids in the file"""
    table = {}
    for i in range(nparticle):
        cn = int(rng.integers(cnmin, cnmax + 1))
        table[i] = rng.choice(np.delete(np.arange(nparticle), i), size=cn, replace=False)
    with open(path, "w", encoding="utf-8") as f:
        f.write("id     cn     neighborlist\n")
        for i in rng.permutation(nparticle):
            f.write(f"{i + 1} {len(table[i])} " + " ".join(str(j + 1) for j in table[i]) + "\n")
    return table


def make_snapshot(ndim, nparticle, timestep, boxlength, positions):
    bounds = np.column_stack((np.zeros(ndim), boxlength))
    return SingleSnapshot(
        timestep=timestep,
        nparticle=nparticle,
        particle_type=np.ones(nparticle, dtype=int),
        positions=positions,
        boxlength=boxlength,
        boxbounds=bounds,
        realbounds=bounds,
        hmatrix=np.diag(boxlength),
    )


try:
    # ---------------- participation ratio ----------------
    for ndim in (2, 3):
        for nparticle in (1, 7, 64):
            e = rng.normal(size=(nparticle, ndim))
            norm2 = np.array([sum(x * x for x in row) for row in e])
            expected = norm2.sum() ** 2 / (nparticle * (norm2**2).sum())
            got = participation_ratio(e)
            check(f"PR formula d={ndim} N={nparticle}", abs(got - expected) <= 1e-12 * abs(expected))
            check(f"PR bounds d={ndim} N={nparticle}", 1.0 / nparticle - 1e-12 <= got <= 1.0 + 1e-12)
            check(f"PR scale invariance d={ndim} N={nparticle}", abs(participation_ratio(-37.5 * e) - got) <= 1e-12)
        uniform = np.tile(rng.normal(size=(1, ndim)), (50, 1))
        check(f"PR uniform field d={ndim}", abs(participation_ratio(uniform) - 1.0) <= 1e-12)
        localised = np.zeros((50, ndim))
        localised[17] = rng.normal(size=ndim)
        check(f"PR localised field d={ndim}", abs(participation_ratio(localised) - 1.0 / 50) <= 1e-12)

    # ---------------- phase quotient ----------------
    for ndim in (2, 3):
        for nparticle, cnmin, cnmax in ((9, 1, 4), (60, 2, 15)):
            nfile = os.path.join(tmpdir, f"neighbors_{ndim}_{nparticle}.dat")
            table = write_neighbors(nfile, nparticle, cnmin, cnmax)
            e = rng.normal(size=(nparticle, ndim))
            num, den = 0.0, 0.0
            for i in range(nparticle):
                for j in table[i]:
                    d = float(np.dot(e[i], e[j]))
                    num += d
                    den += abs(d)
            got = phase_quotient(e, nfile)
            check(f"PQ reference d={ndim} N={nparticle}", abs(got - num / den) <= 1e-12)
            check(f"PQ range d={ndim} N={nparticle}", -1.0 - 1e-12 <= got <= 1.0 + 1e-12)
            uniform = np.tile(rng.normal(size=(1, ndim)), (nparticle, 1))
            check(f"PQ uniform field d={ndim} N={nparticle}", abs(phase_quotient(uniform, nfile) - 1.0) <= 1e-12)
            staggered = uniform * np.where(np.arange(nparticle) % 2 == 0, 1.0, -1.0)[:, None]
            ref = sum(1.0 if (i - j) % 2 == 0 else -1.0 for i in range(nparticle) for j in table[i])
            ref /= sum(len(table[i]) for i in range(nparticle))
            check(f"PQ staggered field d={ndim} N={nparticle}", abs(phase_quotient(staggered, nfile) - ref) <= 1e-12)

    # ---------------- vector_fft_corr ----------------
    qlists = {
        2: np.array([[1, 0], [0, 1], [1, 1], [-1, 2], [2, -1], [-1, -1]]),
        3: np.array([[1, 0, 0], [0, 0, 1], [1, 1, 0], [-1, 2, 1], [0, -1, 0], [1, -1, 1], [2, 0, -1]]),
    }
    for ndim in (2, 3):
        for timesteps in ([0, 5, 10, 15, 20], [0, 1, 10, 100]):
            nparticle = 23
            nframes = len(timesteps)
            boxlength = rng.uniform(5.0, 8.0, size=ndim)
            base = rng.uniform(0, 1, size=(nparticle, ndim)) * boxlength
            frames, fields = [], []
            for t in timesteps:
                pos = base + 0.1 * rng.normal(size=(nparticle, ndim))
                frames.append(make_snapshot(ndim, nparticle, t, boxlength, pos))
                fields.append(rng.normal(size=(nparticle, ndim)))
            fields = np.array(fields)
            snapshots = Snapshots(nsnapshots=nframes, snapshots=frames)
            qvector = qlists[ndim]
            prefix = os.path.join(tmpdir, f"corr_{ndim}_{nframes}")
            dt = 0.01
            alldata = vector_fft_corr(snapshots, qvector, fields, dt=dt, outputfile=prefix)

            # independent reference
            qreal = qvector * (2 * np.pi / boxlength)
            qnorm = np.sqrt((qreal**2).sum(axis=1))
            qhat = qreal / qnorm[:, None]
            series = {"FFT": [], "T_FFT": [], "L_FFT": []}
            spectra_ref = 0
            for n in range(nframes):
                phase = np.exp(-1j * (qreal @ frames[n].positions.T))
                full = phase @ fields[n] / np.sqrt(nparticle)
                longi = qhat * (qhat * full).sum(axis=1)[:, None]
                trans = full - longi
                series["FFT"].append(np.round(full, 8))
                series["T_FFT"].append(np.round(trans, 8))
                series["L_FFT"].append(np.round(longi, 8))
                table = pd.DataFrame(
                    {
                        "q": np.round(qnorm, 8),
                        "Sq": np.round((np.abs(full) ** 2).sum(axis=1), 8),
                        "Sq_T": np.round((np.abs(trans) ** 2).sum(axis=1), 8),
                        "Sq_L": np.round((np.abs(longi) ** 2).sum(axis=1), 8),
                    }
                )
                spectra_ref = spectra_ref + table.groupby("q").mean().reset_index()
            spectra_ref = spectra_ref / nframes
            spectra = pd.read_csv(prefix + ".spectra.csv")
            tag = f"d={ndim} frames={timesteps}"
            check(f"spectra columns {tag}", list(spectra.columns) == ["q", "Sq", "Sq_T", "Sq_L"])
            check(f"spectra reference {tag}", np.allclose(spectra.values, spectra_ref.values, rtol=0, atol=2e-7))
            check(f"S = S_L + S_T {tag}", np.allclose(spectra["Sq"], spectra["Sq_T"] + spectra["Sq_L"], rtol=0, atol=1e-6))

            linear = len(set(np.diff(timesteps))) == 1
            times = (np.array(timesteps) - timesteps[0]) * dt
            for header in ("FFT", "T_FFT", "L_FFT"):
                x = np.array(series[header])  # [frames, nq, ndim]
                corr = np.zeros((len(qvector), nframes))
                for iq in range(len(qvector)):
                    for lag in range(nframes):
                        if linear:
                            terms = [(x[n, iq] * np.conj(x[n - lag, iq])).sum().real for n in range(lag, nframes)]
                            corr[iq, lag] = np.mean(terms)
                        else:
                            corr[iq, lag] = (x[lag, iq] * np.conj(x[0, iq])).sum().real
                    corr[iq] /= corr[iq, 0]
                got = alldata[header]
                check(f"{header} shape {tag}", got.shape == (len(qvector), ndim + 1 + nframes))
                check(f"{header} q columns {tag}", np.allclose(got.values[:, :ndim], qreal, rtol=0, atol=1e-8) and np.allclose(got.values[:, ndim], qnorm, rtol=0, atol=1e-8))
                check(f"{header} column labels {tag}", list(got.columns[: ndim + 1]) == [f"q{i}" for i in range(ndim)] + ["q"] and np.allclose(np.array(got.columns[ndim + 1 :], dtype=float), times))
                check(f"{header} correlation {tag}", np.allclose(got.values[:, ndim + 1 :], corr, rtol=0, atol=1e-6))
                saved = np.load(prefix + "." + header + ".npy")
                check(f"{header} npy file {tag}", np.array_equal(saved, got.values))
finally:
    shutil.rmtree(tmpdir, ignore_errors=True)

if failures:
    print(f"{len(failures)} check(s) failed")
    sys.exit(1)
print("all checks passed")
sys.exit(0)
