"""Demo for the gyration_tensor refactoring (second moments accumulated block by block).

Run: PYTHONPATH=<worktree> /venv/bin/python demo.py [--dump FILE]
Exits 0 when the shape descriptors agree with an independent reference for every cloud size,
in particular sizes that are not multiples of the block length.
"""
import pickle
import sys

import numpy as np

from PyMatterSim.static.shape import gyration_tensor


def reference(pos):
    """descriptors from the eigenvalues of the centred second-moment tensor S = X^T X / N"""
    npart, ndim = pos.shape
    centred = pos - pos.mean(axis=0)
    lam = np.linalg.eigvalsh(centred.T @ centred / npart)  # ascending
    rg = np.sqrt(lam.sum())
    acyl = lam[1] - lam[0]
    fractal = np.log10(npart) / np.log10(rg)
    if ndim == 2:
        return [rg, acyl, fractal]
    asph = 1.5 * lam[2] - 0.5 * lam.sum()
    aniso = (asph ** 2 + 0.75 * acyl ** 2) / rg ** 4
    return [rg, asph, acyl, aniso, fractal]


def main():
    dump = sys.argv[sys.argv.index("--dump") + 1] if "--dump" in sys.argv else None
    rng = np.random.default_rng(99)
    collected = {}
    # sizes: minimum (2), small, one below / exactly / one above one and two blocks of 512, remainder blocks
    sizes = [2, 3, 7, 100, 511, 512, 513, 1023, 1024, 1025, 1300]
    for ndim in (2, 3):
        for npart in sizes:
            scales = np.array([3.0, 1.0, 0.4])[:ndim]
            pos = rng.normal(size=(npart, ndim)) * scales + rng.uniform(-50, 50, size=ndim)
            # rotate so that the tensor is not diagonal
            rot, _ = np.linalg.qr(rng.normal(size=(ndim, ndim)))
            pos = pos @ rot
            before = pos.copy()
            got = gyration_tensor(pos)
            assert np.array_equal(pos, before), "input modified"
            ref = reference(pos)
            assert len(got) == len(ref) == (3 if ndim == 2 else 5)
            got = np.array(got)
            assert np.allclose(got.imag if np.iscomplexobj(got) else 0.0, 0.0)
            assert np.allclose(got.real, ref, rtol=1e-9, atol=1e-11), (ndim, npart, got, ref)
            collected[(ndim, npart)] = got
    # every row counts: moving only the LAST particle of a 1300-point cloud must change the result
    pos = rng.normal(size=(1300, 3))
    base = np.array(gyration_tensor(pos)).real
    moved = pos.copy()
    moved[-1] += 25.0
    changed = np.array(gyration_tensor(moved)).real
    assert np.allclose(changed, reference(moved), rtol=1e-9)
    assert abs(changed[0] - base[0]) > 1e-3
    # a straight rod along a diagonal: one non-zero eigenvalue, shape anisotropy 1
    line = np.linspace(-1, 1, 600)[:, None] * np.array([[1.0, 2.0, -0.5]])
    rod = np.array(gyration_tensor(line)).real
    assert np.isclose(rod[3], 1.0, rtol=1e-9)
    # wrong dimensionality is still rejected
    try:
        gyration_tensor(rng.normal(size=(10, 4)))
    except ValueError as err:
        assert str(err) == "Wrong input dimensionality"
    else:
        raise AssertionError("4D cloud accepted")
    if dump:
        with open(dump, "wb") as fout:
            pickle.dump(collected, fout)
    print("gyration-blockwise-accumulation demo: OK")
    return 0


if __name__ == "__main__":
    sys.exit(main())
