import logging
import math
import shutil
import sys
import tempfile
import warnings

import numpy as np

logging.disable(logging.CRITICAL)

from PyMatterSim.reader.reader_utils import SingleSnapshot, Snapshots  # noqa: E402
from PyMatterSim.static.gr import conditional_gr, gr  # noqa: E402
from PyMatterSim.static.sq import conditional_sq, sq  # noqa: E402

RTOL = 1e-9
FAILS = []


def check(name, got, want, rtol=RTOL, atol=1e-9):
    got = np.asarray(got)
    want = np.asarray(want)
    ok = got.shape == want.shape and np.allclose(got, want, rtol=rtol, atol=atol, equal_nan=True)
    if not ok:
        err = np.nanmax(np.abs(got - want)) if got.shape == want.shape else "shape %s vs %s" % (got.shape, want.shape)
        FAILS.append(name)
        print("FAIL", name, err)
    else:
        print("ok  ", name)


def make_snapshot(rng, n, ndim, triclinic=False, negtilt=False):
    """random configuration in an orthogonal or triclinic (lower-triangular h-matrix) cell"""
    L = rng.uniform(4.0, 6.0, size=ndim)
    h = np.diag(L)
    if triclinic:
        sgn = -1.0 if negtilt else 1.0
        h[1, 0] = sgn * 0.35 * L[0]
        if ndim == 3:
            h[2, 0] = -sgn * 0.2 * L[0]
            h[2, 1] = sgn * 0.25 * L[1]
    pos = rng.uniform(0, 1, size=(n, ndim)) @ h
    bounds = np.c_[np.zeros(ndim), L]
    ptype = np.array([1, 2] * n)[:n]
    ptype[rng.permutation(n)[: n // 3]] = 2
    return SingleSnapshot(timestep=0, nparticle=n, particle_type=ptype, positions=pos,
                          boxlength=L, boxbounds=bounds, realbounds=bounds, hmatrix=h)


# ---------------------------------------------------------------- references
def pair_weight(A, kind):
    """W_ij = Re(A_i conj A_j); dot product for vectors, trace of the product for tensors"""
    A = np.asarray(A)
    if kind == "bool":
        a = A.astype(float)
        return np.outer(a, a)
    if kind == "scalar":
        return np.real(np.outer(A, np.conj(A)))
    if kind == "vector":
        return np.real(np.einsum("ia,ja->ij", A, np.conj(A)))
    if kind == "tensor":
        return np.real(np.einsum("iab,jba->ij", A, A))
    raise ValueError(kind)


def ref_gr(snap, A, kind, ppp, rdelta):
    """brute force O(N^2) weighted pair histogram with the documented normalisation"""
    n, ndim = snap.positions.shape
    V = float(np.prod(snap.boxlength))
    maxbin = int(snap.boxlength.min() / 2.0 / rdelta)
    edges = np.linspace(0.0, maxbin * rdelta, maxbin + 1)
    W = pair_weight(A, kind)
    cnt = np.zeros(maxbin)
    wsum = np.zeros(maxbin)
    hinv = np.linalg.inv(snap.hmatrix)
    for i in range(n):
        for j in range(i + 1, n):
            s = (snap.positions[j] - snap.positions[i]) @ hinv
            s = s - np.floor(s + 0.5) * np.asarray(ppp)
            d = math.sqrt(float(np.sum((s @ snap.hmatrix) ** 2)))
            k = int(np.searchsorted(edges, d, side="right")) - 1
            if d == edges[-1]:
                k = maxbin - 1
            if 0 <= k < maxbin:
                cnt[k] += 1.0
                wsum[k] += W[i, j]
    fac = {2: 1.0, 3: 4.0 / 3.0}[ndim]
    shell = fac * math.pi * (edges[1:] ** ndim - edges[:-1] ** ndim)
    nsel = float(np.sum(A)) if kind == "bool" else float(n)
    out = {
        "r": edges[1:] - 0.5 * rdelta,
        "gr": 2.0 * cnt / n / (shell * n / V),
        "gA": 2.0 * wsum / nsel / (shell * nsel / V),
    }
    if kind == "scalar" and not np.iscomplexobj(A):
        m1 = float(np.mean(A)) ** 2
        m2 = float(np.mean(np.asarray(A, dtype=float) ** 2))
        with np.errstate(all="ignore"):
            out["gA_norm"] = (out["gA"] - m1) / (m2 - m1)
    return out


def ref_sq(snap, qint, A, kind):
    """|sum_i A_i exp(-i q.r_i)|^2 / N and the Fourier amplitudes themselves"""
    q = qint.astype(float) * (2.0 * math.pi / snap.boxlength)[None, :]
    phase = np.exp(-1j * (q @ snap.positions.T))  # (nq, N)
    if kind == "bool":
        amp = phase[:, A].sum(axis=1) / math.sqrt(int(A.sum()))
        S = np.abs(amp) ** 2
    elif kind == "scalar":
        amp = (phase * np.asarray(A)[None, :]).sum(axis=1) / math.sqrt(snap.nparticle)
        S = np.abs(amp) ** 2
    else:
        amp = phase @ np.asarray(A) / math.sqrt(snap.nparticle)  # (nq, ncomp)
        S = (np.abs(amp) ** 2).sum(axis=1)
    return q, np.sqrt((q ** 2).sum(axis=1)), amp, S


def ref_average(qnorm, S):
    """mean of S (rounded to 8 decimals like the library output) over equal rounded |q|"""
    qr = np.round(qnorm, 8)
    Sr = np.round(S, 8)
    uq = np.unique(qr)
    return uq, np.array([Sr[qr == u].mean() for u in uq])


def check_gr(tag, snap, A, kind, ppp, rdelta, conditiontype=None):
    with warnings.catch_warnings():
        warnings.simplefilter("ignore")
        df = conditional_gr(snap, np.asarray(A), conditiontype, ppp, rdelta)
    ref = ref_gr(snap, A, kind, ppp, rdelta)
    cols = ["r", "gr", "gA"] + (["gA_norm"] if "gA_norm" in ref else [])
    assert list(df.columns) == cols, (tag, list(df.columns), cols)
    for c in cols:
        check(f"{tag}:{c}", df[c].values, ref[c])
    return df


def check_sq(tag, snap, qint, A, kind):
    full, ave = conditional_sq(snap, qint, np.asarray(A))
    q, qn, amp, S = ref_sq(snap, qint, A, kind)
    ndim = q.shape[1]
    check(f"{tag}:qvec", full[[f"q{i}" for i in range(ndim)]].values, q, atol=2e-8)
    check(f"{tag}:q", full["q"].values, qn, atol=2e-8)
    check(f"{tag}:Sq", full["Sq"].values, S, atol=2e-8)
    if kind == "vector":
        cols = [f"FFT{i}" for i in range(amp.shape[1])]
        check(f"{tag}:FFT", full[cols].values, amp, atol=2e-8)
    else:
        check(f"{tag}:FFT", full["FFT"].values, amp, atol=2e-8)
    uq, Sm = ref_average(qn, S)
    check(f"{tag}:ave-q", ave["q"].values, uq, atol=2e-8)
    check(f"{tag}:ave-Sq", ave["Sq"].values, Sm, atol=3e-8)
    return full, ave


def finish(tmpdir):
    shutil.rmtree(tmpdir, ignore_errors=True)
    if FAILS:
        print("FAILED:", FAILS)
        sys.exit(1)
    print("all checks passed")
    sys.exit(0)


# ---------------------------------------------------------------- demo proper
# exercises: dtype dispatch of conditional_gr, the selected-count normalisation
# of gA, the total g(r) normalisation and the gA_norm column
def main():
    tmpdir = tempfile.mkdtemp()
    rng = np.random.default_rng(7)
    cases = [
        ("3D-ortho", 3, False, False, 0.05),
        ("3D-tri", 3, True, False, 0.113),
        ("3D-negtilt", 3, True, True, 0.25),
        ("2D-ortho", 2, False, False, 0.037),
        ("2D-negtilt", 2, True, True, 0.1),
    ]
    for tag, ndim, tri, neg, rdelta in cases:
        n = 41
        snap = make_snapshot(rng, n, ndim, tri, neg)
        ppp = np.ones(ndim, dtype=int)
        sel = snap.particle_type == 2
        # boolean selection: gA normalised with the *selected* count
        df = check_gr(f"{tag}/bool", snap, sel, "bool", ppp, rdelta)
        # ... and equal to the partial g_22 of the gr class (orthogonal or not)
        part = gr(Snapshots(nsnapshots=1, snapshots=[snap]), ppp=ppp, rdelta=rdelta,
                  outputfile=f"{tmpdir}/gr.csv").getresults()
        check(f"{tag}/bool==gr22", df["gA"].values, part["gr22"].values)
        check(f"{tag}/gr==total", df["gr"].values, part["gr"].values)
        # A = 1 reproduces the total g(r); gA_norm is 0/0 there
        df1 = check_gr(f"{tag}/ones", snap, np.ones(n), "scalar", ppp, rdelta)
        check(f"{tag}/ones gA==gr", df1["gA"].values, df1["gr"].values)
        assert np.all(np.isnan(df1["gA_norm"].values) | np.isinf(df1["gA_norm"].values))
        # float scalar with non-zero mean: gA_norm = (gA - <A>^2) / (<A^2> - <A>^2)
        A = rng.normal(size=n) + 0.7
        dff = check_gr(f"{tag}/float", snap, A, "scalar", ppp, rdelta)
        m1, m2 = A.mean() ** 2, (A ** 2).mean()
        check(f"{tag}/float norm-identity", dff["gA_norm"].values, (dff["gA"].values - m1) / (m2 - m1))
        # integer scalar field (normalised variant is also produced)
        Ai = rng.integers(-2, 5, size=n)
        check_gr(f"{tag}/int", snap, Ai, "scalar", ppp, rdelta)
        # complex scalar: Re(A_i conj A_j), no gA_norm column
        Ac = rng.normal(size=n) + 1j * rng.normal(size=n)
        check_gr(f"{tag}/complex", snap, Ac, "scalar", ppp, rdelta)
        # vector and symmetric tensor: normalised with the full particle number
        v = rng.normal(size=(n, ndim))
        check_gr(f"{tag}/vector", snap, v, "vector", ppp, rdelta, "vector")
        t = rng.normal(size=(n, ndim, ndim))
        check_gr(f"{tag}/tensor", snap, t + t.transpose(0, 2, 1), "tensor", ppp, rdelta, "tensor")
    # non-periodic last direction, tiny systems (2 and 3 particles)
    snap = make_snapshot(rng, 30, 3, False)
    check_gr("3D-ppp110/float", snap, rng.normal(size=30), "scalar", np.array([1, 1, 0]), 0.2)
    for n in (2, 3):
        snap = make_snapshot(rng, n, 2, True)
        check_gr(f"2D-n{n}/float", snap, rng.normal(size=n), "scalar", np.array([1, 1]), 0.3)
        check_gr(f"2D-n{n}/bool", snap, np.arange(n) > 0, "bool", np.array([1, 1]), 0.3)
    # wrong conditiontype is still rejected
    try:
        conditional_gr(snap, np.ones(snap.nparticle), "matrix")
        FAILS.append("no ValueError")
    except ValueError:
        print("ok   ValueError for unknown conditiontype")
    finish(tmpdir)


if __name__ == "__main__":
    main()
