"""
Demo for the refactoring `split-read-lammps-into-helpers`.

read_lammps was split into a header reader and one reader per cell kind, called in sequence.
Exercises
 * read_lammps directly on an open file handle: frame after frame, mixing orthogonal and
   triclinic frames in ONE file (each frame picks its own branch from its own header),
   then None at the end of the file (and None again on a further call);
 * read_lammps_wrapper and DumpReader.read_onefile for every combination of
   ndim {2, 3} x style {x, xs, xu} x {orthogonal, triclinic with tilts of either sign},
   atom lines in random order, trailing extra columns, 1 / 3 frames with N / N+1 atoms.
Expected values are the ground truth the synthetic files are generated from (positions are
written with repr(), so they round-trip exactly), or a plain reference implementation.
Run: PYTHONPATH=<worktree> /venv/bin/python demo.py
"""
import itertools
import logging
import os
import shutil
import sys
import tempfile

import numpy as np

logging.disable(logging.CRITICAL)

from PyMatterSim.reader.dump_reader import DumpReader  # noqa: E402
from PyMatterSim.reader.lammps_reader_helper import read_lammps_wrapper  # noqa: E402
from PyMatterSim.reader.reader_utils import DumpFileType  # noqa: E402

TOL = 1e-12
COORD_NAMES = {"x": ["x", "y", "z"], "xs": ["xs", "ys", "zs"], "xu": ["xu", "yu", "zu"]}


def make_cell(rng, ndim, triclinic, tilt_signs):
    """ground-truth cell: real lo / hi per axis, tilts (xy, xz, yz)"""
    lo = rng.uniform(-7.0, 5.0, size=3)
    length = rng.uniform(3.0, 12.0, size=3)
    if ndim == 2:
        lo[2], length[2] = -0.5, 1.0
    hi = lo + length
    tilts = np.zeros(3)
    if triclinic:
        sxy, sxz, syz = tilt_signs
        tilts[0] = sxy * rng.uniform(0.2, 0.45) * length[0]
        if ndim == 3:
            tilts[1] = sxz * rng.uniform(0.2, 0.45) * length[0]
            tilts[2] = syz * rng.uniform(0.2, 0.45) * length[1]
    return lo, hi, tilts


def make_frame(rng, ndim, style, triclinic, tilt_signs, natoms, timestep):
    """returns (text of the frame, dict of expected values)"""
    lo, hi, (xy, xz, yz) = make_cell(rng, ndim, triclinic, tilt_signs)
    length = hi - lo
    types = rng.integers(1, 4, size=natoms)
    scaled = rng.uniform(0.0, 1.0, size=(natoms, 3))
    # rows a, b, c of the LAMMPS cell
    hfull = np.array([[length[0], 0.0, 0.0], [xy, length[1], 0.0], [xz, yz, length[2]]])

    if triclinic:
        cart = lo + scaled[:, :1] * hfull[0] + scaled[:, 1:2] * hfull[1]
        if ndim == 3:
            cart = cart + scaled[:, 2:3] * hfull[2]
    else:
        cart = lo + scaled * length
    cart = cart[:, :ndim]

    if style == "xs":
        written = scaled[:, :ndim]
        expected_pos = cart
    elif style == "xu":
        # unwrapped: arbitrary excursions, returned verbatim
        written = cart + rng.integers(-3, 4, size=(natoms, ndim)) * length[:ndim]
        expected_pos = written
    else:
        if triclinic:
            written = cart  # returned verbatim for triclinic cells
            expected_pos = written
        else:
            # excursions of at most one box length on either side
            shift = rng.integers(-1, 2, size=(natoms, ndim))
            written = cart + shift * length[:ndim]
            expected_pos = None  # computed below from the *parsed* numbers

    # ---- header ----
    lines = ["ITEM: TIMESTEP", str(timestep), "ITEM: NUMBER OF ATOMS", str(natoms)]
    if triclinic:
        xlo_b = lo[0] + min(0.0, xy, xz, xy + xz)
        xhi_b = hi[0] + max(0.0, xy, xz, xy + xz)
        ylo_b = lo[1] + min(0.0, yz)
        yhi_b = hi[1] + max(0.0, yz)
        bounds = np.array([[xlo_b, xhi_b, xy], [ylo_b, yhi_b, xz], [lo[2], hi[2], yz]])
        lines.append("ITEM: BOX BOUNDS xy xz yz pp pp pp")
        for row in bounds:
            lines.append(" ".join(repr(float(v)) for v in row))
    else:
        bounds = np.column_stack((lo, hi))
        lines.append("ITEM: BOX BOUNDS pp pp pp")
        for row in bounds:
            lines.append(" ".join(repr(float(v)) for v in row))
    names = COORD_NAMES[style][:ndim]
    lines.append("ITEM: ATOMS id type " + " ".join(names) + " vx q")

    # ---- atom lines in a random order, with two trailing columns ----
    order = rng.permutation(natoms)
    extra = rng.normal(size=(natoms, 2))
    for i in order:
        coords = " ".join(repr(float(v)) for v in written[i])
        lines.append(f"{i + 1} {types[i]} {coords} {float(extra[i, 0])!r} {float(extra[i, 1])!r}")

    if expected_pos is None:
        # straightforward reference wrap, element by element
        expected_pos = np.array(written, dtype=float)
        for i in range(natoms):
            for d in range(ndim):
                p = expected_pos[i, d]
                if p < lo[d]:
                    p = p + length[d]
                if p > hi[d]:
                    p = p - length[d]
                expected_pos[i, d] = p
        assert np.all(np.abs(expected_pos - written) <= length[:ndim] * (1 + 1e-12))

    expected = {
        "timestep": timestep,
        "nparticle": natoms,
        "particle_type": types,
        "positions": expected_pos,
        "boxlength": length[:ndim],
        "boxbounds": bounds[:ndim, :2],
        "realbounds": np.column_stack((lo, hi))[:ndim] if triclinic else None,
        "hmatrix": hfull[:ndim, :ndim] if triclinic else np.diag(length[:ndim]),
    }
    return "\n".join(lines) + "\n", expected


def close(a, b):
    a = np.asarray(a, dtype=float)
    b = np.asarray(b, dtype=float)
    if a.shape != b.shape:
        return False
    scale = max(1.0, float(np.max(np.abs(b))) if b.size else 1.0)
    return bool(np.all(np.abs(a - b) <= TOL * scale))


def check_snapshot(tag, snap, exp):
    assert snap.timestep == exp["timestep"], (tag, "timestep")
    assert snap.nparticle == exp["nparticle"], (tag, "nparticle")
    assert snap.particle_type.shape == exp["particle_type"].shape, (tag, "type shape")
    assert np.array_equal(snap.particle_type, exp["particle_type"]), (tag, "types")
    assert close(snap.positions, exp["positions"]), (tag, "positions")
    assert close(snap.boxlength, exp["boxlength"]), (tag, "boxlength")
    assert close(snap.boxbounds, exp["boxbounds"]), (tag, "boxbounds")
    assert close(snap.hmatrix, exp["hmatrix"]), (tag, "hmatrix")
    if exp["realbounds"] is None:
        assert snap.realbounds is None, (tag, "realbounds must be None")
    else:
        assert close(snap.realbounds, exp["realbounds"]), (tag, "realbounds")


def run_case(tmpdir, rng, ndim, style, triclinic, tilt_signs, nframes, natoms, via_class):
    tag = f"ndim={ndim} style={style} tri={triclinic} tilts={tilt_signs} frames={nframes} n={natoms}"
    text, expected = "", []
    for n in range(nframes):
        frame_text, exp = make_frame(rng, ndim, style, triclinic, tilt_signs,
                                     natoms + (n % 2), 1000 * n + 7)
        text += frame_text
        expected.append(exp)
    path = os.path.join(tmpdir, "case.dump")
    with open(path, "w", encoding="utf-8") as handle:
        handle.write(text)

    if via_class:
        reader = DumpReader(path, ndim=ndim, filetype=DumpFileType.LAMMPS)
        reader.read_onefile()
        snapshots = reader.snapshots
    else:
        snapshots = read_lammps_wrapper(path, ndim)

    assert snapshots.nsnapshots == nframes, (tag, "nsnapshots", snapshots.nsnapshots)
    assert len(snapshots.snapshots) == nframes, (tag, "len(snapshots)")
    for n, (snap, exp) in enumerate(zip(snapshots.snapshots, expected)):
        check_snapshot(f"{tag} frame={n}", snap, exp)
    return snapshots


def all_cases():
    sign_sets_3d = list(itertools.product((1, -1), repeat=3))
    for ndim in (2, 3):
        for style in ("x", "xs", "xu"):
            yield ndim, style, False, (0, 0, 0)
            signs = sign_sets_3d if ndim == 3 else [(1, 0, 0), (-1, 0, 0)]
            for tilt_signs in signs:
                yield ndim, style, True, tilt_signs


def mixed_file_through_read_lammps(tmpdir, rng):
    from PyMatterSim.reader.lammps_reader_helper import read_lammps

    for ndim in (2, 3):
        plan = [("xs", True, (-1, 1, -1)), ("x", False, (0, 0, 0)), ("xu", True, (1, -1, 1)),
                ("xs", False, (0, 0, 0)), ("x", True, (-1, -1, -1)), ("xu", False, (0, 0, 0))]
        if ndim == 2:
            plan = [(style, tri, (signs[0], 0, 0)) for style, tri, signs in plan]
        text, expected = "", []
        for n, (style, tri, signs) in enumerate(plan):
            frame_text, exp = make_frame(rng, ndim, style, tri, signs, 5 + n, 10 * n)
            text += frame_text
            expected.append(exp)
        path = os.path.join(tmpdir, "mixed.dump")
        with open(path, "w", encoding="utf-8") as handle:
            handle.write(text)
        with open(path, "r", encoding="utf-8") as handle:
            for n, exp in enumerate(expected):
                snap = read_lammps(handle, ndim)
                check_snapshot(f"mixed ndim={ndim} frame={n}", snap, exp)
            assert read_lammps(handle, ndim) is None
            assert read_lammps(handle, ndim) is None
        snaps = read_lammps_wrapper(path, ndim)
        assert snaps.nsnapshots == len(plan)
        for n, (snap, exp) in enumerate(zip(snaps.snapshots, expected)):
            check_snapshot(f"mixed/wrapper ndim={ndim} frame={n}", snap, exp)


def main():
    rng = np.random.default_rng(987654321)
    tmpdir = tempfile.mkdtemp()
    ncases = 0
    try:
        mixed_file_through_read_lammps(tmpdir, rng)
        for ndim, style, triclinic, tilt_signs in all_cases():
            for nframes, natoms, via_class in ((1, 12, False), (3, 7, True), (2, 0, False)):
                run_case(tmpdir, rng, ndim, style, triclinic, tilt_signs, nframes, natoms, via_class)
                ncases += 1
    finally:
        shutil.rmtree(tmpdir)
    print(f"OK: {ncases + 2} synthetic dump files read back exactly")
    return 0


if __name__ == "__main__":
    sys.exit(main())
