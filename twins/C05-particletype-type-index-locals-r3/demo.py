"""Demo for the locals / precomputed type-index arrays in cutoffneighbors_particletype.

Builds synthetic multi-frame trajectories (2D/3D, orthogonal / triclinic with negative
tilt, all periodicity masks, 2 and 3 particle types in random order, NON-symmetric
float and integer cutoff matrices so that row = centre type and column = neighbour
type matter), calls the public function, and compares the written text byte-for-byte
with text rebuilt here from a scalar brute-force reference; then reads it back with
read_neighbors.  Exits 0 on the unchanged and on the refactored tree.
"""
import itertools
import math
import os
import shutil
import sys
import tempfile

import numpy as np

from PyMatterSim.neighbors.calculate_neighbors import cutoffneighbors_particletype
from PyMatterSim.neighbors.read_neighbors import read_neighbors
from PyMatterSim.reader.reader_utils import SingleSnapshot, Snapshots


def make(rng, n, hmatrix, nframes, ntypes):
    ndim = hmatrix.shape[0]
    ptype = rng.integers(1, ntypes + 1, size=n)
    ptype[rng.permutation(n)[:ntypes]] = np.arange(1, ntypes + 1)  # every type present
    frames = []
    for t in range(nframes):
        pos = (rng.random((n, ndim)) * 1.4 - 0.2) @ hmatrix  # some particles outside the cell
        frames.append(SingleSnapshot(
            timestep=t, nparticle=n, particle_type=ptype.copy(), positions=pos,
            boxlength=np.diag(hmatrix).copy(), boxbounds=np.zeros((ndim, 2)),
            realbounds=np.zeros((ndim, 2)), hmatrix=hmatrix))
    return Snapshots(nsnapshots=nframes, snapshots=frames)


def distance(ri, rj, hmatrix, hinv, ppp):
    """scalar minimum-image distance (fractional rounding in periodic directions)"""
    ndim = len(ri)
    d = [rj[k] - ri[k] for k in range(ndim)]
    s = [sum(d[k] * hinv[k][c] for k in range(ndim)) for c in range(ndim)]
    s = [s[c] - (round(s[c]) if ppp[c] else 0.0) for c in range(ndim)]
    r = [sum(s[k] * hmatrix[k][c] for k in range(ndim)) for c in range(ndim)]
    return math.sqrt(sum(x * x for x in r))


def reference(snaps, r_cut, ppp, margin=1e-9):
    """expected file text and tables; (None, None) if a distance is within margin of its cutoff"""
    text, tables = [], []
    for snapshot in snaps.snapshots:
        h = snapshot.hmatrix
        hinv = np.linalg.inv(h)
        pos = snapshot.positions
        typ = snapshot.particle_type
        text.append("id     cn     neighborlist\n")
        table = []
        for i in range(snapshot.nparticle):
            near = []
            for j in range(snapshot.nparticle):
                if j == i:
                    continue
                d = distance(pos[i], pos[j], h, hinv, ppp)
                rc = float(r_cut[typ[i] - 1][typ[j] - 1])  # row: centre type, column: neighbour type
                if abs(d - rc) < margin:
                    return None, None
                if d <= rc:
                    near.append((d, j))
            ids = [j for _, j in sorted(near)]
            table.append(ids)
            text.append("%d %d " % (i + 1, len(ids)) + " ".join(str(j + 1) for j in ids) + "\n")
        tables.append(table)
    return "".join(text), tables


def main():
    rng = np.random.default_rng(37)
    tmp = tempfile.mkdtemp()
    ok = True
    ncases = 0
    try:
        cells = [np.diag([6.0, 7.0, 8.0]),
                 np.array([[7.0, 0, 0], [-2.0, 6.5, 0], [1.0, -1.5, 8.0]]),
                 np.diag([9.0, 7.0]),
                 np.array([[9.0, 0], [-3.0, 8.0]])]
        matrices = {
            2: [np.array([[1.5, 2.8], [0.4, 2.1]]), np.array([[2, 1], [3, 2]]),
                np.array([[0.01, 0.02], [0.03, 0.01]])],
            3: [np.array([[1.5, 2.8, 0.7], [0.4, 2.1, 3.3], [2.6, 0.2, 1.1]]),
                np.array([[100.0, 0.0, 2.0], [0.0, 100.0, 2.0], [1.0, 3.0, 0.0]])],
        }
        n = 24
        for cell in cells:
            ndim = cell.shape[0]
            for ppp in itertools.product((1, 0), repeat=ndim):
                ppp = np.array(ppp)
                for ntypes in (2, 3):
                    snaps = make(rng, n, cell, 3, ntypes)
                    for r_cut in matrices[ntypes]:
                        exp_text, tables = reference(snaps, r_cut.tolist(), ppp)
                        if exp_text is None:
                            continue
                        ncases += 1
                        fn = os.path.join(tmp, "pt.dat")
                        cutoffneighbors_particletype(snaps, r_cut=r_cut, ppp=ppp, fnfile=fn)
                        with open(fn, encoding="utf-8") as f:
                            got_text = f.read()
                        if got_text != exp_text:
                            ok = False
                            print("TEXT MISMATCH", cell.tolist(), ppp, r_cut.tolist())
                        for Nmax in (200, 3):
                            with open(fn, encoding="utf-8") as f:
                                for table in tables:
                                    back = read_neighbors(f, n, Nmax=Nmax)
                                    cn = np.minimum([len(t) for t in table], Nmax)
                                    width = cn.max() + 1 if cn.max() < Nmax else Nmax + 1
                                    good = back.dtype == np.int32 and back.shape == (n, width)
                                    good = good and np.array_equal(back[:, 0], cn)
                                    for i, t in enumerate(table):
                                        good = good and back[i, 1:1 + cn[i]].tolist() == t[:cn[i]]
                                        good = good and not back[i, 1 + cn[i]:].any()
                                        good = good and i not in t
                                    if not good:
                                        ok = False
                                        print("READ-BACK MISMATCH", cell.tolist(), ppp, r_cut.tolist(), Nmax)
        if ncases < 50:
            ok = False
            print("too few cases exercised", ncases)
        # input validation is unchanged
        snaps = make(rng, 6, np.diag([5.0, 5.0, 5.0]), 1, 2)
        for bad in ([[1.0, 2.0], [2.0, 1.0]], np.ones((3, 3))):
            try:
                cutoffneighbors_particletype(snaps, r_cut=bad, fnfile=os.path.join(tmp, "bad.dat"))
                ok = False
                print("no error for invalid r_cut")
            except IOError:
                pass
        if os.path.exists(os.path.join(tmp, "bad.dat")):
            ok = False
            print("file created although r_cut was rejected")
    finally:
        shutil.rmtree(tmp)
    print("OK" if ok else "FAILED")
    return 0 if ok else 1


if __name__ == "__main__":
    sys.exit(main())
