"""Demo for the syntactic refactoring of PyMatterSim.static.shape.gyration_tensor.

Checks the public function against an independent reference (matrix product +
eigvalsh) on 3D and 2D clusters, including a read-only input, a
non-contiguous view, a far-from-origin cluster and a tiny cluster, and checks
that the input is bit-for-bit unchanged and that repeated calls agree.
Exits 0 on success.
"""
import sys

import numpy as np

from PyMatterSim.static.shape import gyration_tensor


def reference(pos):
    pos = np.asarray(pos, dtype=np.float64)
    npart, ndim = pos.shape
    shifted = pos - pos.mean(axis=0)
    tensor = shifted.T @ shifted / npart
    lam = np.sort(np.linalg.eigvalsh(tensor))
    rg = np.sqrt(lam.sum())
    acyl = lam[1] - lam[0]
    fractal = np.log10(npart) / np.log10(rg)
    if ndim == 3:
        asph = 1.5 * lam[2] - 0.5 * lam.sum()
        aniso = (asph ** 2 + 0.75 * acyl ** 2) / rg ** 4
        return [rg, asph, acyl, aniso, fractal]
    return [rg, acyl, fractal]


def check(pos, label):
    before = pos.tobytes()
    first = gyration_tensor(pos)
    second = gyration_tensor(pos)
    assert pos.tobytes() == before, f"{label}: input modified"
    assert len(first) == (5 if pos.shape[1] == 3 else 3), label
    assert all(a == b for a, b in zip(first, second)), f"{label}: repeated call differs"
    np.testing.assert_allclose(first, reference(pos), rtol=1e-9, atol=1e-12, err_msg=label)


def main():
    rng = np.random.default_rng(20240918)

    # 3D anisotropic cluster
    check(rng.normal(size=(57, 3)) * np.array([3.0, 1.0, 0.4]), "3d")
    # 2D cluster
    check(rng.normal(size=(41, 2)) * np.array([2.0, 0.7]), "2d")
    # cluster far away from the origin
    check(rng.normal(size=(30, 3)) + np.array([1.0e3, -2.0e3, 5.0e2]), "3d-offset")
    # read-only input: any in-place operation on the argument would raise
    frozen = rng.uniform(-4, 4, size=(25, 3))
    frozen.setflags(write=False)
    check(frozen, "3d-readonly")
    # non-contiguous views (column slice of a wider array, Fortran order)
    wide = rng.uniform(0, 10, size=(33, 5))
    check(wide[:, 1:4], "3d-view")
    check(wide[:, ::3], "2d-strided-view")
    check(np.asfortranarray(rng.uniform(0, 10, size=(19, 3))), "3d-fortran")
    # tiny clusters
    check(rng.uniform(0, 5, size=(4, 3)), "3d-four")
    check(rng.uniform(0, 5, size=(3, 2)), "2d-three")

    # wrong dimensionality is still rejected
    try:
        gyration_tensor(rng.uniform(size=(5, 4)))
    except ValueError:
        pass
    else:
        raise AssertionError("4D input accepted")

    print("gyration_tensor demo: OK")
    return 0


if __name__ == "__main__":
    sys.exit(main())
