"""Demo for the itertools refactoring of PyMatterSim.static.geometric
(q8_tetrahedral pair loop -> itertools.combinations, packing_capability_2d reference-angle
loop -> itertools.product).

Synthetic inputs: perfect diamond lattice (tetrahedral order exactly 1), random 3D triclinic
cell with negative tilt and lattice-shifted particles, open cluster; perfect 2D hexagonal
lattice (packing capability exactly 0) and a random binary 2D configuration in a tilted
cell with unequal coordination numbers. Results are compared with a reference written here.
"""

import itertools
import os
import shutil
import sys
import tempfile

import numpy as np

from PyMatterSim.reader.reader_utils import SingleSnapshot, Snapshots
from PyMatterSim.static.geometric import packing_capability_2d, q8_tetrahedral


def check(cond, msg):
    if not cond:
        print("FAIL:", msg)
        sys.exit(1)


def snapshot_of(pos, hmatrix, ptype=None, step=0):
    hmatrix = np.asarray(hmatrix, dtype=float)
    ndim = hmatrix.shape[0]
    boxlength = np.diag(hmatrix).copy()
    bounds = np.column_stack((np.zeros(ndim), boxlength))
    if ptype is None:
        ptype = np.ones(pos.shape[0], dtype=np.int32)
    return SingleSnapshot(
        timestep=step,
        nparticle=pos.shape[0],
        particle_type=ptype,
        positions=pos,
        boxlength=boxlength,
        boxbounds=bounds,
        realbounds=bounds,
        hmatrix=hmatrix,
    )


def min_image_vectors(pos, i, hmatrix, ppp):
    """true minimum-image vectors from particle i to all particles (image scan)"""
    ndim = hmatrix.shape[0]
    ranges = [(-2, -1, 0, 1, 2) if ppp[k] else (0,) for k in range(ndim)]
    rij = pos - pos[i]
    best = rij.copy()
    bestd = np.full(pos.shape[0], np.inf)
    for shift in itertools.product(*ranges):
        cand = rij + np.asarray(shift, dtype=float) @ hmatrix
        d = np.sqrt((cand * cand).sum(axis=1))
        better = d < bestd
        best[better] = cand[better]
        bestd[better] = d[better]
    return best, bestd


def reference_q8(snaps, ppp):
    out = np.zeros((snaps.nsnapshots, snaps.snapshots[0].nparticle))
    for n, snap in enumerate(snaps.snapshots):
        for i in range(snap.nparticle):
            vec, dist = min_image_vectors(snap.positions, i, snap.hmatrix, ppp)
            near = [j for j in np.argsort(dist) if j != i][:4]
            acc = 0.0
            for a in range(4):
                for b in range(a + 1, 4):
                    cos = vec[near[a]] @ vec[near[b]] / (dist[near[a]] * dist[near[b]])
                    acc += (cos + 1.0 / 3) ** 2
            # the library normalises the sum by the number of neighbours (4)
            out[n, i] = 1.0 - 3.0 / 8 * acc / 4
    return out


def reference_packing(snaps, sigmas, tables, ppp):
    out = np.zeros((snaps.nsnapshots, snaps.snapshots[0].nparticle))
    for n, (snap, table) in enumerate(zip(snaps.snapshots, tables)):
        for o in range(snap.nparticle):
            vec, dist = min_image_vectors(snap.positions, o, snap.hmatrix, ppp)
            acc = 0.0
            for a in range(len(table[o])):
                for b in range(a + 1, len(table[o])):
                    i, j = table[o][a], table[o][b]
                    if j in table[i] and i in table[j]:
                        theta = np.arccos(vec[i] @ vec[j] / (dist[i] * dist[j]))
                        so_i = sigmas[snap.particle_type[o] - 1, snap.particle_type[i] - 1]
                        so_j = sigmas[snap.particle_type[o] - 1, snap.particle_type[j] - 1]
                        s_ij = sigmas[snap.particle_type[i] - 1, snap.particle_type[j] - 1]
                        ref = np.arccos((so_i**2 + so_j**2 - s_ij**2) / (2 * so_i * so_j))
                        acc += abs(theta - ref)
            out[n, o] = acc / len(table[o])
    return out


def write_neighbors(fname, tables, rng):
    with open(fname, "w", encoding="utf-8") as f:
        for table in tables:
            f.write("id     cn     neighborlist\n")
            for i in rng.permutation(len(table)):  # lines in shuffled id order
                f.write("%d %d " % (i + 1, len(table[i])) + " ".join(str(j + 1) for j in table[i]) + "\n")


def cutoff_table(snap, rcut, ppp):
    table = []
    for i in range(snap.nparticle):
        _, dist = min_image_vectors(snap.positions, i, snap.hmatrix, ppp)
        sel = [int(j) for j in np.argsort(dist) if j != i and dist[j] <= rcut]
        table.append(sel)
    return table


def main():
    rng = np.random.default_rng(31337)
    tmp = tempfile.mkdtemp()
    try:
        # ---------------- q8_tetrahedral
        basis = np.array(
            [[0, 0, 0], [0, 0.5, 0.5], [0.5, 0, 0.5], [0.5, 0.5, 0],
             [0.25, 0.25, 0.25], [0.25, 0.75, 0.75], [0.75, 0.25, 0.75], [0.75, 0.75, 0.25]]
        )
        cells = np.array(list(itertools.product(range(2), repeat=3)), dtype=float)
        diamond = (basis[None, :, :] + cells[:, None, :]).reshape(-1, 3) * 1.7
        diamond = diamond[rng.permutation(diamond.shape[0])] + np.array([0.3, -5.1, 2.2])
        snaps = Snapshots(nsnapshots=1, snapshots=[snapshot_of(diamond, np.eye(3) * 3.4)])
        got = q8_tetrahedral(snaps, ppp=np.array([1, 1, 1]))
        check(got.shape == (1, 64), "diamond: shape")
        check(np.allclose(got, 1.0, atol=1e-12), "diamond: tetrahedral order must be 1")

        hmat = np.array([[6.0, 0, 0], [-1.5, 6.4, 0], [1.1, -0.7, 5.8]])
        frames = []
        for n in range(2):
            pos = rng.random((70, 3)) @ hmat
            pos[::6] += hmat[2]
            pos[1::8] -= hmat[0] + hmat[1]
            frames.append(snapshot_of(pos, hmat, step=n))
        snaps = Snapshots(nsnapshots=2, snapshots=frames)
        for ppp in ([1, 1, 1], [0, 0, 0]):
            if ppp == [0, 0, 0]:
                # open boundaries: undo the lattice shifts is not possible, use fresh compact cluster
                frames = [snapshot_of(rng.normal(size=(45, 3)) * 1.5 + 9.0, np.eye(3) * 40.0, step=n) for n in range(2)]
                snaps = Snapshots(nsnapshots=2, snapshots=frames)
            out = os.path.join(tmp, "q8_%d.npy" % ppp[0])
            got = q8_tetrahedral(snaps, ppp=np.array(ppp), outputfile=out)
            want = reference_q8(snaps, ppp)
            check(np.allclose(got, want, rtol=1e-10, atol=1e-12), f"q8 ppp={ppp}: differs from reference")
            check(np.array_equal(np.load(out), got), f"q8 ppp={ppp}: saved file")

        # ---------------- packing_capability_2d
        # perfect hexagonal lattice, spacing 1.1: all bond angles between adjacent neighbours are 60 deg
        nx, ny, a = 6, 6, 1.1
        hex_pos = np.array(
            [[(ix + 0.5 * (iy % 2)) * a, iy * a * np.sqrt(3) / 2] for iy in range(ny) for ix in range(nx)]
        )
        hbox = np.array([[nx * a, 0.0], [0.0, ny * a * np.sqrt(3) / 2]])
        snap = snapshot_of(hex_pos + np.array([-2.0, 0.4]), hbox)
        tables = [cutoff_table(snap, 1.2 * a, [1, 1])]
        check(all(len(t) == 6 for t in tables[0]), "hexagonal set-up: six neighbours")
        fname = os.path.join(tmp, "hex.neighbor.dat")
        write_neighbors(fname, tables, rng)
        got = packing_capability_2d(
            Snapshots(nsnapshots=1, snapshots=[snap]), sigmas=np.array([[a]]), neighborfile=fname, ppp=np.array([1, 1])
        )
        check(np.allclose(got, 0.0, atol=1e-6), "hexagonal: packing capability must vanish")

        # random binary configuration in a tilted cell (negative tilt), 2 frames, unequal CN
        hmat2 = np.array([[8.0, 0.0], [-2.2, 7.0]])
        ptype = (np.arange(60) % 2 + 1).astype(np.int32)
        rng.shuffle(ptype)
        frames, tables = [], []
        for n in range(2):
            pos = rng.random((60, 2)) @ hmat2
            pos[::5] += hmat2[1]
            pos[2::7] -= hmat2[0]
            frames.append(snapshot_of(pos, hmat2, ptype=ptype, step=n))
            tables.append(cutoff_table(frames[-1], 1.7, [1, 1]))
            check(all(1 <= len(t) <= 20 for t in tables[-1]), "random 2d set-up: coordination numbers")
        snaps = Snapshots(nsnapshots=2, snapshots=frames)
        fname = os.path.join(tmp, "rand.neighbor.dat")
        write_neighbors(fname, tables, rng)
        sigmas = np.array([[1.0, 1.2], [1.2, 1.4]])
        out = os.path.join(tmp, "theta.npy")
        got = packing_capability_2d(snaps, sigmas=sigmas, neighborfile=fname, ppp=np.array([1, 1]), outputfile=out)
        want = reference_packing(snaps, sigmas, tables, [1, 1])
        check(got.shape == want.shape, "packing: shape")
        check(np.allclose(got, want, rtol=1e-9, atol=1e-9), "packing: differs from reference")
        check(np.array_equal(np.load(out), got), "packing: saved file")
        print("OK")
    finally:
        shutil.rmtree(tmp, ignore_errors=True)


if __name__ == "__main__":
    main()
