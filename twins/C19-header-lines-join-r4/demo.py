"""Demo for the refactoring 'header-lines-join'.

Exercises PyMatterSim.writer.lammps_writer.write_dump_header / write_data_header:
 * the returned strings are compared with an independent reference layout
   written in this file (2D and 3D, lists and arrays, negative bounds,
   numpy integers, addson given / left at its default None);
 * the loop writer -> dump reader is closed: frames written with the header
   writer followed by atom lines are read back with the same timestep,
   particle number and box bounds (2D and 3D, several frames, N = 1 and N > 1).
Exits 0 on success.
"""
import os
import shutil
import sys
import tempfile

import numpy as np

from PyMatterSim.reader.lammps_reader_helper import (read_additions,
                                                      read_lammps_wrapper)
from PyMatterSim.writer.lammps_writer import (write_data_header,
                                              write_dump_header)


def ref_dump_header(timestep, nparticle, bounds, addson=None):
    out = []
    out.append("ITEM: TIMESTEP\n")
    out.append("%s\n" % (timestep,))
    out.append("ITEM: NUMBER OF ATOMS\n")
    out.append("%s\n" % (nparticle,))
    out.append("ITEM: BOX BOUNDS pp pp pp\n")
    for d in range(2):
        out.append("%.6f %.6f\n" % (bounds[d][0], bounds[d][1]))
    if len(bounds) == 3:
        out.append("%.6f %.6f\n" % (bounds[2][0], bounds[2][1]))
        out.append("ITEM: ATOMS id type x y z %s\n" % (addson,))
    else:
        out.append("-0.500000 0.500000\n")
        out.append("ITEM: ATOMS id type x y %s\n" % (addson,))
    return "".join(out)


def ref_data_header(nparticle, ntype, bounds):
    out = "LAMMPS data file\n\n%s atoms\n%s atom types\n\n" % (nparticle, ntype)
    for d, name in zip(range(2), "xy"):
        out += "%.6f %.6f %slo %shi\n" % (bounds[d][0], bounds[d][1], name, name)
    if len(bounds) == 3:
        out += "%.6f %.6f zlo zhi\n" % (bounds[2][0], bounds[2][1])
    else:
        out += "-0.5 0.5 zlo zhi\n"
    out += "\nAtoms #atomic\n\n"
    return out


def check_strings(rng):
    for ndim in (2, 3):
        for trial in range(6):
            lo = rng.uniform(-20, 5, size=ndim)
            hi = lo + rng.uniform(0.5, 30, size=ndim)
            bounds = np.column_stack((lo, hi))
            variants = [bounds, bounds.tolist(), [tuple(b) for b in bounds]]
            timestep = [0, 7, np.int64(123456789), 10 ** 12, 5, 42][trial]
            npart = [0, 1, 2, np.int32(17), 1000, 8101][trial]
            for b in variants:
                for addson in (None, "", "order", "order Q6"):
                    if addson is None:
                        got = write_dump_header(timestep, npart, b)
                    else:
                        got = write_dump_header(timestep, npart, b, addson)
                    assert got == ref_dump_header(timestep, npart, b, addson), (got,)
                    assert got.endswith("\n") and not got.endswith("\n\n")
                    assert got.count("\n") == 9
                got = write_data_header(npart, trial + 1, b)
                assert got == ref_data_header(npart, trial + 1, b), (got,)
                assert got.count("\n") == 11


def check_roundtrip(rng, tmp):
    for ndim in (2, 3):
        for npart in (1, 2, 13):
            fname = os.path.join(tmp, "dump_%dd_%d.atom" % (ndim, npart))
            frames = []
            with open(fname, "w", encoding="utf-8") as f:
                for k in range(3):
                    lo = np.round(rng.uniform(-9, 3, size=ndim), 6)
                    hi = np.round(lo + rng.uniform(1, 12, size=ndim), 6)
                    bounds = np.column_stack((lo, hi))
                    timestep = 1000 * k + int(rng.integers(0, 999))
                    pos = np.round(lo + rng.uniform(0.01, 0.99, size=(npart, ndim)) * (hi - lo), 6)
                    types = rng.integers(1, 4, size=npart)
                    order = np.round(rng.normal(size=npart), 6)
                    ids = rng.permutation(npart) + 1  # unsorted ids
                    f.write(write_dump_header(timestep, npart, bounds, "order"))
                    for i in ids:
                        coords = " ".join("%.6f" % c for c in pos[i - 1])
                        f.write("%d %d %s %.6f\n" % (i, types[i - 1], coords, order[i - 1]))
                    frames.append((timestep, bounds, pos, types, order))
            snaps = read_lammps_wrapper(fname, ndim)
            assert snaps.nsnapshots == 3 == len(snaps.snapshots)
            for snap, (timestep, bounds, pos, types, order) in zip(snaps.snapshots, frames):
                assert snap.timestep == timestep
                assert snap.nparticle == npart
                assert snap.boxbounds.shape == (ndim, 2)
                assert np.array_equal(snap.boxbounds, bounds)
                assert np.array_equal(snap.boxlength, bounds[:, 1] - bounds[:, 0])
                assert np.array_equal(snap.particle_type, types)
                assert np.allclose(snap.positions, pos, rtol=0, atol=1e-12)
            extra = read_additions(fname, ncol=ndim + 2)
            assert extra.shape == (3, npart)
            for k in range(3):
                assert np.array_equal(extra[k], frames[k][4])


def main():
    rng = np.random.default_rng(20260930)
    tmp = tempfile.mkdtemp()
    try:
        check_strings(rng)
        check_roundtrip(rng, tmp)
    finally:
        shutil.rmtree(tmp, ignore_errors=True)
    print("header-lines-join demo: OK")
    return 0


if __name__ == "__main__":
    sys.exit(main())
