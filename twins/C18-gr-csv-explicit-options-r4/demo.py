"""Demo for static.gr.gr (unary ... quinary and the >5 types fallback): csv output.

For 2D / 3D systems (orthogonal, triclinic with negative tilt, one non-periodic direction)
with 1, 2, 3, 4, 5 and 6 particle types:
  * the total g(r) and the partial g(r) agree with an independent all-pairs reference;
  * the csv file is, character for character, header "r,gr,..." followed by the returned
    values formatted with %.6f (so: holds the returned values, same file format);
  * inputs unchanged, repeated calls bit-for-bit identical.
"""

import itertools
import os
import shutil
import sys
import tempfile

import numpy as np

from PyMatterSim.reader.reader_utils import SingleSnapshot, Snapshots
from PyMatterSim.static.gr import gr


def make_snapshots(ndim, ntypes, nparticle, nframes, tilt, rng):
    boxlength = np.array([5.0, 6.0, 7.0][:ndim])
    hmatrix = np.diag(boxlength)
    if tilt:
        hmatrix[1, 0] = tilt  # lammps style: second cell vector (xy, ly, 0)
    types = np.concatenate((np.arange(1, ntypes + 1), rng.integers(1, ntypes + 1, nparticle - ntypes)))
    rng.shuffle(types)
    frames = []
    for n in range(nframes):
        positions = rng.random((nparticle, ndim)) @ hmatrix
        bounds = np.column_stack((np.zeros(ndim), boxlength))
        frames.append(
            SingleSnapshot(
                timestep=n,
                nparticle=nparticle,
                particle_type=types.copy(),
                positions=positions,
                boxlength=boxlength.copy(),
                boxbounds=bounds,
                realbounds=bounds.copy(),
                hmatrix=hmatrix.copy(),
            )
        )
    return Snapshots(nsnapshots=nframes, snapshots=frames)


def freeze(snapshots, ppp):
    out = [np.array(ppp, copy=True)]
    for s in snapshots.snapshots:
        for a in (s.particle_type, s.positions, s.boxlength, s.boxbounds, s.realbounds, s.hmatrix):
            out.append(np.array(a, copy=True))
    return out


def same(a, b):
    return all(x.dtype == y.dtype and x.shape == y.shape and x.tobytes() == y.tobytes() for x, y in zip(a, b))


def reference(snapshots, ppp, rdelta, ntypes):
    s0 = snapshots.snapshots[0]
    ndim = s0.positions.shape[1]
    nparticle = s0.nparticle
    volume = float(np.prod(s0.boxlength))
    maxbin = int(s0.boxlength.min() / 2.0 / rdelta)
    edges = np.linspace(0, maxbin * rdelta, maxbin + 1)
    if ndim == 2:
        shell = np.pi * (edges[1:] ** 2 - edges[:-1] ** 2)
    else:
        shell = 4.0 / 3.0 * np.pi * (edges[1:] ** 3 - edges[:-1] ** 3)
    iu, ju = np.triu_indices(nparticle, k=1)
    counts = {"gr": np.zeros(maxbin)}
    pairs = list(itertools.combinations_with_replacement(range(1, ntypes + 1), 2))
    for a, b in pairs:
        counts[f"gr{a}{b}"] = np.zeros(maxbin)
    for s in snapshots.snapshots:
        hinv = np.linalg.inv(s.hmatrix)
        d = s.positions[ju] - s.positions[iu]
        frac = d @ hinv
        frac = frac - np.rint(frac) * np.asarray(ppp)[np.newaxis, :]
        d = frac @ s.hmatrix
        dist = np.sqrt((d * d).sum(axis=1))
        counts["gr"] += np.histogram(dist, bins=maxbin, range=(0, maxbin * rdelta))[0]
        ti, tj = s.particle_type[iu], s.particle_type[ju]
        for a, b in pairs:
            sel = ((ti == a) & (tj == b)) | ((ti == b) & (tj == a))
            counts[f"gr{a}{b}"] += np.histogram(dist[sel], bins=maxbin, range=(0, maxbin * rdelta))[0]
    nframes = snapshots.nsnapshots
    out = {"r": edges[1:] - 0.5 * rdelta}
    out["gr"] = 2 * counts["gr"] / nframes / nparticle / (shell * nparticle / volume)
    ntype = {t: int((s0.particle_type == t).sum()) for t in range(1, ntypes + 1)}
    for a, b in pairs:
        if a == b:
            out[f"gr{a}{b}"] = 2 * counts[f"gr{a}{b}"] / nframes / ntype[a] / (shell * ntype[a] / volume)
        else:
            out[f"gr{a}{b}"] = counts[f"gr{a}{b}"] / nframes / shell * volume / ntype[a] / ntype[b]
    return out


def expected_text(table):
    lines = [",".join(table.columns)]
    for row in table.values:
        lines.append(",".join("%.6f" % v for v in row))
    return "\n".join(lines) + "\n"


def main():
    rng = np.random.default_rng(4242)
    tmpdir = tempfile.mkdtemp()
    failures = 0
    rdelta = 0.1
    try:
        cases = []
        for ntypes in (1, 2, 3, 4, 5, 6):
            cases.append((f"3d-{ntypes}types", 3, ntypes, 0.0, [1, 1, 1]))
        cases.append(("2d-1types", 2, 1, 0.0, [1, 1]))
        cases.append(("2d-2types-tilt", 2, 2, -1.3, [1, 1]))
        cases.append(("2d-3types-open", 2, 3, 0.0, [1, 0]))
        cases.append(("3d-2types-tilt", 3, 2, -2.1, [1, 1, 1]))
        for name, ndim, ntypes, tilt, ppp in cases:
            snapshots = make_snapshots(ndim, ntypes, 20 + 2 * ntypes, 2, tilt, rng)
            ppp = np.array(ppp)
            before = freeze(snapshots, ppp)
            path = os.path.join(tmpdir, name + ".csv")
            result = gr(snapshots, ppp=ppp, rdelta=rdelta, outputfile=path).getresults()
            ref = reference(snapshots, ppp, rdelta, ntypes if 2 <= ntypes <= 5 else 0)
            if sorted(ref) != sorted(result.columns):
                print(f"FAIL {name}: columns {list(result.columns)}")
                failures += 1
            else:
                for col, values in ref.items():
                    if not np.allclose(values, result[col].values, rtol=1e-10, atol=1e-12):
                        print(f"FAIL {name}: column {col} differs from the reference")
                        failures += 1
            if list(result.columns[:2]) != ["r", "gr"]:
                print(f"FAIL {name}: column order {list(result.columns)}")
                failures += 1
            with open(path, "r", encoding="utf-8") as f:
                text = f.read()
            if text != expected_text(result):
                print(f"FAIL {name}: csv text is not the %.6f rendering of the returned table")
                failures += 1
            again = gr(snapshots, ppp=ppp, rdelta=rdelta).getresults()
            if list(again.columns) != list(result.columns) or again.values.tobytes() != result.values.tobytes():
                print(f"FAIL {name}: repeated call differs")
                failures += 1
            if not same(before, freeze(snapshots, ppp)):
                print(f"FAIL {name}: inputs were modified")
                failures += 1
            if sorted(os.listdir(tmpdir)).count(name + ".csv") != 1:
                print(f"FAIL {name}: output file missing")
                failures += 1
            print(f"ok   {name}")
    finally:
        shutil.rmtree(tmpdir, ignore_errors=True)
    if failures:
        print(f"{failures} failure(s)")
        return 1
    print("all checks passed")
    return 0


if __name__ == "__main__":
    sys.exit(main())
