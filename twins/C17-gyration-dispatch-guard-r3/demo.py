"""Demo for the gyration_tensor refactoring (if/elif -> dict dispatch, swapped return arms).

Checks 2D and 3D point clouds (N = 2 .. 60, shifted and anisotropic) against a
reference built from numpy's symmetric eigen-solver, an analytic octahedron /
rectangle, translation invariance, list lengths and the ValueError for other
dimensionalities.
"""
import sys

import numpy as np

from PyMatterSim.static.shape import gyration_tensor


def reference(points):
    npart, ndim = points.shape
    centred = points - points.sum(axis=0) / npart
    tensor = centred.T @ centred / npart
    lam = np.linalg.eigvalsh(tensor)            # ascending
    rg = np.sqrt(lam.sum())
    acyl = lam[1] - lam[0]
    fractal = np.log10(npart) / np.log10(rg)
    if ndim == 2:
        return [rg, acyl, fractal]
    asph = lam[2] - 0.5 * (lam[0] + lam[1])
    aniso = (asph ** 2 + 0.75 * acyl ** 2) / rg ** 4
    return [rg, asph, acyl, aniso, fractal]


def check(points, name, rtol=1e-9, atol=1e-11):
    got = gyration_tensor(points)
    ref = reference(points)
    assert isinstance(got, list) and len(got) == len(ref) == (3 if points.shape[1] == 2 else 5), name
    got = np.array(got)
    assert np.all(np.abs(np.imag(got)) <= 1e-12), name
    np.testing.assert_allclose(np.real(got), ref, rtol=rtol, atol=atol, err_msg=name)
    return np.real(got)


def main():
    rng = np.random.default_rng(31415)
    for ndim in (2, 3):
        for npart in (2, 3, 4, 5, 17, 60):
            scale = rng.random(ndim) * 4 + 0.5
            shift = rng.normal(size=ndim) * 20
            pts = rng.normal(size=(npart, ndim)) * scale + shift
            before = pts.copy()
            vals = check(pts, f"random d={ndim} N={npart}")
            np.testing.assert_array_equal(pts, before)      # input not modified
            # translation invariance
            vals2 = np.real(np.array(gyration_tensor(pts + 7.25)))
            np.testing.assert_allclose(vals2, vals, rtol=1e-8, atol=1e-10)
        print(f"random clouds d={ndim}: ok")

    # analytic: octahedron with half-axes a < b < c  -> eigenvalues a^2/3, b^2/3, c^2/3
    a, b, c = 1.0, 2.0, 3.5
    octa = np.array([[a, 0, 0], [-a, 0, 0], [0, b, 0], [0, -b, 0], [0, 0, c], [0, 0, -c]]) + [3.0, -2.0, 9.0]
    lam = np.array([a * a, b * b, c * c]) / 3
    rg = np.sqrt(lam.sum())
    asph = 1.5 * lam[2] - 0.5 * lam.sum()
    acyl = lam[1] - lam[0]
    expected = [rg, asph, acyl, (asph ** 2 + 0.75 * acyl ** 2) / rg ** 4, np.log10(6) / np.log10(rg)]
    np.testing.assert_allclose(np.real(gyration_tensor(octa)), expected, rtol=1e-12, atol=1e-13)
    # analytic 2D: rectangle corners (+-p, +-q) -> eigenvalues q^2 < p^2
    p, q = 3.0, 1.5
    rect = np.array([[p, q], [p, -q], [-p, q], [-p, -q]]) + [11.0, -4.0]
    expected2 = [np.sqrt(p * p + q * q), p * p - q * q, np.log10(4) / np.log10(np.sqrt(p * p + q * q))]
    np.testing.assert_allclose(np.real(gyration_tensor(rect)), expected2, rtol=1e-12, atol=1e-13)
    print("analytic shapes: ok")

    for bad in (1, 4):
        try:
            gyration_tensor(rng.normal(size=(6, bad)))
        except ValueError as err:
            assert str(err) == "Wrong input dimensionality"
        else:
            raise AssertionError("expected ValueError")
    print("unsupported dimensionality: ValueError as expected")
    print("demo passed")
    return 0


if __name__ == "__main__":
    sys.exit(main())
