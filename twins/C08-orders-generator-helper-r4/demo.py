"""
Demo for the spherical-harmonics tables of PyMatterSim (property C08).

Run as:  PYTHONPATH=<worktree> /venv/bin/python demo.py

The library functions SphHarm1..SphHarm10, SphHarm_above and sph_harm_l are
compared with an independent reference written here:

    Y_lm(theta, phi) = sqrt((2l+1)/(4 pi) (l-m)!/(l+m)!) P_l^m(cos theta) e^{i m phi}

for m >= 0 (scipy.special.lpmv contains the Condon-Shortley phase) and
Y_l,-m = (-1)^m conj(Y_lm), with theta the polar and phi the azimuthal angle.
The demo exits 0 when every comparison holds.
"""

import math
import sys
import warnings

import numpy as np
from scipy.special import lpmv

from PyMatterSim.utils import spherical_harmonics as sh

TOL = 1e-10


def reference(l, theta, phi):
    """orthonormal Condon-Shortley Y_lm, m = -l..l, theta polar, phi azimuth"""
    out = np.zeros(2 * l + 1, dtype=np.complex128)
    x = math.cos(theta)
    for m in range(0, l + 1):
        norm = math.sqrt((2 * l + 1) / (4 * math.pi) * math.factorial(l - m) / math.factorial(l + m))
        value = norm * float(lpmv(m, l, x)) * complex(math.cos(m * phi), math.sin(m * phi))
        out[l + m] = value
        out[l - m] = (-1) ** m * value.conjugate()
    return out


def angle_samples():
    """edge angles plus random ones; phi in (-pi, pi], theta in [0, pi]"""
    rng = np.random.default_rng(20240508)
    thetas = [0.0, math.pi, math.pi / 2, 1e-3, math.pi - 1e-3, math.pi / 3]
    phis = [0.0, math.pi, -math.pi + 1e-12, -1e-300, -0.5, math.pi / 6]
    pairs = [(t, p) for t in thetas for p in phis]
    pairs += [(float(t), float(p)) for t, p in zip(rng.uniform(0, math.pi, 40), rng.uniform(-math.pi, math.pi, 40))]
    return pairs


def check(name, got, expected):
    got = np.asarray(got)
    if got.shape != expected.shape:
        print(f"FAIL {name}: shape {got.shape} != {expected.shape}")
        return 1
    if got.dtype != np.complex128:
        print(f"FAIL {name}: dtype {got.dtype}")
        return 1
    err = np.abs(got - expected).max()
    if not err < TOL:
        print(f"FAIL {name}: max abs error {err:.3e}")
        return 1
    return 0


def main():
    failures = 0
    tables = {
        1: sh.SphHarm1, 2: sh.SphHarm2, 3: sh.SphHarm3, 4: sh.SphHarm4, 5: sh.SphHarm5,
        6: sh.SphHarm6, 7: sh.SphHarm7, 8: sh.SphHarm8, 9: sh.SphHarm9, 10: sh.SphHarm10,
    }
    pairs = angle_samples()
    for theta, phi in pairs:
        # inputs as python floats and as numpy scalars (what boo.py passes)
        for conv in (float, np.float64):
            t, p = conv(theta), conv(phi)
            for l in range(1, 11):
                ref = reference(l, theta, phi)
                failures += check(f"SphHarm{l}({theta},{phi})", tables[l](t, p), ref)
                failures += check(f"sph_harm_l({l},{theta},{phi})", sh.sph_harm_l(l, t, p), ref)
                # numpy integer degree, as obtained from an array of degrees
                failures += check(f"sph_harm_l(np.int64({l}))", sh.sph_harm_l(np.int64(l), t, p), ref)
            for l in (11, 12, 15, 20):
                ref = reference(l, theta, phi)
                failures += check(f"SphHarm_above({l},{theta},{phi})", sh.SphHarm_above(l, t, p), ref)
                failures += check(f"sph_harm_l({l},{theta},{phi})", sh.sph_harm_l(l, t, p), ref)
                # identities named by the property
                got = sh.sph_harm_l(l, t, p)
                if abs((np.abs(got) ** 2).sum() - (2 * l + 1) / (4 * math.pi)) > TOL:
                    print(f"FAIL addition theorem l={l}")
                    failures += 1
                signs = (-1.0) ** np.arange(-l, l + 1)
                if np.abs(got[::-1] - signs * np.conj(got)).max() > TOL:
                    print(f"FAIL conjugation symmetry l={l}")
                    failures += 1

    # addition theorem and symmetry for the tables
    for theta, phi in pairs[:20]:
        for l in range(1, 11):
            got = sh.sph_harm_l(l, theta, phi)
            if abs((np.abs(got) ** 2).sum() - (2 * l + 1) / (4 * math.pi)) > TOL:
                print(f"FAIL addition theorem l={l}")
                failures += 1
            signs = (-1.0) ** np.arange(-l, l + 1)
            if np.abs(got[::-1] - signs * np.conj(got)).max() > TOL:
                print(f"FAIL conjugation symmetry l={l}")
                failures += 1

    # the dispatcher has no table for l < 1: it returns None
    for l in (0, -1, -11):
        if sh.sph_harm_l(l, 0.3, 0.4) is not None:
            print(f"FAIL sph_harm_l({l}) should be None")
            failures += 1

    failures += extra_checks()

    if failures:
        print(f"{failures} FAILURES")
        return 1
    print("all spherical-harmonics checks passed")
    return 0


def extra_checks():
    """checks specific to this refactoring: the delegated branch l > 10"""
    failures = 0
    rng = np.random.default_rng(99)
    for l in range(11, 31):
        for theta, phi in zip(rng.uniform(0, math.pi, 6), rng.uniform(-math.pi, math.pi, 6)):
            got = sh.SphHarm_above(l, float(theta), float(phi))
            # one value per order, none skipped, in the order m = -l..l
            if got.shape != (2 * l + 1,):
                print(f"FAIL SphHarm_above length for l={l}: {got.shape}")
                failures += 1
            failures += check(f"SphHarm_above l={l}", got, reference(l, theta, phi))
            # phi and phi + 2 pi describe the same direction
            if phi < 0:
                shifted = sh.SphHarm_above(l, float(theta), float(phi) + 2 * math.pi)
                if np.abs(shifted - got).max() > TOL:
                    print(f"FAIL 2 pi shift l={l}")
                    failures += 1
    # numpy integer degree
    failures += check("SphHarm_above np.int64(13)", sh.SphHarm_above(np.int64(13), 0.7, -0.2), reference(13, 0.7, -0.2))
    # the function also works below its nominal range (it only delegates)
    for l in (1, 4, 10):
        failures += check(f"SphHarm_above l={l}", sh.SphHarm_above(l, 2.2, -3.0), reference(l, 2.2, -3.0))
    return failures


if __name__ == "__main__":
    sys.exit(main())
