"""Demo for the loop-nest restructuring of PyMatterSim.dynamic.dynamics.Dynamics.relaxation.

Synthetic random-walk trajectories are analysed through the public class and the returned
table is compared with a straightforward reference written here (one lag at a time, plain
lists and np.mean).  Cases:
  * 3D unwrapped coordinates, two particle types with different diameters;
  * 2D wrapped coordinates in a triclinic cell with negative tilt, PBC removal;
  * cage-relative displacements from a neighbour file with unequal coordination numbers;
  * a particle selection ('condition') whose size changes from frame to frame, slow and
    fast overlap, non-default qconst and a;
  * the shortest possible trajectory (2 frames) and an odd number of frames.
The csv file must hold the returned values, the snapshots / condition must be bit-for-bit
unchanged and repeated calls must agree.  Exits 0 on success.
"""
import os
import shutil
import sys
import tempfile

import numpy as np
import pandas as pd

from PyMatterSim.dynamic.dynamics import Dynamics
from PyMatterSim.reader.reader_utils import SingleSnapshot, Snapshots


def make_snapshots(list_positions, hmatrix, types, dstep=50, origin=0.0):
    ndim = hmatrix.shape[0]
    boxlength = np.diag(hmatrix).copy()
    bounds = np.column_stack((np.zeros(ndim) + origin, boxlength + origin))
    snaps = [
        SingleSnapshot(
            timestep=1000 + dstep * t,
            nparticle=pos.shape[0],
            particle_type=types,
            positions=pos,
            boxlength=boxlength,
            boxbounds=bounds,
            realbounds=bounds.copy(),
            hmatrix=hmatrix,
        )
        for t, pos in enumerate(list_positions)
    ]
    return Snapshots(nsnapshots=len(snaps), snapshots=snaps)


def snapshot_bytes(snapshots):
    return [(s.positions.tobytes(), s.particle_type.tobytes(), s.boxlength.tobytes(),
             s.boxbounds.tobytes(), s.hmatrix.tobytes()) for s in snapshots.snapshots]


def random_walk(rng, nframes, npart, hmatrix, step):
    ndim = hmatrix.shape[0]
    start = rng.uniform(0, 1, size=(npart, ndim)) @ hmatrix
    moves = rng.normal(scale=step, size=(nframes, npart, ndim))
    moves[0] = 0
    return list(start[None] + np.cumsum(moves, axis=0))


def wrap(pos, hmatrix):
    frac = pos @ np.linalg.inv(hmatrix)
    return (frac - np.floor(frac)) @ hmatrix


def write_neighbours(path, list_of_lists):
    with open(path, "w", encoding="utf-8") as f:
        for neighbours in list_of_lists:
            f.write("id   cn   neighborlist\n")
            for i, nb in enumerate(neighbours):
                f.write("%d %d " % (i + 1, len(nb)) + " ".join(str(j + 1) for j in nb) + "\n")


def reference(unwrapped, types, diameters, dt, dstep, a, qconst, cal_type,
              ndim, condition=None, neighbours=None):
    """lag by lag, from the unwrapped coordinates (the true displacements)"""
    nframes = len(unwrapped)
    sigma = np.array([diameters[t] for t in types])
    rows = []
    for lag in range(1, nframes):
        isf, qt, r2, r4 = [], [], [], []
        for start in range(nframes - lag):
            disp = unwrapped[start + lag] - unwrapped[start]
            if neighbours is not None:
                cage = np.array([disp[nb].mean(axis=0) for nb in neighbours[start]])
                disp = disp - cage
            sel = np.ones(len(types), dtype=bool) if condition is None else condition[start]
            disp, sig = disp[sel], sigma[sel]
            isf.append(np.mean(np.cos(disp * (qconst / sig)[:, None])))
            d2 = (disp ** 2).sum(axis=1)
            cut = (a * sig) ** 2
            qt.append(np.mean(d2 < cut) if cal_type == "slow" else np.mean(d2 > cut))
            r2.append(np.mean(d2))
            r4.append(np.mean(d2 ** 2))
        nsel = len(types) if condition is None else int(condition[0].sum())
        qt = np.array(qt)
        x4 = (np.mean(qt ** 2) - np.mean(qt) ** 2) * nsel
        factor = {3: 3.0 / 5.0, 2: 1.0 / 2.0}[ndim]
        rows.append([lag * dstep * dt, np.mean(isf), np.mean(qt), x4, np.mean(r2),
                     factor * np.mean(r4) / np.mean(r2) ** 2 - 1])
    return np.array(rows).reshape(-1, 6)


def run_case(label, tmpdir, rng, *, ndim, nframes, npart, hmatrix, wrapped, step=0.12,
             diameters=None, a=0.3, qconst=2 * np.pi, cal_type="slow", use_condition=False,
             use_neighbours=False, dt=0.002, dstep=50):
    diameters = diameters or {1: 1.0, 2: 1.0}
    types = rng.integers(1, 3, size=npart).astype(np.int32)
    unwrapped = random_walk(rng, nframes, npart, hmatrix, step)
    stored = [wrap(p, hmatrix) for p in unwrapped] if wrapped else [p.copy() for p in unwrapped]
    snapshots = make_snapshots(stored, hmatrix, types, dstep=dstep)

    condition = None
    if use_condition:
        condition = rng.uniform(size=(nframes, npart)) < 0.6
        condition[:, 0] = True
        assert len({int(c.sum()) for c in condition}) > 1 or nframes < 3

    neighbours, nfile = None, ""
    if use_neighbours:
        neighbours = []
        for _ in range(nframes):
            frame = []
            for i in range(npart):
                cn = int(rng.integers(1, 7))
                others = np.delete(np.arange(npart), i)
                frame.append(rng.choice(others, size=cn, replace=False))
            neighbours.append(frame)
        nfile = os.path.join(tmpdir, label + ".neighbor.dat")
        write_neighbours(nfile, neighbours)

    ppp = np.ones(ndim, dtype=int) if wrapped else np.zeros(ndim, dtype=int)
    kwargs = dict(dt=dt, ppp=ppp, diameters=diameters, a=a, cal_type=cal_type, neighborfile=nfile, max_neighbors=10)
    if wrapped:
        dyn = Dynamics(x_snapshots=snapshots, **kwargs)
    else:
        dyn = Dynamics(xu_snapshots=snapshots, **kwargs)

    before = snapshot_bytes(snapshots)
    cond_before = None if condition is None else condition.tobytes()
    outfile = os.path.join(tmpdir, label + ".csv")
    result = dyn.relaxation(qconst=qconst, condition=condition, outputfile=outfile)
    again = dyn.relaxation(qconst=qconst, condition=condition)
    assert snapshot_bytes(snapshots) == before, f"{label}: snapshot arrays modified"
    assert condition is None or condition.tobytes() == cond_before, f"{label}: condition modified"
    assert list(result.columns) == "t isf Qt X4_Qt msd alpha2".split(), label
    assert result.shape == (nframes - 1, 6), label
    assert result.values.tobytes() == again.values.tobytes(), f"{label}: repeated call differs"
    # default float repr round-trips exactly (with the round-trip parser)
    stored_csv = pd.read_csv(outfile, float_precision="round_trip")
    assert list(stored_csv.columns) == list(result.columns), label
    assert np.array_equal(stored_csv.values, result.values), f"{label}: csv differs from returned table"

    expected = reference(unwrapped, types, diameters, dt, dstep, a, qconst, cal_type, ndim,
                         condition=condition, neighbours=neighbours)
    # wrapped input: displacements are recovered through the minimum image -> tiny rounding differences
    np.testing.assert_allclose(result.values, expected, rtol=1e-8, atol=1e-9, err_msg=label)


def main():
    rng = np.random.default_rng(1357911)
    ortho3 = np.diag([7.0, 8.0, 9.0])
    tri2 = np.array([[9.0, 0.0], [-2.5, 8.0]])  # negative tilt
    tri3 = np.array([[8.0, 0.0, 0.0], [1.5, 7.5, 0.0], [-1.0, 2.0, 7.0]])
    tmpdir = tempfile.mkdtemp()
    try:
        run_case("3d-xu", tmpdir, rng, ndim=3, nframes=7, npart=30, hmatrix=ortho3, wrapped=False,
                 diameters={1: 1.0, 2: 1.3})
        run_case("2d-wrapped-triclinic", tmpdir, rng, ndim=2, nframes=6, npart=25, hmatrix=tri2, wrapped=True,
                 diameters={1: 0.9, 2: 1.2}, a=0.35)
        run_case("3d-wrapped-triclinic-fast", tmpdir, rng, ndim=3, nframes=5, npart=20, hmatrix=tri3, wrapped=True,
                 cal_type="fast", qconst=5.1)
        run_case("3d-cage-relative", tmpdir, rng, ndim=3, nframes=6, npart=22, hmatrix=ortho3, wrapped=False,
                 use_neighbours=True, diameters={1: 1.0, 2: 1.4})
        run_case("2d-condition", tmpdir, rng, ndim=2, nframes=8, npart=35, hmatrix=tri2, wrapped=False,
                 use_condition=True, diameters={1: 1.0, 2: 1.25}, a=0.4)
        run_case("3d-condition-cage-fast-wrapped", tmpdir, rng, ndim=3, nframes=7, npart=24, hmatrix=tri3,
                 wrapped=True, use_condition=True, use_neighbours=True, cal_type="fast", qconst=4.0)
        run_case("two-frames", tmpdir, rng, ndim=3, nframes=2, npart=12, hmatrix=ortho3, wrapped=False)
        run_case("two-frames-condition", tmpdir, rng, ndim=2, nframes=2, npart=12, hmatrix=tri2, wrapped=True,
                 use_condition=True)
        run_case("three-frames", tmpdir, rng, ndim=2, nframes=3, npart=15, hmatrix=tri2, wrapped=False,
                 dstep=20, dt=0.005)
    finally:
        shutil.rmtree(tmpdir, ignore_errors=True)
    print("Dynamics.relaxation demo: OK")
    return 0


if __name__ == "__main__":
    sys.exit(main())
