"""Demo for gaussian_blurring: rank dispatch (scalar / vector / tensor / error) and
grid construction in 2D and 3D with equal and unequal numbers of points per axis.

Run: PYTHONPATH=<worktree> /venv/bin/python demo.py
Exits 0 on the unchanged and on the refactored tree.
"""
import itertools
import math
import os
import shutil
import sys
import tempfile

import numpy as np

from PyMatterSim.reader.reader_utils import SingleSnapshot, Snapshots
from PyMatterSim.utils.coarse_graining import gaussian_blurring

rng = np.random.default_rng(5)
failures = 0


def check(name, ok):
    global failures
    if not ok:
        failures += 1
    print(("ok   " if ok else "FAIL ") + name)


def make_snapshots(nsnap, npart, ndim, tilt):
    snaps = []
    for n in range(nsnap):
        L = rng.uniform(4.0, 6.0, size=ndim)
        lo = rng.uniform(-1.5, 1.5, size=ndim)
        bounds = np.column_stack((lo, lo + L))
        h = np.diag(L)
        if tilt:
            h[1, 0] = tilt * L[0]                 # xy tilt (negative allowed)
            if ndim == 3:
                h[2, 0] = -0.5 * tilt * L[0]      # xz
                h[2, 1] = 0.25 * tilt * L[1]      # yz
        pos = rng.uniform(0, 1, size=(npart, ndim)) @ h + lo
        snaps.append(SingleSnapshot(
            timestep=n * 10, nparticle=npart, particle_type=np.ones(npart, dtype=int),
            positions=pos, boxlength=L, boxbounds=bounds, realbounds=bounds, hmatrix=h))
    return Snapshots(nsnapshots=nsnap, snapshots=snaps)


def reference(snaps, cond, ngrids, sigma, ppp, cut):
    """straightforward reference: itertools.product grid (x slowest), scalar math weights"""
    ndim = len(ngrids)
    npoints = int(np.prod(ngrids))
    gpos = np.zeros((snaps.nsnapshots, npoints, ndim))
    gval = np.zeros((snaps.nsnapshots, npoints) + cond.shape[2:])
    for n, snap in enumerate(snaps.snapshots):
        axes = [[snap.boxbounds[d, 0] + (snap.boxbounds[d, 1] - snap.boxbounds[d, 0]) * k / (ngrids[d] - 1)
                 if ngrids[d] > 1 else snap.boxbounds[d, 0] for k in range(ngrids[d])]
                for d in range(ndim)]
        hinv = np.linalg.inv(snap.hmatrix)
        for g, point in enumerate(itertools.product(*axes)):
            gpos[n, g] = point
            acc = np.zeros(cond.shape[2:])
            for p in range(snap.nparticle):
                dr = np.array(point) - snap.positions[p]
                frac = dr @ hinv
                for d in range(ndim):
                    if ppp[d]:
                        frac[d] -= round(frac[d])
                dr = frac @ snap.hmatrix
                r = math.sqrt(sum(x * x for x in dr))
                if r < cut:
                    w = math.exp(-r * r / (2 * sigma * sigma)) / math.sqrt(2 * math.pi * sigma * sigma)
                    acc = acc + w * cond[n, p]
            gval[n, g] = acc
    return gpos, gval


nsnap, npart = 2, 9
cases = [
    # ndim, ngrids, tilt, sigma, ppp, cut
    (2, [5, 2], 0.0, 2.0, np.array([1, 1]), 6.0),
    (2, np.array([2, 5]), -0.4, 0.8, np.array([1, 1, 1]), 1.5),     # default-like 3-entry ppp on 2D
    (2, [3, 3], 0.3, 1.1, np.array([1, 0]), 0.6),                   # small cut: empty selections
    (3, [3, 4, 2], 0.0, 2.0, np.array([1, 1, 1]), 6.0),
    (3, np.array([2, 2, 3]), -0.35, 0.9, np.array([1, 1, 0]), 1.8),
    (3, [3, 3, 3], 0.3, 1.4, np.array([0, 0, 0]), 0.7),
]
for ndim, ngrids, tilt, sigma, ppp, cut in cases:
    snaps = make_snapshots(nsnap, npart, ndim, tilt)
    for rank, shape in (("scalar", (nsnap, npart)), ("vector", (nsnap, npart, ndim)),
                        ("tensor", (nsnap, npart, 2, 3))):
        cond = rng.normal(size=shape)
        before = cond.copy()
        gpos, gval = gaussian_blurring(snaps, cond, ngrids, sigma, ppp, cut)
        rpos, rval = reference(snaps, cond, list(ngrids), sigma, ppp, cut)
        tag = f"{ndim}D grids={list(ngrids)} tilt={tilt} ppp={list(ppp)} cut={cut} {rank}"
        check(tag + " grid positions", gpos.shape == rpos.shape and np.allclose(gpos, rpos, rtol=1e-12, atol=1e-13))
        check(tag + " grid values", gval.shape == rval.shape and np.allclose(gval, rval, rtol=1e-11, atol=1e-13))
        check(tag + " every grid point once",
              len({tuple(np.round(p, 9)) for p in gpos[0]}) == int(np.prod(ngrids)))
        check(tag + " input untouched", np.array_equal(cond, before))

# defaults (sigma=2, ppp=[1,1,1], cut=6) on a 2D system
snaps = make_snapshots(nsnap, npart, 2, -0.2)
cond = rng.normal(size=(nsnap, npart, 2))
gpos, gval = gaussian_blurring(snaps, cond, [4, 3])
rpos, rval = reference(snaps, cond, [4, 3], 2.0, [1, 1], 6.0)
check("defaults positions", np.allclose(gpos, rpos, rtol=1e-12, atol=1e-13))
check("defaults values", np.allclose(gval, rval, rtol=1e-11, atol=1e-13))

# wrong rank of the condition -> ValueError with the documented message
for bad in (rng.normal(size=(nsnap,)), rng.normal(size=(nsnap, npart, 1, 1, 1))):
    try:
        gaussian_blurring(snaps, bad, [4, 3])
        check(f"rank {bad.ndim} rejected", False)
    except ValueError as err:
        check(f"rank {bad.ndim} rejected", str(err) == "Wrong input condition variable")

# output files
tmp = tempfile.mkdtemp()
try:
    base = os.path.join(tmp, "blur")
    gpos, gval = gaussian_blurring(snaps, cond, [4, 3], outputfile=base)
    check("files written", sorted(os.listdir(tmp)) == ["blur_positions.npy", "blur_properties.npy"])
    check("positions file", np.array_equal(np.load(base + "_positions.npy"), gpos))
    check("properties file", np.array_equal(np.load(base + "_properties.npy"), gval))
finally:
    shutil.rmtree(tmp)

print("failures:", failures)
sys.exit(1 if failures else 0)
