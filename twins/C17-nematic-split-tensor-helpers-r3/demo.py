"""Demo for the NematicOrder.tensor refactoring (split into three private helpers).

Random 2D unit-vector fields; raw and neighbour-averaged Q tensor (unsorted ids,
unequal coordination numbers including zero, Nmax truncation), trace and eigenvalue
scalars, returned arrays, self.QIJ and the saved files are compared with a
straightforward reference written here.
"""
import os
import shutil
import sys
import tempfile

import numpy as np

from PyMatterSim.reader.reader_utils import SingleSnapshot, Snapshots
from PyMatterSim.static.nematic import NematicOrder


def make_orientations(vectors):
    h = np.diag([10.0, 10.0])
    bl = np.array([10.0, 10.0])
    bounds = np.column_stack((np.zeros(2), bl))
    frames = []
    for n, vec in enumerate(vectors):
        frames.append(SingleSnapshot(
            timestep=n, nparticle=vec.shape[0], particle_type=np.ones(vec.shape[0], dtype=int),
            positions=vec, boxlength=bl, boxbounds=bounds, realbounds=bounds, hmatrix=h))
    return Snapshots(nsnapshots=len(frames), snapshots=frames)


def write_neighbors(path, rng, nframes, npart, max_cn):
    """returns neighbours[n][i] = list of zero-based neighbour ids (file order)"""
    table = []
    with open(path, "w", encoding="utf-8") as f:
        for _ in range(nframes):
            f.write("id     cn     neighborlist\n")
            frame = {}
            for i in rng.permutation(npart):          # unsorted ids
                cn = int(rng.integers(0, max_cn + 1))  # unequal, may be zero
                others = [k for k in range(npart) if k != i]
                nb = [int(k) for k in rng.choice(others, size=cn, replace=False)]
                frame[int(i)] = nb
                f.write(f"{i + 1} {cn} " + " ".join(str(k + 1) for k in nb) + "\n")
            table.append(frame)
    return table


def reference(vectors, table=None, nmax=None):
    nframes, npart, _ = vectors.shape
    Q = np.zeros((nframes, npart, 2, 2))
    for n in range(nframes):
        for i in range(npart):
            u = vectors[n, i]
            Q[n, i] = (2 * np.outer(u, u) - np.eye(2)) / 2
    if table is not None:
        Qcg = np.zeros_like(Q)
        for n in range(nframes):
            for i in range(npart):
                nb = table[n][i][:nmax]
                Qcg[n, i] = (Q[n, i] + sum(Q[n, j] for j in nb)) / (1 + len(nb))
        Q = Qcg
    trace = np.sqrt(2.0 * np.einsum("nixy,niyx->ni", Q, Q))
    eig = 2.0 * np.linalg.eigvalsh(Q)[..., -1]
    return Q, trace, eig


def main():
    rng = np.random.default_rng(99)
    tmpdir = tempfile.mkdtemp()
    try:
        nframes, npart = 3, 21
        angles = rng.random((nframes, npart)) * 2 * np.pi
        vectors = np.stack((np.cos(angles), np.sin(angles)), axis=2)
        snaps = make_orientations(vectors)
        neifile = os.path.join(tmpdir, "neighborlist.dat")
        table = write_neighbors(neifile, rng, nframes, npart, 7)

        cases = [
            ("raw", {}, None, None, ".QIJ_raw.npy"),
            ("cg", {"neighborfile": neifile}, table, 30, ".QIJ_cg.npy"),
            ("cg-Nmax3", {"neighborfile": neifile, "Nmax": 3}, table, 3, ".QIJ_cg.npy"),
        ]
        for name, kwargs, tab, nmax, qsuffix in cases:
            Qref, trace_ref, eig_ref = reference(vectors, tab, nmax)
            # in 2D both scalars coincide
            np.testing.assert_allclose(trace_ref, eig_ref, rtol=1e-10, atol=1e-12)
            for eigvals, ref, suffix in ((False, trace_ref, ".Qtrace.npy"), (True, eig_ref, ".eigval.npy")):
                out = os.path.join(tmpdir, f"{name}_{eigvals}")
                nem = NematicOrder(snaps)
                got = nem.tensor(ndim=2, eigvals=eigvals, outputfile=out, **kwargs)
                assert got.shape == (nframes, npart)
                np.testing.assert_allclose(got, ref, rtol=1e-10, atol=1e-12, err_msg=name)
                np.testing.assert_allclose(nem.QIJ, Qref, rtol=1e-11, atol=1e-13, err_msg=name)
                np.testing.assert_array_equal(np.load(out + qsuffix), nem.QIJ)
                np.testing.assert_array_equal(np.load(out + suffix), got)
                produced = sorted(f for f in os.listdir(tmpdir) if f.startswith(f"{name}_{eigvals}."))
                assert produced == sorted([f"{name}_{eigvals}" + qsuffix, f"{name}_{eigvals}" + suffix]), produced
            if name == "raw":
                np.testing.assert_allclose(trace_ref, 1.0, rtol=0, atol=1e-12)
            print(f"{name}: ok, mean order = {trace_ref.mean():.6f}")

        # ndim != 2 is still rejected before anything is computed / written
        before = sorted(os.listdir(tmpdir))
        try:
            NematicOrder(snaps).tensor(ndim=3, outputfile=os.path.join(tmpdir, "bad"))
        except AssertionError:
            assert sorted(os.listdir(tmpdir)) == before
            print("ndim=3: AssertionError as expected")
        else:
            raise AssertionError("expected AssertionError")
    finally:
        shutil.rmtree(tmpdir, ignore_errors=True)
    print("demo passed")
    return 0


if __name__ == "__main__":
    sys.exit(main())
