"""Demo for the loop restructuring in static.vector.divergence_curl
(inner Python loop over neighbours for the curl -> one vectorised np.cross over the neighbour block).

Run: PYTHONPATH=<worktree> /venv/bin/python demo.py
Expected values: explicit double loops with hand-written cross product and minimum image, plus analytic linear fields.
"""
import logging
import os
import shutil
import sys
import tempfile

import numpy as np

from PyMatterSim.reader.reader_utils import SingleSnapshot
from PyMatterSim.static.vector import divergence_curl

logging.disable(logging.CRITICAL)
rng = np.random.default_rng(1504)
tmpdir = tempfile.mkdtemp()
failures = []


def check(name, ok):
    print(("ok   " if ok else "FAIL ") + name)
    if not ok:
        failures.append(name)


def make_snapshot(ndim, nparticle, triclinic):
    boxlength = rng.uniform(6.0, 9.0, size=ndim)
    hmatrix = np.diag(boxlength)
    if triclinic:
        hmatrix[1, 0] = -0.3 * boxlength[0]  # negative xy tilt
        if ndim == 3:
            hmatrix[2, 0] = 0.2 * boxlength[0]
            hmatrix[2, 1] = -0.25 * boxlength[1]
    positions = rng.uniform(0, 1, size=(nparticle, ndim)) @ hmatrix
    bounds = np.column_stack((np.zeros(ndim), boxlength))
    return SingleSnapshot(
        timestep=0,
        nparticle=nparticle,
        particle_type=np.ones(nparticle, dtype=int),
        positions=positions,
        boxlength=boxlength,
        boxbounds=bounds,
        realbounds=bounds,
        hmatrix=hmatrix,
    )


def write_neighbors(path, nparticle, cnmin, cnmax):
    """shuffled particle ids, unequal coordination numbers -> zero-padded table inside the library"""
    table = {}
    for i in range(nparticle):
        cn = int(rng.integers(cnmin, cnmax + 1))
        table[i] = rng.choice(np.delete(np.arange(nparticle), i), size=cn, replace=False)
    with open(path, "w", encoding="utf-8") as f:
        f.write("id     cn     neighborlist\n")
        for i in rng.permutation(nparticle):
            f.write(f"{i + 1} {len(table[i])} " + " ".join(str(j + 1) for j in table[i]) + "\n")
    return table


def unwrap(rij, hmatrix, ppp):
    """fractional-coordinate wrap in the periodic directions, written with a linear solve"""
    frac = np.linalg.solve(hmatrix.T, rij)
    frac = np.array([f - round(f) if p else f for f, p in zip(frac, ppp)])
    return hmatrix.T @ frac


def cross3(a, b):
    return np.array([a[1] * b[2] - a[2] * b[1], a[2] * b[0] - a[0] * b[2], a[0] * b[1] - a[1] * b[0]])


def reference(snapshot, field, ppp, table):
    nparticle, ndim = field.shape
    div = np.zeros(nparticle)
    curl = np.zeros((nparticle, 3))
    for i in range(nparticle):
        for j in table[i]:
            rij = unwrap(snapshot.positions[j] - snapshot.positions[i], snapshot.hmatrix, ppp)
            uij = field[j] - field[i]
            div[i] += sum(rij[k] * uij[k] for k in range(ndim))
            if ndim == 3:
                curl[i] += cross3(rij, uij)
        div[i] /= len(table[i])
        curl[i] /= len(table[i])
    return div, curl


def close(a, b):
    scale = max(1.0, np.abs(b).max())
    return a.shape == b.shape and np.allclose(a, b, rtol=0, atol=1e-11 * scale)


try:
    for ndim in (2, 3):
        for triclinic in (False, True):
            for nparticle, cnmin, cnmax in ((8, 1, 3), (45, 1, 14), (45, 12, 12), (205, 150, 200)):
                snapshot = make_snapshot(ndim, nparticle, triclinic)
                nfile = os.path.join(tmpdir, "neighbors.dat")
                table = write_neighbors(nfile, nparticle, cnmin, cnmax)
                matrix = rng.normal(size=(ndim, ndim))
                fields = {
                    "random": rng.normal(size=(nparticle, ndim)),
                    "uniform": np.tile(rng.normal(size=(1, ndim)), (nparticle, 1)),
                    "linear": snapshot.positions @ matrix.T,
                }
                ppps = [np.ones(ndim, dtype=int), np.zeros(ndim, dtype=int), np.array([1, 0, 1][:ndim])]
                if nparticle > 100:  # large coordination numbers: one field, one boundary setting (keeps the demo fast)
                    fields = {"random": fields["random"]}
                    ppps = ppps[:1]
                for kind, field in fields.items():
                    for ppp in ppps:
                        tag = f"{kind} d={ndim} triclinic={triclinic} N={nparticle} cn={cnmin}..{cnmax} ppp={ppp.tolist()}"
                        result = divergence_curl(snapshot, field, ppp, nfile)
                        ref_div, ref_curl = reference(snapshot, field, ppp, table)
                        if ndim == 2:
                            check(f"2D returns divergence only {tag}", isinstance(result, np.ndarray) and close(result, ref_div))
                        else:
                            check(f"3D returns (divergence, curl) {tag}", isinstance(result, tuple) and len(result) == 2)
                            check(f"divergence {tag}", close(result[0], ref_div))
                            check(f"curl {tag}", close(result[1], ref_curl))
                            if kind == "uniform":
                                check(f"uniform field: zero divergence and curl {tag}", np.abs(result[0]).max() <= 1e-12 and np.abs(result[1]).max() <= 1e-12)
                # analytic linear fields, open boundaries: r_ij is the plain difference
                open_ppp = np.zeros(ndim, dtype=int)
                mean_r2 = np.array([np.mean([((snapshot.positions[j] - snapshot.positions[i]) ** 2).sum() for j in table[i]]) for i in range(nparticle)])
                tag = f"d={ndim} triclinic={triclinic} N={nparticle} cn={cnmin}..{cnmax}"
                result = divergence_curl(snapshot, 0.7 * snapshot.positions, open_ppp, nfile)
                if ndim == 2:
                    check(f"analytic u = c r: div = c <r^2> {tag}", close(result, 0.7 * mean_r2))
                    rot = snapshot.positions @ np.array([[0.0, -1.3], [1.3, 0.0]]).T
                    check(f"analytic 2D rotation: div = 0 {tag}", np.abs(divergence_curl(snapshot, rot, open_ppp, nfile)).max() <= 1e-10)
                else:
                    check(f"analytic u = c r: div = c <r^2>, curl = 0 {tag}", close(result[0], 0.7 * mean_r2) and np.abs(result[1]).max() <= 1e-10)
                    omega = rng.normal(size=3)
                    rot = np.array([cross3(omega, r) for r in snapshot.positions])
                    div, curl = divergence_curl(snapshot, rot, open_ppp, nfile)
                    expected = np.zeros((nparticle, 3))
                    for i in range(nparticle):
                        for j in table[i]:
                            r = snapshot.positions[j] - snapshot.positions[i]
                            expected[i] += omega * (r @ r) - r * (r @ omega)
                        expected[i] /= len(table[i])
                    check(f"analytic u = w x r: div = 0, curl = <w r^2 - r (r.w)> {tag}", np.abs(div).max() <= 1e-10 and np.allclose(curl, expected, rtol=0, atol=1e-10 * max(1.0, np.abs(expected).max())))
finally:
    shutil.rmtree(tmpdir, ignore_errors=True)

if failures:
    print(f"{len(failures)} check(s) failed")
    sys.exit(1)
print("all checks passed")
sys.exit(0)
