# coding = utf-8
"""
Demo for the refactoring in this directory (see notes.md).

Builds small synthetic trajectories (1..6 species, 2D / 3D, orthogonal /
triclinic cells with positive and negative tilt, several bin widths, several
frames, non-default periodicity masks), runs the public g(r) entry point
gr(...).getresults() and compares every returned column with a brute-force
reference written here (all ordered pairs i != j, minimum image through the
fractional coordinates, integer binning, ideal-shell normalisation).

Run as:  PYTHONPATH=<worktree> /venv/bin/python demo.py
Exits 0 when everything agrees.
"""

import itertools
import logging
import os
import shutil
import sys
import tempfile

import numpy as np
import pandas as pd

from PyMatterSim.reader.reader_utils import SingleSnapshot, Snapshots
from PyMatterSim.static.gr import gr
from PyMatterSim.utils.funcs import nidealfac

logging.disable(logging.CRITICAL)

# this refactoring lives in gr.quarternary(): four-species mixtures get the most
# compositions, ternary / quinary are kept as a cross-check
SPECIES_COUNTS = (4, 3, 5)
RTOL = 1e-10


def make_hmatrix(ndim, lengths, tilts):
    """LAMMPS-style cell: rows are the cell vectors"""
    h = np.diag(np.asarray(lengths, dtype=float))
    if ndim == 2:
        h[1, 0] = tilts[0]
    else:
        h[1, 0] = tilts[0]
        h[2, 0] = tilts[1]
        h[2, 1] = tilts[2]
    return h


def make_snapshots(rng, ndim, lengths, tilts, counts, nframes, shuffle=True):
    """random configuration; species ids 1..K with the given counts"""
    hmatrix = make_hmatrix(ndim, lengths, tilts)
    ptype = np.concatenate([np.full(c, k + 1, dtype=np.int32)
                            for k, c in enumerate(counts)])
    if shuffle:
        rng.shuffle(ptype)
    natom = ptype.size
    frames = []
    for n in range(nframes):
        frac = rng.random((natom, ndim))
        positions = frac @ hmatrix
        boxlength = np.asarray(lengths, dtype=float)
        bounds = np.column_stack((np.zeros(ndim), boxlength))
        frames.append(SingleSnapshot(
            timestep=n,
            nparticle=natom,
            particle_type=ptype.copy(),
            positions=positions,
            boxlength=boxlength,
            boxbounds=bounds,
            realbounds=bounds,
            hmatrix=hmatrix,
        ))
    return Snapshots(nsnapshots=nframes, snapshots=frames)


def reference(snapshots, ppp, rdelta):
    """brute-force g(r): dict column -> array, written independently"""
    first = snapshots.snapshots[0]
    ndim = first.positions.shape[1]
    natom = first.nparticle
    volume = float(np.prod(first.boxlength))
    maxbin = int(first.boxlength.min() / (2 * rdelta))
    kinds = np.unique(first.particle_type)
    edges = rdelta * np.arange(maxbin + 1)
    shell = {2: np.pi, 3: 4.0 * np.pi / 3.0}[ndim] * \
        (edges[1:]**ndim - edges[:-1]**ndim)

    total = np.zeros(maxbin)
    partial = {(a, b): np.zeros(maxbin)
               for a in kinds for b in kinds}
    for snap in snapshots.snapshots:
        hinv = np.linalg.inv(snap.hmatrix)
        for i in range(natom):
            for j in range(natom):
                if i == j:
                    continue
                frac = (snap.positions[j] - snap.positions[i]) @ hinv
                frac = frac - np.rint(frac) * np.asarray(ppp)
                dist = np.sqrt(np.sum((frac @ snap.hmatrix)**2))
                k = int(np.floor(dist / rdelta))
                if k < maxbin:
                    total[k] += 1
                    partial[(snap.particle_type[i], snap.particle_type[j])][k] += 1
    nframes = snapshots.nsnapshots
    out = {"r": edges[:-1] + 0.5 * rdelta}
    out["gr"] = volume / (natom * natom) * total / nframes / shell
    count = {a: int(np.sum(first.particle_type == a)) for a in kinds}
    if 2 <= len(kinds) <= 5:
        pairs = [(a, a) for a in kinds] + list(itertools.combinations(kinds, 2))
        for a, b in pairs:
            ordered = partial[(a, b)] if a == b else 0.5 * (partial[(a, b)] + partial[(b, a)])
            out[f"gr{a}{b}"] = volume / (count[a] * count[b]) * ordered / nframes / shell
    return out, count, natom


def check(label, snapshots, ppp, rdelta, tmpdir):
    outfile = os.path.join(tmpdir, label.replace(" ", "_") + ".csv")
    result = gr(snapshots, ppp=np.array(ppp), rdelta=rdelta,
                outputfile=outfile).getresults()
    expected, count, natom = reference(snapshots, ppp, rdelta)

    assert list(result.columns) == list(expected.keys()), \
        (label, list(result.columns), list(expected.keys()))
    for name, values in expected.items():
        np.testing.assert_allclose(
            result[name].values, values, rtol=RTOL, atol=1e-12,
            err_msg=f"{label}: column {name}")

    # total = sum_ab c_a c_b g_ab  (every pair lands in exactly one partial)
    kinds = sorted(count)
    if 2 <= len(kinds) <= 5:
        mix = np.zeros(len(result))
        for a in kinds:
            for b in kinds:
                col = f"gr{min(a, b)}{max(a, b)}"
                mix += count[a] * count[b] / natom**2 * result[col].values
        np.testing.assert_allclose(mix, result["gr"].values, rtol=1e-9, atol=1e-12,
                                   err_msg=f"{label}: mixing rule")
    else:
        assert list(result.columns) == ["r", "gr"], label

    # the csv file carries the same table with 6 decimals
    saved = pd.read_csv(outfile)
    assert list(saved.columns) == list(result.columns), label
    np.testing.assert_allclose(saved.values, result.values, atol=5.1e-7, rtol=0,
                               err_msg=f"{label}: csv")
    with open(outfile, "r", encoding="utf-8") as handle:
        lines = handle.read().splitlines()
    assert lines[0] == ",".join(result.columns), label
    assert lines[1] == ",".join("%.6f" % v for v in result.values[0]), label
    assert len(lines) == len(result) + 1, label


def main():
    rng = np.random.default_rng(20240903)
    tmpdir = tempfile.mkdtemp()
    ncase = 0
    try:
        # nidealfac: the shell prefactor used by every column
        assert nidealfac(3) == 4.0 / 3 and nidealfac(2) == 1.0 and nidealfac() == 4.0 / 3
        for bad in (1, 4, 0):
            try:
                nidealfac(bad)
            except ValueError:
                pass
            else:
                raise AssertionError("nidealfac must reject ndim=%r" % bad)

        cells = [
            # ndim, lengths, tilts, ppp, rdelta, nframes
            (3, (4.0, 4.6, 5.2), (0.0, 0.0, 0.0), (1, 1, 1), 0.25, 2),
            (3, (4.4, 4.0, 4.8), (0.9, -0.7, 0.5), (1, 1, 1), 0.31, 1),
            (3, (4.0, 4.2, 4.4), (-1.1, 0.4, -0.8), (1, 0, 1), 0.4, 2),
            (2, (6.0, 5.0), (0.0,), (1, 1), 0.2, 3),
            (2, (5.5, 6.5), (-1.3,), (1, 1), 0.17, 2),
            (2, (6.0, 6.0), (1.2,), (0, 1), 0.3, 1),
        ]
        compositions = {
            1: [(23,)],
            2: [(15, 9), (1, 21)],
            3: [(9, 8, 7), (2, 17, 4)],
            4: [(7, 6, 8, 5), (1, 12, 2, 9), (1, 1, 1, 19), (9, 1, 9, 1), (6, 6, 6, 6)],
            5: [(6, 5, 7, 4, 6), (1, 2, 11, 3, 8)],
            6: [(5, 4, 5, 4, 3, 4)],
        }
        for nspecies in SPECIES_COUNTS:
            for icell, (ndim, lengths, tilts, ppp, rdelta, nframes) in enumerate(cells):
                for counts in compositions[nspecies]:
                    snaps = make_snapshots(rng, ndim, lengths, tilts, counts, nframes)
                    label = f"K{nspecies} cell{icell} {'-'.join(map(str, counts))}"
                    check(label, snaps, ppp, rdelta, tmpdir)
                    ncase += 1

        # a perfect square lattice (many pairs at identical distances) and N = 2
        side = 6
        grid = np.array([[i, j] for i in range(side) for j in range(side)], dtype=float) + 0.25
        ptype = (np.arange(side * side) % 3 + 1).astype(np.int64)
        lattice = Snapshots(nsnapshots=1, snapshots=[SingleSnapshot(
            timestep=0, nparticle=side * side, particle_type=ptype, positions=grid,
            boxlength=np.array([6.0, 6.0]), boxbounds=np.array([[0, 6.0], [0, 6.0]]),
            realbounds=np.array([[0, 6.0], [0, 6.0]]), hmatrix=np.diag([6.0, 6.0]))])
        check("lattice ternary", lattice, (1, 1), 0.23, tmpdir)
        pair = make_snapshots(rng, 3, (3.0, 3.0, 3.0), (0.0, 0.0, 0.0), (1, 1), 2)
        check("two particles", pair, (1, 1, 1), 0.1, tmpdir)
        single = make_snapshots(rng, 3, (3.0, 3.0, 3.0), (0.0, 0.0, 0.0), (2,), 1)
        check("two particles unary", single, (1, 1, 1), 0.13, tmpdir)
        ncase += 3
    finally:
        shutil.rmtree(tmpdir, ignore_errors=True)
    print(f"OK: {ncase} configurations agree with the brute-force reference")
    return 0


if __name__ == "__main__":
    sys.exit(main())
