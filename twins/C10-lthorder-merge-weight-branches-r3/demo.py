"""
Demo for the refactoring 'lthorder-merge-weight-branches':
boo_2d.lthorder now has ONE per-particle loop for the plain and the weighted
order parameter (the two duplicated loops were merged, the choice is made inside).
Focus: ParticlePhi with / without weights file (positive and signed weights,
unequal coordination, Nmax truncation, isolated particle) and everything derived from it.

Standalone demo, run as
    PYTHONPATH=<worktree> /venv/bin/python demo.py

It builds small synthetic 2D trajectories (perfect lattices and random
configurations; orthogonal and triclinic cells incl. negative tilt; unequal
coordination numbers, unsorted ids in the neighbour file, signed weights,
Nmax truncation, odd / even averaging windows, linear and log-spaced dumps),
runs PyMatterSim.static.boo.boo_2d on them and compares every public result
(ParticlePhi, time_average, spatial_corr, time_corr and the files they write)
with a straightforward reference implementation written below.
Exits 0 when everything agrees.
"""

import logging
import os
import shutil
import sys
import tempfile
import warnings

import numpy as np
import pandas as pd

from PyMatterSim.reader.reader_utils import SingleSnapshot, Snapshots
from PyMatterSim.static.boo import boo_2d
from PyMatterSim.utils.coarse_graining import time_average as utils_time_average

TOL = 1e-11
NCHECK = [0]


def check(cond, msg):
    NCHECK[0] += 1
    if not cond:
        print("FAILED:", msg)
        sys.exit(1)


def close(a, b, tol=TOL):
    a = np.asarray(a)
    b = np.asarray(b)
    if a.shape != b.shape:
        return False
    return bool(np.allclose(a, b, rtol=tol, atol=tol, equal_nan=True))


# --------------------------------------------------------------------------
# synthetic inputs
# --------------------------------------------------------------------------
def make_snapshot(timestep, positions, hmatrix):
    hmatrix = np.asarray(hmatrix, dtype=float)
    boxlength = np.array([hmatrix[0, 0], hmatrix[1, 1]])
    boxbounds = np.array([[0.0, boxlength[0]], [0.0, boxlength[1]]])
    return SingleSnapshot(
        timestep=timestep,
        nparticle=positions.shape[0],
        particle_type=np.ones(positions.shape[0], dtype=int),
        positions=np.asarray(positions, dtype=float),
        boxlength=boxlength,
        boxbounds=boxbounds,
        realbounds=boxbounds,
        hmatrix=hmatrix,
    )


def make_snapshots(timesteps, positions_list, hmatrix):
    snaps = [make_snapshot(t, p, hmatrix) for t, p in zip(timesteps, positions_list)]
    return Snapshots(nsnapshots=len(snaps), snapshots=snaps)


def write_neighbor_files(fneigh, fweight, neighbors, weights, rng):
    """neighbors / weights: [frame][particle] -> 1D array; rows written in shuffled id order"""
    with open(fneigh, "w", encoding="utf-8") as fn:
        for frame in neighbors:
            fn.write("id     cn     neighborlist\n")
            for i in rng.permutation(len(frame)):
                items = [str(i + 1), str(len(frame[i]))] + [str(j + 1) for j in frame[i]]
                fn.write(" ".join(items) + "\n")
    if weights is not None:
        with open(fweight, "w", encoding="utf-8") as fw:
            for frame in weights:
                fw.write("id     cn     edgelengthlist\n")
                for i in rng.permutation(len(frame)):
                    items = [str(i + 1), str(len(frame[i]))] + [repr(float(w)) for w in frame[i]]
                    fw.write(" ".join(items) + "\n")


def minimum_image(d, hmatrix):
    frac = d @ np.linalg.inv(hmatrix)
    frac = frac - np.rint(frac)
    return frac @ hmatrix


def lattice_neighbors(positions, hmatrix, cutoff):
    out = []
    for i in range(positions.shape[0]):
        d = minimum_image(positions - positions[i], hmatrix)
        r = np.sqrt((d * d).sum(axis=1))
        nb = np.flatnonzero((r < cutoff) & (np.arange(len(r)) != i))
        out.append(nb)
    return out


# --------------------------------------------------------------------------
# reference implementations
# --------------------------------------------------------------------------
def ref_phi(snapshots, l, neighbors, weights=None, Nmax=10):
    out = np.zeros((len(snapshots.snapshots), snapshots.snapshots[0].nparticle), dtype=complex)
    for n, snap in enumerate(snapshots.snapshots):
        for i in range(snap.nparticle):
            nb = np.asarray(neighbors[n][i], dtype=int)[:Nmax]
            d = minimum_image(snap.positions[nb] - snap.positions[i], snap.hmatrix)
            e = np.array([np.exp(1j * l * np.arctan2(dy, dx)) for dx, dy in d])
            if weights is None:
                out[n, i] = e.sum() / len(nb)
            else:
                w = np.asarray(weights[n][i], dtype=float)[:Nmax]
                out[n, i] = (w * e).sum() / np.abs(w).sum()
    return out


def ref_time_average(phi, nwindow, average_complex):
    nout = phi.shape[0] - nwindow
    ids = np.array([n + nwindow // 2 for n in range(nout)])
    res = np.zeros((nout, phi.shape[1]), dtype=complex)
    for n in range(nout):
        chunk = phi[n:n + nwindow]
        if average_complex:
            res[n] = chunk.sum(axis=0) / nwindow
        else:
            res[n] = (np.abs(chunk).sum(axis=0) / nwindow) * np.exp(1j * np.angle(chunk).sum(axis=0) / nwindow)
    return res, ids


def ref_spatial_corr(snapshots, phi, rdelta):
    total = None
    for n, snap in enumerate(snapshots.snapshots):
        N = snap.nparticle
        maxbin = int(snap.boxlength.min() / 2.0 / rdelta)
        iu, ju = np.triu_indices(N, k=1)
        d = minimum_image(snap.positions[ju] - snap.positions[iu], snap.hmatrix)
        r = np.linalg.norm(d, axis=1)
        hist, edges = np.histogram(r, bins=maxbin, range=(0, maxbin * rdelta))
        histA, edges = np.histogram(
            r, bins=maxbin, range=(0, maxbin * rdelta), weights=(phi[n, ju] * np.conj(phi[n, iu])).real
        )
        shell = np.pi * (edges[1:] ** 2 - edges[:-1] ** 2)
        rho = N / np.prod(snap.boxlength)
        frame = np.column_stack((edges[1:] - 0.5 * rdelta, hist * 2 / N / (shell * rho), histA * 2 / N / (shell * rho)))
        total = frame if total is None else total + frame
    return total / len(snapshots.snapshots)


def ref_time_corr(snapshots, phi, dt):
    ts = np.array([s.timestep for s in snapshots.snapshots])
    nframe = len(ts)
    if len(set(np.diff(ts))) == 1:
        res = np.zeros(nframe)
        for lag in range(nframe):
            vals = [(phi[n] * np.conj(phi[n - lag])).sum().real for n in range(lag, nframe)]
            res[lag] = np.sum(vals) / len(vals)
    else:
        res = np.array([(phi[n] * np.conj(phi[0])).sum().real for n in range(nframe)])
    return (ts - ts[0]) * dt, res / res[0]


# --------------------------------------------------------------------------
# scenarios
# --------------------------------------------------------------------------
def lattice_cases(tmp, rng):
    a = 1.1
    nx, ny = 6, 6
    s3 = np.sqrt(3.0) / 2
    cases = []
    # triangular lattice, orthogonal box (rows shifted by a/2 alternately)
    pos = np.array([[(i + 0.5 * (j % 2)) * a, j * a * s3] for i in range(nx) for j in range(ny)])
    cases.append(("tri-ortho", pos + 0.123, np.array([[nx * a, 0.0], [0.0, ny * a * s3]]), 6, 1.05 * a))
    # triangular lattice in a rhombic (triclinic) cell, positive and negative tilt
    for sign in (+1, -1):
        a1 = np.array([a, 0.0])
        a2 = np.array([sign * 0.5 * a, a * s3])
        pos = np.array([i * a1 + j * a2 for i in range(nx) for j in range(ny)])
        cases.append((f"tri-tilt{sign:+d}", pos, np.array([nx * a1, ny * a2]), 6, 1.05 * a))
    # square lattice
    pos = np.array([[i * a, j * a] for i in range(5) for j in range(7)])
    cases.append(("square", pos, np.array([[5 * a, 0.0], [0.0, 7 * a]]), 4, 1.05 * a))

    for name, pos, hmatrix, fold, cutoff in cases:
        snapshots = make_snapshots([0, 10], [pos, pos[::-1].copy()], hmatrix)
        neighbors = [lattice_neighbors(s.positions, hmatrix, cutoff) for s in snapshots.snapshots]
        check(all(len(nb) == fold for nb in neighbors[0]), f"{name}: lattice coordination")
        # positive weights, different for every bond
        weights = [[rng.uniform(0.5, 2.0, size=len(nb)) for nb in frame] for frame in neighbors]
        fneigh = os.path.join(tmp, f"{name}.neighbor.dat")
        fweight = os.path.join(tmp, f"{name}.weight.dat")
        write_neighbor_files(fneigh, fweight, neighbors, weights, rng)
        for l in range(1, 13):
            plain = boo_2d(snapshots, l=l, neighborfile=fneigh)
            weighted = boo_2d(snapshots, l=l, neighborfile=fneigh, weightsfile=fweight)
            check(close(plain.ParticlePhi, ref_phi(snapshots, l, neighbors)), f"{name} l={l} plain vs reference")
            check(close(weighted.ParticlePhi, ref_phi(snapshots, l, neighbors, weights)), f"{name} l={l} weighted vs reference")
            check(np.all(np.abs(plain.ParticlePhi) <= 1 + TOL), f"{name} l={l} modulus bound")
            check(np.all(np.abs(weighted.ParticlePhi) <= 1 + TOL), f"{name} l={l} weighted modulus bound")
            if l % fold == 0:
                # perfect l-fold lattice with one bond along x: value exactly 1
                check(close(plain.ParticlePhi, np.ones_like(plain.ParticlePhi)), f"{name} l={l} perfect lattice")
                check(close(weighted.ParticlePhi, np.ones_like(plain.ParticlePhi)), f"{name} l={l} perfect lattice (weights)")
            else:
                check(close(plain.ParticlePhi, np.zeros_like(plain.ParticlePhi)), f"{name} l={l} vanishing order")

        # rotation covariance: phi -> phi * exp(i l alpha)
        alpha = 0.3217
        rot = np.array([[np.cos(alpha), -np.sin(alpha)], [np.sin(alpha), np.cos(alpha)]])
        rsnaps = make_snapshots([0, 10], [s.positions @ rot.T for s in snapshots.snapshots], hmatrix)
        # rotate the cell vectors as well (boxlength kept: only used by spatial_corr)
        rsnaps = Snapshots(
            nsnapshots=2,
            snapshots=[
                SingleSnapshot(
                    timestep=s.timestep, nparticle=s.nparticle, particle_type=s.particle_type,
                    positions=s.positions, boxlength=s.boxlength, boxbounds=s.boxbounds,
                    realbounds=s.realbounds, hmatrix=hmatrix @ rot.T)
                for s in rsnaps.snapshots],
        )
        for l in (1, 5, fold):
            base = boo_2d(snapshots, l=l, neighborfile=fneigh, weightsfile=fweight).ParticlePhi
            turned = boo_2d(rsnaps, l=l, neighborfile=fneigh, weightsfile=fweight).ParticlePhi
            check(close(turned, base * np.exp(1j * l * alpha), 1e-10), f"{name} l={l} rotation covariance")


def random_case(tmp, rng, timesteps, tilt, signed, Nmax, tag):
    N = 24
    hmatrix = np.array([[7.0, 0.0], [tilt, 6.0]])
    nframe = len(timesteps)
    positions = [rng.uniform(0, 1, size=(N, 2)) @ hmatrix + rng.normal(0, 3.0, size=(1, 2)) for _ in range(nframe)]
    snapshots = make_snapshots(timesteps, positions, hmatrix)
    neighbors, weights = [], []
    for _ in range(nframe):
        fn, fw = [], []
        for i in range(N):
            cn = int(rng.integers(1, 8))
            others = np.delete(np.arange(N), i)
            fn.append(rng.choice(others, size=cn, replace=False))
            w = rng.uniform(0.1, 2.0, size=cn)
            if signed:
                w *= rng.choice([-1.0, 1.0], size=cn)
            fw.append(w)
        neighbors.append(fn)
        weights.append(fw)
    fneigh = os.path.join(tmp, f"{tag}.neighbor.dat")
    fweight = os.path.join(tmp, f"{tag}.weight.dat")
    write_neighbor_files(fneigh, fweight, neighbors, weights, rng)
    dt = 0.002

    for l in (1, 2, 6, 11):
        for use_weights in (False, True):
            label = f"{tag} l={l} weights={use_weights}"
            fphi = os.path.join(tmp, f"{tag}.phi.{l}.{int(use_weights)}.npy")
            boo = boo_2d(
                snapshots, l=l, neighborfile=fneigh,
                weightsfile=fweight if use_weights else "",
                ppp=np.array([1, 1]), Nmax=Nmax, output_phi=fphi)
            expected = ref_phi(snapshots, l, neighbors, weights if use_weights else None, Nmax)
            check(boo.ParticlePhi.dtype == np.complex128, label + " dtype")
            check(close(boo.ParticlePhi, expected), label + " phi vs reference")
            check(np.all(np.abs(boo.ParticlePhi) <= 1 + TOL), label + " modulus bound")
            check(np.array_equal(np.load(fphi), boo.ParticlePhi), label + " saved phi")
            # calling lthorder again re-reads the files from the start
            check(np.array_equal(boo.lthorder(), boo.ParticlePhi), label + " lthorder repeatable")

            if l not in (2, 6):
                continue
            phi = boo.ParticlePhi
            # ---- time average (only meaningful for linear dumps: uses the first interval)
            interval = (timesteps[1] - timesteps[0]) * dt
            for nwindow in (1, 2, 3):
                if nwindow >= nframe:
                    continue
                period = (nwindow + 0.25) * interval
                for average_complex in (True, False):
                    fout = os.path.join(tmp, f"{tag}.avg.{l}.{nwindow}.{int(average_complex)}.npy")
                    got, ids = boo.time_average(period, dt=dt, average_complex=average_complex, outputfile=fout)
                    want, want_ids = ref_time_average(phi, nwindow, average_complex)
                    check(got.dtype == np.complex128, label + " time_average dtype")
                    check(close(got, want), label + f" time_average window={nwindow} complex={average_complex}")
                    check(np.array_equal(ids, want_ids) and ids.dtype == want_ids.dtype, label + " middle snapshot ids")
                    check(np.array_equal(np.load(fout), got), label + " time_average saved array")
                    with open(fout + ".snapshot_id.dat", encoding="utf-8") as f:
                        text = f.read()
                    check(text == "middle_snapshot_id\n" + "".join(f"{k}\n" for k in want_ids), label + " snapshot id file")
                    # positional / default arguments, no output file
                    got2, ids2 = boo.time_average(period, dt, average_complex)
                    check(np.array_equal(got2, got) and np.array_equal(ids2, ids), label + " time_average positional")
            # the library-level helper on a real-valued property
            prop = np.abs(phi)
            got, ids = utils_time_average(snapshots, prop, time_period=2.5 * interval, dt=dt)
            want, want_ids = ref_time_average(prop, 2, True)
            check(close(got, want) and np.array_equal(ids, want_ids), label + " utils.time_average")
            check(got.dtype == np.complex128, label + " utils.time_average dtype")

            # ---- spatial correlation
            rdelta = 0.25
            fcsv = os.path.join(tmp, f"{tag}.gl.{l}.csv")
            gl = boo.spatial_corr(rdelta=rdelta, outputfile=fcsv)
            want = ref_spatial_corr(snapshots, phi, rdelta)
            check(isinstance(gl, pd.DataFrame) and list(gl.columns) == ["r", "gr", "gA"], label + " spatial_corr columns")
            check(close(gl.values, want, 1e-10), label + " spatial_corr vs reference")
            back = pd.read_csv(fcsv)
            check(list(back.columns) == ["r", "gr", "gA"] and np.allclose(back.values, gl.values, atol=1e-8, rtol=0), label + " spatial_corr csv")
            check(close(boo.spatial_corr(rdelta).values, gl.values, 1e-15), label + " spatial_corr repeatable")

            # ---- time correlation
            fcsv = os.path.join(tmp, f"{tag}.gt.{l}.csv")
            gt = boo.time_corr(dt=dt, outputfile=fcsv)
            want_t, want_c = ref_time_corr(snapshots, phi, dt)
            check(list(gt.columns) == ["t", "time_corr"], label + " time_corr columns")
            check(close(gt["t"].values, want_t) and close(gt["time_corr"].values, want_c), label + " time_corr vs reference")
            back = pd.read_csv(fcsv)
            check(np.allclose(back.values, gt.values, atol=1e-8, rtol=0), label + " time_corr csv")


def edge_cases(tmp, rng):
    """behaviour pinned on corner inputs (same on the unchanged and the refactored tree)"""
    N = 12
    hmatrix = np.array([[5.0, 0.0], [-1.3, 4.0]])
    dt = 0.002
    # --- single frame, one particle without neighbours
    pos = rng.uniform(0, 1, size=(N, 2)) @ hmatrix
    one = make_snapshots([0], [pos], hmatrix)
    neighbors = [[np.delete(np.arange(N), i)[: 1 + i % 4] for i in range(N)]]
    neighbors[0][5] = np.array([], dtype=int)
    weights = [[rng.normal(size=len(nb)) for nb in neighbors[0]]]
    fneigh = os.path.join(tmp, "edge.neighbor.dat")
    fweight = os.path.join(tmp, "edge.weight.dat")
    write_neighbor_files(fneigh, fweight, neighbors, weights, rng)
    plain = boo_2d(one, l=6, neighborfile=fneigh)
    weighted = boo_2d(one, l=6, neighborfile=fneigh, weightsfile=fweight)
    keep = np.arange(N) != 5
    check(close(plain.ParticlePhi[:, keep], ref_phi(one, 6, neighbors)[:, keep]), "edge: plain phi")
    check(close(weighted.ParticlePhi[:, keep], ref_phi(one, 6, neighbors, weights)[:, keep]), "edge: weighted phi")
    check(np.isnan(plain.ParticlePhi[0, 5]), "edge: isolated particle gives nan (mean of nothing)")
    check(weighted.ParticlePhi[0, 5] == 0, "edge: isolated particle gives 0 (empty weighted sum)")
    # spatial correlation of a single frame
    phi = np.where(keep, plain.ParticlePhi, 0.5 + 0.1j)
    plain.ParticlePhi = phi
    check(close(plain.spatial_corr(rdelta=0.2).values, ref_spatial_corr(one, phi, 0.2), 1e-10), "edge: single-frame spatial_corr")
    gt = plain.time_corr()
    check(close(gt.values, np.array([[0.0, 1.0]])), "edge: single-frame time_corr")

    # --- averaging windows 0 and nsnapshots
    nframe = 4
    snaps = make_snapshots([0, 100, 200, 300], [pos] * nframe, hmatrix)
    prop = rng.normal(size=(nframe, N)) + 1j * rng.normal(size=(nframe, N))
    got, ids = utils_time_average(snaps, prop, time_period=0.05, dt=dt)  # window 0
    check(got.shape == (nframe, N) and np.all(np.isnan(got)), "edge: empty window gives nan")
    check(np.array_equal(ids, np.arange(nframe)), "edge: window 0 ids")
    got, ids = utils_time_average(snaps, prop, time_period=0.85, dt=dt)  # window 4 = nframe
    check(got.shape == (0, N) and got.dtype == np.complex128, "edge: window = nsnapshots gives no period")
    check(ids.shape == (0,) and ids.dtype == np.float64, "edge: no period, empty id array")
    got, ids = utils_time_average(snaps, prop, time_period=0.65, dt=dt)  # window 3 (odd)
    check(close(got, prop[:3].mean(axis=0)[np.newaxis]) and np.array_equal(ids, [1]), "edge: odd window")
    got, ids = utils_time_average(snaps, prop)  # defaults: window 0
    check(got.shape == (nframe, N) and np.array_equal(ids, np.arange(nframe)), "edge: default arguments")
    try:
        utils_time_average(snaps, prop, time_period=1.05, dt=dt)  # window 5 > nframe
        check(False, "edge: window longer than trajectory must raise")
    except ValueError:
        check(True, "")


def main():
    warnings.simplefilter("ignore")
    logging.disable(logging.INFO)
    rng = np.random.default_rng(20240917)
    tmp = tempfile.mkdtemp()
    try:
        lattice_cases(tmp, rng)
        edge_cases(tmp, rng)
        random_case(tmp, rng, [0, 100, 200, 300, 400], tilt=0.0, signed=False, Nmax=10, tag="ortho")
        random_case(tmp, rng, [500, 600, 700, 800, 900, 1000], tilt=-2.3, signed=True, Nmax=10, tag="negtilt")
        random_case(tmp, rng, [0, 50, 100, 150], tilt=1.7, signed=True, Nmax=3, tag="truncated")
        random_case(tmp, rng, [0, 1, 2, 4, 8], tilt=0.9, signed=True, Nmax=10, tag="logdump")
    finally:
        shutil.rmtree(tmp, ignore_errors=True)
    print(f"demo OK ({NCHECK[0]} checks)")
    return 0


if __name__ == "__main__":
    sys.exit(main())
