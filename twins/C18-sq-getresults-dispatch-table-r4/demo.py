"""Demo for static.sq.sq.getresults (dispatch on the number of particle types).

For systems with 1, 2, 3, 4, 5 and 6 particle types, in 2D and 3D:
  * getresults() has the column set of the matching routine (6 types -> overall S(q) only);
  * getresults() is bit-for-bit the result of calling the matching method directly;
  * total and same-type partial S(q) agree with an independent vectorised reference;
  * the csv file holds the returned values to the written precision;
  * snapshot arrays and the qvector argument are unchanged, repeated calls agree.
"""

import os
import shutil
import sys
import tempfile

import numpy as np
import pandas as pd

from PyMatterSim.reader.reader_utils import SingleSnapshot, Snapshots
from PyMatterSim.static.sq import sq

COLUMNS = {
    1: "q Sq",
    2: "q Sq Sq11 Sq22 Sq12",
    3: "q Sq Sq11 Sq22 Sq33 Sq12 Sq13 Sq23",
    4: "q Sq Sq11 Sq22 Sq33 Sq44 Sq12 Sq13 Sq14 Sq23 Sq24 Sq34",
    5: "q Sq Sq11 Sq22 Sq33 Sq44 Sq55 Sq12 Sq13 Sq14 Sq15 Sq23 Sq24 Sq25 Sq34 Sq35 Sq45",
    6: "q Sq",
}
METHOD = {1: "unary", 2: "binary", 3: "ternary", 4: "quarternary", 5: "quinary", 6: "unary"}


def make_snapshots(ndim, ntypes, nparticle, nframes, rng):
    boxlength = np.array([6.0, 7.5, 9.0][:ndim])
    # unsorted types, every type present, unequal counts
    types = np.concatenate((np.arange(1, ntypes + 1), rng.integers(1, ntypes + 1, nparticle - ntypes)))
    rng.shuffle(types)
    frames = []
    for n in range(nframes):
        positions = rng.random((nparticle, ndim)) * boxlength[np.newaxis, :]
        bounds = np.column_stack((np.zeros(ndim), boxlength))
        frames.append(
            SingleSnapshot(
                timestep=n,
                nparticle=nparticle,
                particle_type=types.copy(),
                positions=positions,
                boxlength=boxlength.copy(),
                boxbounds=bounds,
                realbounds=bounds.copy(),
                hmatrix=np.diag(boxlength),
            )
        )
    return Snapshots(nsnapshots=nframes, snapshots=frames)


def freeze(snapshots, extra):
    out = [np.array(extra, copy=True)]
    for s in snapshots.snapshots:
        for a in (s.particle_type, s.positions, s.boxlength, s.boxbounds, s.realbounds, s.hmatrix):
            out.append(np.array(a, copy=True))
    return out


def same(a, b):
    return all(x.dtype == y.dtype and x.shape == y.shape and x.tobytes() == y.tobytes() for x, y in zip(a, b))


def frames_equal(a, b):
    return list(a.columns) == list(b.columns) and a.shape == b.shape and a.values.tobytes() == b.values.tobytes()


def reference(snapshots, qint, ntypes):
    s0 = snapshots.snapshots[0]
    qvec = qint.astype(float) * (2 * np.pi / s0.boxlength)[np.newaxis, :]
    qval = np.sqrt((qvec * qvec).sum(axis=1))
    cols = {"Sq": np.zeros(len(qvec))}
    for t in range(1, ntypes + 1):
        cols[f"Sq{t}{t}"] = np.zeros(len(qvec))
    for s in snapshots.snapshots:
        phase = np.exp(-1j * (s.positions @ qvec.T))  # [N, nq]
        cols["Sq"] += np.abs(phase.sum(axis=0)) ** 2 / s.nparticle
        for t in range(1, ntypes + 1):
            sel = s.particle_type == t
            cols[f"Sq{t}{t}"] += np.abs(phase[sel].sum(axis=0)) ** 2 / sel.sum()
    table = pd.DataFrame({"q": qval, **{k: v / snapshots.nsnapshots for k, v in cols.items()}})
    table = table.round(6)
    return table.groupby("q").mean().reset_index()


def main():
    rng = np.random.default_rng(777)
    tmpdir = tempfile.mkdtemp()
    failures = 0
    try:
        for ndim in (2, 3):
            if ndim == 2:
                qint = np.array([[1, 0], [0, 1], [1, 1], [2, 1], [1, 2], [-1, 1], [3, 0]])
            else:
                qint = np.array([[1, 0, 0], [0, 1, 0], [0, 0, 1], [1, 1, 0], [1, 0, 1], [0, 1, 1], [1, 1, 1], [2, 0, -1]])
            for ntypes in (1, 2, 3, 4, 5, 6):
                name = f"{ndim}d-{ntypes}types"
                snapshots = make_snapshots(ndim, ntypes, 23 + ntypes, 2, rng)
                qarg = qint.copy()
                before = freeze(snapshots, qarg)
                path = os.path.join(tmpdir, name + ".csv")
                result = sq(snapshots, qvector=qarg, outputfile=path).getresults()
                if list(result.columns) != COLUMNS[ntypes].split():
                    print(f"FAIL {name}: columns {list(result.columns)}")
                    failures += 1
                direct = getattr(sq(snapshots, qvector=qarg), METHOD[ntypes])()
                if not frames_equal(result, direct):
                    print(f"FAIL {name}: getresults() differs from {METHOD[ntypes]}()")
                    failures += 1
                again = sq(snapshots, qvector=qarg).getresults()
                if not frames_equal(result, again):
                    print(f"FAIL {name}: repeated call differs")
                    failures += 1
                ref = reference(snapshots, qint, ntypes if 2 <= ntypes <= 5 else 0)
                if len(ref) != len(result) or not np.allclose(ref["q"].values, result["q"].values, rtol=0, atol=2e-6):
                    print(f"FAIL {name}: q values differ from the reference")
                    failures += 1
                else:
                    for col in ref.columns:
                        if not np.allclose(ref[col].values, result[col].values, rtol=1e-9, atol=3e-6):
                            print(f"FAIL {name}: column {col} differs from the reference")
                            failures += 1
                onfile = pd.read_csv(path)
                if list(onfile.columns) != list(result.columns) or not np.allclose(
                    onfile.values, result.values, rtol=0, atol=0.51e-6
                ):
                    print(f"FAIL {name}: file does not hold the returned values")
                    failures += 1
                if not same(before, freeze(snapshots, qarg)):
                    print(f"FAIL {name}: inputs were modified")
                    failures += 1
                print(f"ok   {name}")
    finally:
        shutil.rmtree(tmpdir, ignore_errors=True)
    if failures:
        print(f"{failures} failure(s)")
        return 1
    print("all checks passed")
    return 0


if __name__ == "__main__":
    sys.exit(main())
