"""Demo for the numpy-idiom rewrite inside read_gsd_dcd (np.column_stack -> np.stack(axis=1),
range(positions.shape[0]) -> enumerate(positions)).

The HOOMD frames and the DCD file are duck-typed (gsd / mdtraj are not needed): the
expected Snapshots are computed here with plain Python loops.
"""
import logging
import sys
from types import SimpleNamespace

import numpy as np

logging.disable(logging.CRITICAL)

from PyMatterSim.reader.gsd_reader_helper import read_gsd, read_gsd_dcd


class FakeTrajectory:
    """minimal stand-in for gsd.hoomd.open(...): len, indexing, iteration"""

    def __init__(self, frames):
        self._frames = list(frames)

    def __len__(self):
        return len(self._frames)

    def __getitem__(self, index):
        return self._frames[index]

    def __iter__(self):
        return iter(self._frames)


class FakeDCD:
    """minimal stand-in for mdtraj DCDTrajectoryFile: read() -> (xyz, lengths, angles)"""

    def __init__(self, xyz):
        self._xyz = xyz

    def read(self):
        nframes = self._xyz.shape[0]
        return self._xyz, np.ones((nframes, 3)), np.full((nframes, 3), 90.0)


def make_frames(rng, nframes, natoms, dims, dtype):
    frames = []
    for iframe in range(nframes):
        box = np.array(list(rng.uniform(3.0, 20.0, size=3)) + [0.0, 0.0, 0.0], dtype=dtype)
        pos = ((rng.random((natoms, 3)) - 0.5) * box[:3]).astype(dtype)
        if dims == 2:
            pos[:, 2] = 0
        frames.append(SimpleNamespace(
            configuration=SimpleNamespace(box=box, step=int(1000 * iframe + rng.integers(0, 999)), dimensions=dims),
            particles=SimpleNamespace(N=natoms, position=pos, typeid=rng.integers(0, 3, size=natoms).astype(np.uint32)),
        ))
    return frames


def expected_bounds(pos, ndim):
    out = np.zeros((ndim, 2), dtype=pos.dtype)
    for d in range(ndim):
        column = [row[d] for row in pos]
        out[d, 0] = min(column)
        out[d, 1] = max(column)
    return out


def check_common(snap, frame, ndim):
    box = frame.configuration.box
    good = snap.timestep == frame.configuration.step
    good &= snap.nparticle == frame.particles.N
    good &= np.array_equal(snap.particle_type, frame.particles.typeid.astype(np.int64) + 1)
    good &= int(np.min(snap.particle_type)) >= 1
    good &= np.array_equal(snap.boxlength, box[:ndim])
    good &= snap.hmatrix.shape == (ndim, ndim)
    good &= all(snap.hmatrix[a, b] == (box[a] if a == b else 0) for a in range(ndim) for b in range(ndim))
    ref = expected_bounds(frame.particles.position, ndim)
    good &= snap.boxbounds.shape == (ndim, 2) and snap.boxbounds.dtype == ref.dtype
    good &= np.array_equal(snap.boxbounds, ref)
    good &= snap.realbounds is None
    return bool(good)


def main():
    rng = np.random.default_rng(1919)
    failures = 0
    ncases = 0
    for dims in (2, 3):
        for dtype in (np.float32, np.float64):
            for nframes, natoms in ((1, 1), (3, 7), (5, 2)):
                ncases += 1
                frames = make_frames(rng, nframes, natoms, dims, dtype)
                traj = FakeTrajectory(frames)
                # unwrapped DCD coordinates, always 3 columns, different from the gsd positions
                xyz = (rng.normal(size=(nframes, natoms, 3)) * 50).astype(np.float32)

                res = read_gsd_dcd(traj, FakeDCD(xyz), dims)
                if res is None or res.nsnapshots != nframes or len(res.snapshots) != nframes:
                    print("read_gsd_dcd: wrong frame count", dims, dtype, nframes)
                    failures += 1
                    continue
                for iframe in range(nframes):
                    snap = res.snapshots[iframe]
                    ok = check_common(snap, frames[iframe], dims)
                    want = np.array([[xyz[iframe, p, d] for d in range(dims)] for p in range(natoms)],
                                    dtype=np.float32)
                    ok &= snap.positions.shape == (natoms, dims) and np.array_equal(snap.positions, want)
                    if not ok:
                        print("read_gsd_dcd mismatch", dims, dtype, nframes, natoms, iframe)
                        failures += 1

                res = read_gsd(traj, dims)
                for iframe in range(nframes):
                    snap = res.snapshots[iframe]
                    ok = check_common(snap, frames[iframe], dims)
                    ok &= np.array_equal(snap.positions, frames[iframe].particles.position[:, :dims])
                    if not ok:
                        print("read_gsd mismatch", dims, dtype, nframes, natoms, iframe)
                        failures += 1

                # guard branches: wrong dimension, inconsistent frame / particle numbers
                if read_gsd_dcd(traj, FakeDCD(xyz), 5 - dims) is not None:
                    failures += 1
                if read_gsd_dcd(traj, FakeDCD(np.concatenate((xyz, xyz[:1]))), dims) is not None:
                    failures += 1
                if read_gsd_dcd(traj, FakeDCD(np.concatenate((xyz, xyz[:, :1]), axis=1)), dims) is not None:
                    failures += 1

    if failures:
        print("FAILED:", failures)
        return 1
    print("gsd-dcd-enumerate-stack demo OK (%d cases)" % ncases)
    return 0


if __name__ == "__main__":
    sys.exit(main())
