# coding = utf-8
"""
Demo for the refactoring "quarternary-selector-loop".

The refactoring restructures the loop nest of gr.quarternary (per-frame
quantities hoisted out of the particle loop, the ten hand-unrolled partial
histograms rolled into an inner loop over a selector table, integer counts
accumulated per frame and added to the result once per frame).  The demo runs
gr(...).getresults() for four-species systems and compares every returned
column (r, gr, gr11, gr22, gr33, gr44, gr12, gr13, gr14, gr23, gr24, gr34)
with a brute-force all-pairs reference written here: 1-5 frames, 2D and 3D,
orthogonal and triclinic cells (negative tilt), partially periodic masks,
several bin widths, unequal compositions incl. single-particle species,
shuffled / ascending / descending type arrays.  One- to six-species systems
(other than four) are run as a guard.  Exits 0 when everything agrees.

Run:  PYTHONPATH=<worktree> /venv/bin/python demo.py
"""

import dataclasses
import os
import shutil
import sys
import tempfile

import numpy as np
import pandas as pd

from PyMatterSim.reader.reader_utils import SingleSnapshot, Snapshots
from PyMatterSim.static.gr import gr

RTOL = 1e-9
ATOL = 1e-12


# ----------------------------------------------------------------------
# synthetic input
# ----------------------------------------------------------------------
def make_hmatrix(ndim, lengths, tilts=None):
    """lower-triangular h-matrix, the convention of the LAMMPS reader"""
    hmatrix = np.diag(np.asarray(lengths, dtype=float))
    if tilts is not None:
        if ndim == 2:
            hmatrix[1, 0] = tilts[0]                      # xy
        else:
            hmatrix[1, 0] = tilts[0]                      # xy
            hmatrix[2, 0] = tilts[1]                      # xz
            hmatrix[2, 1] = tilts[2]                      # yz
    return hmatrix


def make_snapshots(rng, ndim, lengths, counts, nframes, tilts=None, shuffle=True, dtype=int):
    """random (ideal-gas like) trajectory; species ids 1..K with given counts"""
    lengths = np.asarray(lengths, dtype=float)
    hmatrix = make_hmatrix(ndim, lengths, tilts)
    types = np.concatenate([np.full(c, k + 1, dtype=dtype) for k, c in enumerate(counts)])
    if shuffle:
        types = rng.permutation(types)
    nparticle = types.size
    frames = []
    for n in range(nframes):
        frac = rng.random((nparticle, ndim))
        positions = frac @ hmatrix + rng.normal(size=ndim)  # arbitrary origin
        frames.append(
            SingleSnapshot(
                timestep=n,
                nparticle=nparticle,
                particle_type=types.copy(),
                positions=positions,
                boxlength=lengths.copy(),
                boxbounds=np.c_[np.zeros(ndim), lengths],
                realbounds=None,
                hmatrix=hmatrix.copy(),
            )
        )
    return Snapshots(nsnapshots=nframes, snapshots=frames)


# ----------------------------------------------------------------------
# straightforward reference
# ----------------------------------------------------------------------
def reference_gr(snapshots, ppp, rdelta):
    """
    g_ab(r_k) = V/(N_a N_b) * <# ordered a-b pairs (i != j) in bin k> / shell_k
    for every pair of species, plus the total.  Returns dict name -> array.
    """
    first = snapshots.snapshots[0]
    ndim = first.positions.shape[1]
    nparticle = first.nparticle
    volume = float(np.prod(first.boxlength))
    maxbin = int(first.boxlength.min() / 2.0 / rdelta)
    species = np.unique(first.particle_type)
    ppp = np.asarray(ppp, dtype=float)

    lo = np.arange(maxbin) * rdelta
    hi = (np.arange(maxbin) + 1) * rdelta
    if ndim == 3:
        shell = 4.0 / 3.0 * np.pi * (hi**3 - lo**3)
    else:
        shell = np.pi * (hi**2 - lo**2)

    ordered = {}  # (a, b) -> accumulated ordered-pair histogram
    total = np.zeros(maxbin)
    for snap in snapshots.snapshots:
        hinv = np.linalg.inv(snap.hmatrix)
        for i in range(nparticle):
            for j in range(nparticle):
                if i == j:
                    continue
                dr = snap.positions[j] - snap.positions[i]
                frac = dr @ hinv
                frac = frac - np.rint(frac) * ppp
                dist = float(np.sqrt(np.sum((frac @ snap.hmatrix) ** 2)))
                k = int(np.floor(dist / rdelta))
                if k >= maxbin:
                    continue
                total[k] += 1
                key = (int(snap.particle_type[i]), int(snap.particle_type[j]))
                if key not in ordered:
                    ordered[key] = np.zeros(maxbin)
                ordered[key][k] += 1

    nframes = snapshots.nsnapshots
    out = {"r": hi - 0.5 * rdelta,
           "gr": volume / nparticle**2 * total / nframes / shell}
    if 2 <= len(species) <= 5:  # one species / more than five: total only
        number = {int(s): int(np.sum(first.particle_type == s)) for s in species}
        for ia, a in enumerate(species):
            for b in species[ia:]:
                a, b = int(a), int(b)
                hist = ordered.get((a, b), np.zeros(maxbin))
                out[f"gr{a}{b}"] = volume / (number[a] * number[b]) * hist / nframes / shell
    return out, maxbin


def check_case(label, snapshots, ppp, rdelta, outputfile=None):
    result = gr(snapshots, ppp=np.array(ppp), rdelta=rdelta, outputfile=outputfile).getresults()
    expected, maxbin = reference_gr(snapshots, ppp, rdelta)
    species = np.unique(snapshots.snapshots[0].particle_type)
    ok = True

    if sorted(result.columns) != sorted(expected):
        print(f"[{label}] column mismatch: {list(result.columns)} vs {sorted(expected)}")
        return False
    if result.shape[0] != maxbin:
        print(f"[{label}] expected {maxbin} bins, got {result.shape[0]}")
        return False
    for name, values in expected.items():
        got = result[name].values
        if not np.allclose(got, values, rtol=RTOL, atol=ATOL):
            bad = np.argmax(np.abs(got - values))
            print(f"[{label}] column {name} differs at bin {bad}: {got[bad]} vs {values[bad]}")
            ok = False

    # consequence: total = sum_ab c_a c_b g_ab
    if 1 < len(species) <= 5:
        first = snapshots.snapshots[0]
        conc = {int(s): np.mean(first.particle_type == s) for s in species}
        mix = np.zeros(maxbin)
        for a in conc:
            for b in conc:
                lo_, hi_ = min(a, b), max(a, b)
                mix += conc[a] * conc[b] * result[f"gr{lo_}{hi_}"].values
        if not np.allclose(mix, result["gr"].values, rtol=RTOL, atol=ATOL):
            print(f"[{label}] total != sum c_a c_b g_ab")
            ok = False

    if outputfile:
        saved = pd.read_csv(outputfile)
        if list(saved.columns) != list(result.columns):
            print(f"[{label}] csv columns differ")
            ok = False
        elif not np.allclose(saved.values, result.values, rtol=0, atol=6e-7):
            print(f"[{label}] csv values differ from returned frame")
            ok = False
    print(f"[{label}] {'ok' if ok else 'FAILED'}  (bins={maxbin}, columns={len(result.columns)})")
    return ok


def reorder_types(snapshots, order):
    """same trajectory with the particle labels sorted ascending / descending"""
    frames = []
    for snap in snapshots.snapshots:
        types = np.sort(snap.particle_type)
        if order == "descending":
            types = types[::-1].copy()
        frames.append(dataclasses.replace(snap, particle_type=types))
    return Snapshots(nsnapshots=snapshots.nsnapshots, snapshots=frames)


def main():
    rng = np.random.default_rng(20240304)
    tmpdir = tempfile.mkdtemp()
    ok = True
    try:
        # 3D orthogonal, several frame counts (the counts are now accumulated per frame)
        for nframes in (1, 2, 5):
            snaps = make_snapshots(rng, 3, [5.0, 6.0, 5.5], [8, 5, 9, 6], nframes)
            ok &= check_case(f"quarternary 3D ortho {nframes} frame(s)", snaps, [1, 1, 1], 0.2,
                             outputfile=os.path.join(tmpdir, f"q{nframes}.csv"))
        ok &= check_case("quarternary ascending ids", reorder_types(snaps, "ascending"), [1, 1, 1], 0.2)
        ok &= check_case("quarternary descending ids", reorder_types(snaps, "descending"), [1, 1, 1], 0.2)
        # triclinic with negative tilt, unequal composition incl. single-particle species
        snaps = make_snapshots(rng, 3, [6.0, 5.0, 5.5], [1, 14, 2, 10], 2, tilts=[-2.0, 1.5, -1.0])
        ok &= check_case("quarternary 3D triclinic unequal", snaps, [1, 1, 1], 0.137)
        # 2D, three frames, fine bins
        snaps = make_snapshots(rng, 2, [9.0, 7.0], [7, 11, 9, 6], 3)
        ok &= check_case("quarternary 2D ortho", snaps, [1, 1], 0.05)
        # 2D triclinic, periodic along y only, int32 ids
        snaps = make_snapshots(rng, 2, [8.0, 9.0], [4, 9, 3, 7], 2, tilts=[-3.0], dtype=np.int32)
        ok &= check_case("quarternary 2D triclinic ppp=[0,1]", snaps, [0, 1], 0.31)
        # minimal quarternary system: one particle of every species
        snaps = make_snapshots(rng, 3, [4.0, 4.0, 4.0], [1, 1, 1, 1], 5)
        ok &= check_case("quarternary N=4", snaps, [1, 1, 1], 0.25)
        # guards: the other species counts are untouched
        for counts in ([11], [17, 11], [9, 13, 6], [6, 7, 4, 8, 5], [5, 4, 6, 3, 5, 4]):
            snaps = make_snapshots(rng, 3, [5.0, 5.5, 6.0], counts, 2, tilts=[1.0, -0.5, 0.75])
            ok &= check_case(f"{len(counts)} species guard", snaps, [1, 1, 1], 0.25)
    finally:
        shutil.rmtree(tmpdir, ignore_errors=True)

    print("ALL OK" if ok else "SOME CHECKS FAILED")
    return 0 if ok else 1


if __name__ == "__main__":
    sys.exit(main())
