"""Demo for the numpy-idiom rewrite inside static.sq.conditional_sq
(np.linalg.norm(axis=1) -> sqrt of summed squares, explicit newaxis broadcasting -> plain broadcasting / np.outer).

Run: PYTHONPATH=<worktree> /venv/bin/python demo.py
Exercises conditional_sq (vector, scalar and bool conditions) and its caller vector_decomposition_sq in 2D and 3D,
orthogonal and triclinic h-matrices, and compares with a direct discrete Fourier sum written here.
"""
import cmath
import logging
import math
import os
import shutil
import sys
import tempfile

import numpy as np
import pandas as pd

from PyMatterSim.reader.reader_utils import SingleSnapshot
from PyMatterSim.static.sq import conditional_sq
from PyMatterSim.static.vector import vector_decomposition_sq

logging.disable(logging.CRITICAL)
rng = np.random.default_rng(1502)
tmpdir = tempfile.mkdtemp()
failures = []


def check(name, ok):
    print(("ok   " if ok else "FAIL ") + name)
    if not ok:
        failures.append(name)


def make_snapshot(ndim, nparticle, triclinic):
    boxlength = rng.uniform(5.0, 9.0, size=ndim)
    hmatrix = np.diag(boxlength)
    if triclinic:
        hmatrix[1, 0] = -0.35 * boxlength[0]  # negative tilt
        if ndim == 3:
            hmatrix[2, 0] = 0.2 * boxlength[0]
            hmatrix[2, 1] = -0.15 * boxlength[1]
    positions = rng.uniform(0, 1, size=(nparticle, ndim)) @ hmatrix
    bounds = np.column_stack((np.zeros(ndim), boxlength))
    return SingleSnapshot(
        timestep=0,
        nparticle=nparticle,
        particle_type=np.ones(nparticle, dtype=int),
        positions=positions,
        boxlength=boxlength,
        boxbounds=bounds,
        realbounds=bounds,
        hmatrix=hmatrix,
    )


def dft(snapshot, qreal, weights):
    """plain-python Fourier sum: sum_j w_j exp(-i q.r_j) / sqrt(len(w)); weights [N] or [N, d]"""
    weights = np.asarray(weights, dtype=float)
    if weights.ndim == 1:
        weights = weights[:, None]
    out = np.zeros((len(qreal), weights.shape[1]), dtype=complex)
    for a, q in enumerate(qreal):
        for j, r in enumerate(snapshot.positions):
            phase = cmath.exp(-1j * math.fsum(qk * rk for qk, rk in zip(q, r)))
            for k in range(weights.shape[1]):
                out[a, k] += phase * weights[j, k]
    return out


def group_mean(q, values):
    table = pd.DataFrame(values)
    return table.groupby(np.round(q, 8)).mean().reset_index().values


qlists = {
    2: np.array([[1, 0], [0, 1], [0, -1], [1, 1], [-1, 2], [2, -1], [-2, -1], [3, 0]]),
    3: np.array([[1, 0, 0], [0, 0, 1], [0, -1, 0], [1, 1, 0], [-1, 2, 1], [1, -1, 1], [2, 0, -1], [1, 2, -1]]),
}

try:
    for ndim in (2, 3):
        for triclinic in (False, True):
            for nparticle in (1, 19):
                tag = f"d={ndim} triclinic={triclinic} N={nparticle}"
                snapshot = make_snapshot(ndim, nparticle, triclinic)
                qvector = qlists[ndim]
                qreal = qvector * (2 * np.pi / snapshot.boxlength)
                qnorm = np.array([math.sqrt(sum(c * c for c in q)) for q in qreal])
                field = rng.normal(size=(nparticle, ndim))

                # --- vector condition
                full, averaged = conditional_sq(snapshot, qvector, field)
                ref = dft(snapshot, qreal, field) / math.sqrt(nparticle)
                ref_sq = (np.abs(ref) ** 2).sum(axis=1)
                check(f"vector: columns {tag}", list(full.columns) == [f"q{i}" for i in range(ndim)] + ["q", "Sq"] + [f"FFT{i}" for i in range(ndim)])
                check(f"vector: q components {tag}", np.allclose(full[[f"q{i}" for i in range(ndim)]].values, qreal, rtol=0, atol=1e-8))
                check(f"vector: |q| {tag}", np.allclose(full["q"].values, qnorm, rtol=0, atol=1e-8))
                check(f"vector: FFT {tag}", np.allclose(full[[f"FFT{i}" for i in range(ndim)]].values, ref, rtol=0, atol=2e-8))
                check(f"vector: Sq {tag}", np.allclose(full["Sq"].values, ref_sq, rtol=0, atol=2e-8))
                check(f"vector: averaged {tag}", np.allclose(averaged.values, group_mean(qnorm, np.round(ref_sq, 8)), rtol=0, atol=2e-8))

                # --- scalar condition
                scalar = rng.normal(size=nparticle)
                full_s, _ = conditional_sq(snapshot, qvector, scalar)
                ref_s = dft(snapshot, qreal, scalar)[:, 0] / math.sqrt(nparticle)
                check(f"scalar: FFT {tag}", np.allclose(full_s["FFT"].values, ref_s, rtol=0, atol=2e-8))
                check(f"scalar: Sq and |q| {tag}", np.allclose(full_s["Sq"].values, np.abs(ref_s) ** 2, rtol=0, atol=2e-8) and np.allclose(full_s["q"].values, qnorm, rtol=0, atol=1e-8))

                # --- bool condition (selected particles; at least one selected)
                selected = rng.uniform(size=nparticle) < 0.5
                selected[0] = True
                full_b, _ = conditional_sq(snapshot, qvector, selected)
                ref_b = dft(snapshot, qreal, selected.astype(float))[:, 0] / math.sqrt(selected.sum())
                check(f"bool: FFT {tag}", np.allclose(full_b["FFT"].values, ref_b, rtol=0, atol=2e-8))
                check(f"bool: Sq and |q| {tag}", np.allclose(full_b["Sq"].values, np.abs(ref_b) ** 2, rtol=0, atol=2e-8) and np.allclose(full_b["q"].values, qnorm, rtol=0, atol=1e-8))

                # --- caller: longitudinal / transverse split built on the vector branch
                outfile = os.path.join(tmpdir, f"split_{ndim}_{triclinic}_{nparticle}")
                split, split_ave = vector_decomposition_sq(snapshot, qvector, field, outputfile=outfile)
                qhat = qreal / qnorm[:, None]
                ref_L = qhat * (qhat * ref).sum(axis=1)[:, None]
                ref_T = ref - ref_L
                got_F = split[[f"FFT{i}" for i in range(ndim)]].values
                got_L = split[[f"L_FFT{i}" for i in range(ndim)]].values
                got_T = split[[f"T_FFT{i}" for i in range(ndim)]].values
                check(f"split: reference L/T {tag}", np.allclose(got_L, ref_L, rtol=0, atol=1e-7) and np.allclose(got_T, ref_T, rtol=0, atol=1e-7))
                check(f"split: L + T = FFT {tag}", np.allclose(got_L + got_T, got_F, rtol=0, atol=1e-7))
                check(f"split: T orthogonal to q {tag}", np.allclose((qhat * got_T).sum(axis=1), 0, atol=1e-7))
                check(f"split: L parallel to q {tag}", np.allclose(got_L - qhat * (qhat * got_L).sum(axis=1)[:, None], 0, atol=1e-7))
                check(f"split: S = S_L + S_T per q {tag}", np.allclose(split["Sq"], split["Sq_L"] + split["Sq_T"], rtol=0, atol=1e-6))
                check(f"split: averaged S = S_L + S_T {tag}", np.allclose(split_ave["Sq"], split_ave["Sq_L"] + split_ave["Sq_T"], rtol=0, atol=1e-6))
                saved = pd.read_csv(outfile + ".csv")
                check(f"split: csv {tag}", list(saved.columns) == ["q", "Sq", "Sq_T", "Sq_L"] and np.allclose(saved.values, split_ave.values, rtol=0, atol=1e-8))
finally:
    shutil.rmtree(tmpdir, ignore_errors=True)

if failures:
    print(f"{len(failures)} check(s) failed")
    sys.exit(1)
print("all checks passed")
sys.exit(0)
