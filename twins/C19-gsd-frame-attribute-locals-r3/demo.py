"""Demo for the read_gsd / read_gsd_dcd refactoring (frame attributes in locals).

The gsd / mdtraj libraries are not needed: read_gsd and read_gsd_dcd take
duck-typed trajectory objects, so synthetic HOOMD-like frames are built here.
"""
import logging
import sys
from types import SimpleNamespace

import numpy as np

from PyMatterSim.reader.gsd_reader_helper import read_gsd, read_gsd_dcd


class FakeTrajectory:
    """minimal stand-in for gsd.hoomd.HOOMDTrajectory (len / index / iterate)"""

    def __init__(self, frames):
        self._frames = list(frames)

    def __len__(self):
        return len(self._frames)

    def __getitem__(self, i):
        return self._frames[i]

    def __iter__(self):
        return iter(self._frames)


class FakeDCD:
    """stand-in for mdtraj DCDTrajectoryFile: read() -> (xyz, lengths, angles)"""

    def __init__(self, xyz):
        self._xyz = xyz

    def read(self):
        nframes = self._xyz.shape[0]
        return self._xyz, np.ones((nframes, 3)), np.full((nframes, 3), 90.0)


def make_frames(rng, ndim, nframes, n):
    frames = []
    for k in range(nframes):
        box = np.array(list(rng.uniform(5, 9, 3)) + [0.0, 0.0, 0.0], dtype=np.float32)
        position = (rng.uniform(-0.5, 0.5, (n, 3)) * box[:3]).astype(np.float32)
        if ndim == 2:
            box[2] = 1.0
            position[:, 2] = 0.0
        frames.append(SimpleNamespace(
            configuration=SimpleNamespace(dimensions=ndim, box=box, step=1000 * k + 17),
            particles=SimpleNamespace(N=n, position=position, typeid=rng.integers(0, 3, n).astype(np.uint32)),
        ))
    return frames


def check_static(snap, frame, ndim):
    assert snap.timestep == frame.configuration.step
    assert snap.nparticle == frame.particles.N
    assert np.array_equal(snap.particle_type, frame.particles.typeid.astype(np.int64) + 1)
    assert snap.particle_type.min() >= 1
    assert np.array_equal(snap.boxlength, frame.configuration.box[:ndim])
    expected_h = np.zeros((ndim, ndim), dtype=np.float32)
    for d in range(ndim):
        expected_h[d, d] = frame.configuration.box[d]
    assert np.array_equal(snap.hmatrix, expected_h)
    pos = frame.particles.position
    for d in range(ndim):
        assert snap.boxbounds[d, 0] == min(pos[:, d]) and snap.boxbounds[d, 1] == max(pos[:, d])
    assert snap.boxbounds.shape == (ndim, 2)
    assert snap.realbounds is None


def main():
    logging.disable(logging.CRITICAL)
    rng = np.random.default_rng(190)
    for ndim in (2, 3):
        for nframes, n in ((1, 1), (3, 6), (5, 11)):
            frames = make_frames(rng, ndim, nframes, n)
            traj = FakeTrajectory(frames)

            # ---- gsd only ----
            snaps = read_gsd(traj, ndim)
            assert snaps.nsnapshots == nframes == len(snaps.snapshots)
            for snap, frame in zip(snaps.snapshots, frames):
                check_static(snap, frame, ndim)
                assert snap.positions.shape == (n, ndim)
                assert np.array_equal(snap.positions, frame.particles.position[:, :ndim])
            # wrong dimension -> None
            assert read_gsd(traj, 5 - ndim) is None

            # ---- gsd + dcd ----
            xyz = rng.normal(0, 30, (nframes, n, 3)).astype(np.float32)
            snaps = read_gsd_dcd(traj, FakeDCD(xyz), ndim)
            assert snaps.nsnapshots == nframes == len(snaps.snapshots)
            for k, (snap, frame) in enumerate(zip(snaps.snapshots, frames)):
                check_static(snap, frame, ndim)
                assert snap.positions.shape == (n, ndim)
                assert np.array_equal(snap.positions, xyz[k][:, :ndim])
            assert read_gsd_dcd(traj, FakeDCD(xyz), 5 - ndim) is None
            # inconsistent frame number / particle number -> None
            assert read_gsd_dcd(traj, FakeDCD(np.concatenate((xyz, xyz[:1]))), ndim) is None
            assert read_gsd_dcd(traj, FakeDCD(xyz[:, :-1] if n > 1 else np.zeros((nframes, 2, 3))), ndim) is None
    print("gsd demo OK")
    return 0


if __name__ == "__main__":
    sys.exit(main())
