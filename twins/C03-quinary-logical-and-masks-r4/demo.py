"""Demo for the refactoring in this directory (see notes.md).

Builds synthetic trajectories, runs PyMatterSim.static.gr.gr(...).getresults()
and compares every returned column with a brute-force all-pairs reference
written here.  Exits 0 when everything agrees.
"""

import itertools
import logging
import os
import shutil
import sys
import tempfile

import numpy as np
import pandas as pd

from PyMatterSim.reader.reader_utils import SingleSnapshot, Snapshots
from PyMatterSim.static.gr import gr

logging.disable(logging.CRITICAL)

# CASES is the only part that differs between the four demos
# (name, ndim, nparticle, composition weights, nframes, triclinic, ppp, rdelta, type dtype)
CASES = [
    ("K4-3d", 3, 60, [1, 1, 1, 1], 2, False, [1, 1, 1], 0.2, np.int64),
    ("K4-2d-tri", 2, 70, [3, 1, 2, 1], 2, True, [1, 1], 0.12, np.int32),
    ("K4-3d-tri-slab", 3, 52, [1, 4, 1, 2], 1, True, [1, 0, 1], 0.23, np.int32),
    ("K5-3d", 3, 65, [1, 1, 1, 1, 1], 2, False, [1, 1, 1], 0.2, np.int64),
    ("K5-2d-tri", 2, 75, [1, 2, 3, 2, 1], 1, True, [1, 1], 0.14, np.int32),
    ("K5-3d-tri", 3, 58, [5, 1, 1, 1, 2], 3, True, [1, 1, 1], 0.31, np.int64),
    ("K5-2d-open", 2, 40, [1, 1, 2, 1, 1], 1, False, [0, 0], 0.26, np.int64),
    ("K5-minimal", 3, 5, [1, 1, 1, 1, 1], 2, True, [1, 1, 1], 0.4, np.int32),
    ("K4-minimal", 2, 4, [1, 1, 1, 1], 2, False, [1, 1], 0.35, np.int64),
    ("K3-control", 3, 36, [1, 1, 1], 1, False, [1, 1, 1], 0.25, np.int64),
]


def make_snapshots(rng, ndim, nparticle, weights, nframes, triclinic, dtype):
    """random positions, fixed (shuffled) types, same cell for every frame"""
    lengths = rng.uniform(4.0, 6.0, size=ndim)
    hmatrix = np.diag(lengths)
    if triclinic:
        hmatrix[1, 0] = -0.37 * lengths[0]  # negative xy tilt
        if ndim == 3:
            hmatrix[2, 0] = 0.21 * lengths[0]
            hmatrix[2, 1] = -0.18 * lengths[1]
    weights = np.asarray(weights, dtype=float)
    counts = np.maximum(1, np.floor(weights / weights.sum() * nparticle).astype(int))
    counts[0] += nparticle - counts.sum()
    assert counts.min() >= 1 and counts.sum() == nparticle
    types = np.concatenate([np.full(c, k + 1) for k, c in enumerate(counts)]).astype(dtype)
    rng.shuffle(types)
    frames = []
    for n in range(nframes):
        frac = rng.uniform(-0.2, 1.2, size=(nparticle, ndim))  # some unwrapped
        positions = frac @ hmatrix
        bounds = np.column_stack((np.zeros(ndim), lengths))
        frames.append(
            SingleSnapshot(
                timestep=n,
                nparticle=nparticle,
                particle_type=types.copy(),
                positions=positions,
                boxlength=lengths.copy(),
                boxbounds=bounds,
                realbounds=bounds,
                hmatrix=hmatrix.copy(),
            )
        )
    return Snapshots(nsnapshots=nframes, snapshots=frames), lengths, hmatrix, types


def reference(snaps, lengths, hmatrix, types, ppp, rdelta):
    """all ordered pairs i != j, minimum image, one histogram per species pair"""
    ndim = len(lengths)
    nparticle = len(types)
    maxbin = int(lengths.min() / 2.0 / rdelta)
    edges = np.linspace(0.0, maxbin * rdelta, maxbin + 1)
    shell = {2: 1.0, 3: 4.0 / 3}[ndim] * np.pi * (edges[1:] ** ndim - edges[:-1] ** ndim)
    volume = np.prod(lengths)
    kinds = np.unique(types)
    hinv = np.linalg.inv(hmatrix)
    offdiag = ~np.eye(nparticle, dtype=bool)
    out = {"r": 0.5 * (edges[1:] + edges[:-1])}

    def column(mask_i, mask_j):
        total = np.zeros(maxbin)
        for snap in snaps.snapshots:
            pos = snap.positions
            dr = pos[None, :, :] - pos[:, None, :]
            frac = dr @ hinv
            dr = (frac - np.rint(frac) * np.asarray(ppp)[None, None, :]) @ hmatrix
            dist = np.sqrt((dr * dr).sum(axis=2))
            sel = offdiag & mask_i[:, None] & mask_j[None, :]
            total += np.histogram(dist[sel], bins=edges)[0]
        return volume / (mask_i.sum() * mask_j.sum()) * total / snaps.nsnapshots / shell

    everyone = np.ones(nparticle, dtype=bool)
    out["gr"] = column(everyone, everyone)
    if len(kinds) <= 5 and len(kinds) > 1:
        for a in kinds:
            out[f"gr{a}{a}"] = column(types == a, types == a)
        for a, b in itertools.combinations(kinds, 2):
            out[f"gr{a}{b}"] = column(types == a, types == b)
    return out


def expected_columns(nkinds):
    if nkinds == 1 or nkinds > 5:
        return ["r", "gr"]
    ids = range(1, nkinds + 1)
    return (["r", "gr"] + [f"gr{a}{a}" for a in ids]
            + [f"gr{a}{b}" for a, b in itertools.combinations(ids, 2)])


def check_case(rng, tmpdir, name, ndim, nparticle, weights, nframes, triclinic, ppp, rdelta, dtype):
    snaps, lengths, hmatrix, types = make_snapshots(
        rng, ndim, nparticle, weights, nframes, triclinic, dtype)
    ref = reference(snaps, lengths, hmatrix, types, ppp, rdelta)
    csv = os.path.join(tmpdir, f"{name}.csv")
    result = gr(snaps, ppp=np.array(ppp), rdelta=rdelta, outputfile=csv).getresults()
    assert isinstance(result, pd.DataFrame), name
    nkinds = len(weights)
    assert list(result.columns) == expected_columns(nkinds), (name, list(result.columns))
    assert list(result.columns) == list(ref.keys()), name
    assert len(result) == int(lengths.min() / 2.0 / rdelta), name
    for col in result.columns:
        np.testing.assert_allclose(
            result[col].values, ref[col], rtol=1e-10, atol=1e-12, err_msg=f"{name}:{col}")
    if 1 < nkinds <= 5:
        conc = {k + 1: np.mean(types == k + 1) for k in range(nkinds)}
        mix = sum(conc[a] * conc[b] * result[f"gr{min(a, b)}{max(a, b)}"].values
                  for a in conc for b in conc)
        np.testing.assert_allclose(mix, result["gr"].values, rtol=1e-10, atol=1e-12, err_msg=name)
    # the csv holds the returned table, written once with 6 decimals
    saved = pd.read_csv(csv)
    assert list(saved.columns) == list(result.columns), name
    np.testing.assert_allclose(saved.values, result.values, rtol=0, atol=5.1e-7, err_msg=name)
    # no output file requested -> same numbers, nothing written
    again = gr(snaps, ppp=np.array(ppp), rdelta=rdelta).getresults()
    assert np.array_equal(again.values, result.values), name
    return result


def main():
    rng = np.random.default_rng(20240917)
    tmpdir = tempfile.mkdtemp()
    try:
        for case in CASES:
            check_case(rng, tmpdir, *case)
        assert sorted(os.listdir(tmpdir)) == sorted(f"{c[0]}.csv" for c in CASES)
    finally:
        shutil.rmtree(tmpdir, ignore_errors=True)
    print("demo ok:", len(CASES), "cases")
    return 0


if __name__ == "__main__":
    sys.exit(main())
