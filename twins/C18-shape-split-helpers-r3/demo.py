"""demo for the refactoring 'shape-split-helpers' (gyration_tensor split in 3 private helpers)

run: PYTHONPATH=<worktree> /venv/bin/python demo.py [--dump out.pkl]
exits 0 on the unchanged and on the refactored tree.
"""
import logging
import pickle
import sys

import numpy as np

from PyMatterSim.static.shape import gyration_tensor

logging.disable(logging.CRITICAL)  # keep the demo quiet


def reference(pos):
    """independent reference: matrix product + symmetric eigen-solver"""
    pos = np.asarray(pos, dtype=np.float64)
    n, ndim = pos.shape
    c = pos - pos.mean(axis=0)
    tensor = c.T @ c / n
    lam = np.linalg.eigvalsh(tensor)  # ascending
    rg = np.sqrt(lam.sum())
    acyl = lam[1] - lam[0]
    fractal = np.log10(n) / np.log10(rg)
    if ndim == 3:
        asph = 1.5 * lam[2] - 0.5 * lam.sum()
        aniso = (asph**2 + 0.75 * acyl**2) / rg**4
        return [rg, asph, acyl, aniso, fractal]
    return [rg, acyl, fractal]


def main():
    rng = np.random.default_rng(20240918)
    big = rng.normal(size=(40, 6)) * np.array([3.0, 1.0, 0.3, 2.0, 5.0, 1.0]) + 17.0
    inputs = {
        "3d_offset": rng.normal(size=(57, 3)) * np.array([4.0, 2.0, 0.5]) + np.array([100.0, -50.0, 7.0]),
        "2d_offset": rng.normal(size=(33, 2)) * np.array([3.0, 0.7]) + np.array([-20.0, 11.0]),
        "3d_two_particles": np.array([[0.0, 0.0, 0.0], [3.0, 4.0, 12.0]]),
        "3d_strided_view": big[::2, 1:6:2],       # non-contiguous view of a larger array
        "2d_fortran": np.asfortranarray(rng.uniform(-5, 5, size=(21, 2))),
        "3d_integer": rng.integers(-9, 10, size=(25, 3)),
        "3d_float32": (rng.normal(size=(30, 3)) * 3 + 2).astype(np.float32),
    }
    outputs = {}
    for name, pos in inputs.items():
        before = pos.copy()
        before_bytes = pos.tobytes()
        first = gyration_tensor(pos)
        # inputs untouched (values, dtype, layout)
        assert pos.tobytes() == before_bytes, name
        assert pos.dtype == before.dtype and np.array_equal(pos, before), name
        # repeated call agrees bit for bit
        second = gyration_tensor(pos)
        assert len(first) == len(second) == (5 if pos.shape[1] == 3 else 3), name
        assert all(complex(a) == complex(b) for a, b in zip(first, second)), name
        # agrees with the reference
        rtol = 1e-5 if pos.dtype == np.float32 else 1e-9
        ref = reference(pos)
        # (np.linalg.eig may hand back complex numbers with zero imaginary part)
        got = np.array(first, dtype=complex)
        assert np.all(got.imag == 0), name
        assert np.allclose(got.real, np.array(ref), rtol=rtol, atol=1e-9), (name, first, ref)
        outputs[name] = [complex(x) for x in first]

    # translation invariance (the routine centres a copy)
    shifted = gyration_tensor(inputs["3d_offset"] + np.array([1e3, -2e3, 5e2]))
    assert np.allclose(np.array(shifted, dtype=complex), outputs["3d_offset"], rtol=1e-8)

    # wrong dimensionality is still rejected with ValueError, input untouched
    for bad in (rng.normal(size=(10, 4)), rng.normal(size=(10, 1))):
        keep = bad.copy()
        try:
            gyration_tensor(bad)
        except ValueError as err:
            assert "Wrong input dimensionality" in str(err)
        else:
            raise AssertionError("expected ValueError")
        assert np.array_equal(bad, keep)

    if "--dump" in sys.argv:
        with open(sys.argv[sys.argv.index("--dump") + 1], "wb") as f:
            pickle.dump(outputs, f)
    print("shape-split-helpers demo OK")


if __name__ == "__main__":
    main()
