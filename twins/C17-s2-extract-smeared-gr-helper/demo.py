"""Demo for the helper extraction in PyMatterSim.static.pairentropy.S2.particle_s2.

Compares S2.particle_s2 (with and without savegr) against an independent,
fully vectorised reference: minimum-image distances from fractional
coordinates, Gaussian smearing with the pair-type width, shell
normalisation, explicit trapezoid sum.  Cases: 3D orthogonal, 3D triclinic
with negative tilt, 2D orthogonal, 2D triclinic, asymmetric width matrix,
three species, two frames, a non-periodic direction, and a dilute system in
which some particles have no neighbour inside the cutoff (nan result on both
sides).  Exits 0 when everything agrees.
"""
import os
import shutil
import sys
import tempfile
import warnings

import numpy as np

from PyMatterSim.reader.reader_utils import SingleSnapshot, Snapshots
from PyMatterSim.static.pairentropy import S2, s2_integral


def make_snapshot(positions, types, hmatrix, step=0):
    positions = np.asarray(positions, dtype=float)
    hmatrix = np.asarray(hmatrix, dtype=float)
    boxlength = np.diag(hmatrix).copy()
    bounds = np.column_stack((np.zeros(len(boxlength)), boxlength))
    return SingleSnapshot(
        timestep=step,
        nparticle=positions.shape[0],
        particle_type=np.asarray(types),
        positions=positions,
        boxlength=boxlength,
        boxbounds=bounds,
        realbounds=bounds,
        hmatrix=hmatrix,
    )


def reference(positions, types, hmatrix, sigmas, ppp, rdelta, ndelta):
    positions = np.asarray(positions, dtype=float)
    ndim = positions.shape[1]
    npart = positions.shape[0]
    rho = npart / np.prod(np.diag(hmatrix))
    bins = (np.arange(ndelta) + 0.5) * rdelta
    rmax = bins[-1]
    shell = (2 * np.pi * bins if ndim == 2 else 4 * np.pi * bins ** 2) * rho
    hinv = np.linalg.inv(hmatrix)
    s2 = np.zeros(npart)
    grs = np.zeros((npart, ndelta))
    t0 = np.asarray(types).astype(int) - 1
    for i in range(npart):
        others = np.array([j for j in range(npart) if j != i])
        frac = (positions[others] - positions[i]) @ hinv
        frac -= np.rint(frac) * np.asarray(ppp)
        dist = np.sqrt(((frac @ hmatrix) ** 2).sum(axis=1))
        keep = dist < rmax
        dist = dist[keep]
        width = np.asarray(sigmas)[t0[i], t0[others[keep]]] if keep.any() else np.zeros(0)
        gauss = np.exp(-((bins[None, :] - dist[:, None]) ** 2) / (2 * width[:, None] ** 2)) / np.sqrt(2 * np.pi * width[:, None] ** 2)
        g = gauss.sum(axis=0) / shell
        grs[i] = g
        integrand = (g * np.log(g) - g + 1) * bins ** (ndim - 1)
        integral = np.sum((integrand[1:] + integrand[:-1]) * np.diff(bins)) / 2
        s2[i] = -(ndim - 1) * np.pi * rho * integral
    return s2, grs


def check(name, frames, types, hmatrix, sigmas, ppp, rdelta, ndelta, tmpdir):
    snaps = Snapshots(len(frames), [make_snapshot(p, types, hmatrix, step=k) for k, p in enumerate(frames)])
    ok = True
    with warnings.catch_warnings(), np.errstate(all="ignore"):
        warnings.simplefilter("ignore")
        plain = S2(snaps, sigmas, ppp=np.array(ppp), rdelta=rdelta, ndelta=ndelta).particle_s2()
        obj = S2(snaps, sigmas, ppp=np.array(ppp), rdelta=rdelta, ndelta=ndelta)
        cwd = os.getcwd()
        os.chdir(tmpdir)
        try:
            with_gr, gr = obj.particle_s2(savegr=True, outputfile=f"{name}.npy")
            saved = np.load(f"{name}.npy")
            saved_gr = np.load(f"particle_gr.{name}.npy")
        finally:
            os.chdir(cwd)
        want = [reference(p, types, hmatrix, sigmas, ppp, rdelta, ndelta) for p in frames]
    want_s2 = np.array([w[0] for w in want])
    want_gr = np.array([w[1] for w in want])
    ok &= plain.shape == want_s2.shape and np.allclose(plain, want_s2, rtol=1e-9, atol=1e-10, equal_nan=True)
    ok &= np.array_equal(plain, with_gr, equal_nan=True)
    ok &= np.array_equal(obj.s2_results, with_gr, equal_nan=True)
    ok &= gr.shape == want_gr.shape and np.allclose(gr, want_gr, rtol=1e-9, atol=1e-12)
    ok &= np.array_equal(saved, with_gr, equal_nan=True) and np.array_equal(saved_gr, gr)
    print(("ok   " if ok else "FAIL ") + name, "nan count:", int(np.isnan(plain).sum()))
    return ok


def main():
    rng = np.random.default_rng(1717)
    tmpdir = tempfile.mkdtemp()
    failures = 0
    try:
        # s2_integral on the ideal gas g = 1 is exactly zero, 2D and 3D
        bins = (np.arange(30) + 0.5) * 0.1
        for ndim in (2, 3):
            if s2_integral(np.ones(30), bins, ndim) != 0.0:
                print("FAIL ideal gas integral")
                failures += 1

        sig2 = np.array([[0.20, 0.26], [0.26, 0.32]])
        sig2_asym = np.array([[0.20, 0.24], [0.29, 0.33]])
        sig3 = np.array([[0.2, 0.25, 0.3], [0.25, 0.22, 0.27], [0.3, 0.27, 0.35]])

        h3 = np.diag([4.0, 4.5, 3.8])
        types = rng.permutation(np.array([1] * 14 + [2] * 10))
        frames = [rng.uniform(0, 1, size=(24, 3)) @ h3 for _ in range(2)]
        failures += not check("orth3d", frames, types, h3, sig2, [1, 1, 1], 0.05, 40, tmpdir)
        failures += not check("orth3d_asym", frames[:1], types, h3, sig2_asym, [1, 1, 1], 0.04, 45, tmpdir)
        failures += not check("orth3d_open_z", frames[:1], types, h3, sig2, [1, 1, 0], 0.05, 40, tmpdir)

        h3t = np.array([[4.0, 0, 0], [-1.3, 4.4, 0], [0.9, -0.7, 3.9]])
        types3 = rng.permutation(np.array([1] * 8 + [2] * 7 + [3] * 6))
        frames = [rng.uniform(0, 1, size=(21, 3)) @ h3t]
        failures += not check("tri3d", frames, types3, h3t, sig3, [1, 1, 1], 0.05, 39, tmpdir)

        h2 = np.diag([6.0, 5.0])
        types = rng.permutation(np.array([1] * 11 + [2] * 9))
        frames = [rng.uniform(0, 1, size=(20, 2)) @ h2 for _ in range(2)]
        failures += not check("orth2d", frames, types, h2, sig2, [1, 1], 0.05, 50, tmpdir)

        h2t = np.array([[6.0, 0.0], [-2.2, 5.0]])
        frames = [rng.uniform(0, 1, size=(20, 2)) @ h2t]
        failures += not check("tri2d", frames, types, h2t, sig2_asym, [1, 1], 0.06, 41, tmpdir)

        # dilute: short cutoff, some particles see nobody -> g = 0 -> nan on both sides
        hbig = np.diag([12.0, 12.0, 12.0])
        types = np.array([1, 2] * 4)
        frames = [rng.uniform(0, 12, size=(8, 3))]
        failures += not check("dilute3d", frames, types, hbig, sig2, [1, 1, 1], 0.05, 30, tmpdir)
    finally:
        shutil.rmtree(tmpdir, ignore_errors=True)
    return 1 if failures else 0


if __name__ == "__main__":
    sys.exit(main())
