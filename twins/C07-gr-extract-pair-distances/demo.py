"""Demo for the structural refactoring of static/gr.py (a private helper that returns the
minimum-image distances from particle i to the particles stored after it, called from
conditional_gr and from gr.unary/binary/ternary/quarternary/quinary).

g(r) (all partials for 1..5 species, and the >5 species fallback) and the conditional /
field correlations of conditional_gr (bool, float scalar, complex, vector, tensor) are
compared with an all-pairs reference implementation written here, in 2D and 3D,
orthogonal and triclinic (negative tilt) cells.  Exit code 0 on success.
"""

import logging
import math
import os
import shutil
import sys
import tempfile

import numpy as np
import pandas as pd

from PyMatterSim.reader.reader_utils import SingleSnapshot, Snapshots
from PyMatterSim.static.gr import conditional_gr, gr

logging.disable(logging.CRITICAL)


def ref_min_image(vec, hmatrix, ppp):
    frac = np.linalg.solve(hmatrix.T, vec)
    out = np.zeros(len(vec))
    for k in range(len(vec)):
        f = frac[k]
        if ppp[k]:
            f = f - np.rint(f)
        out += f * hmatrix[k]
    return out


def make_snapshot(rng, nparticle, hmatrix, ntypes):
    ndim = hmatrix.shape[0]
    frac = rng.uniform(0, 1, size=(nparticle, ndim)) + rng.integers(-2, 3, size=(nparticle, ndim))
    positions = frac @ hmatrix
    particle_type = (np.arange(nparticle) % ntypes + 1).astype(int)
    rng.shuffle(particle_type)
    boxlength = np.diag(hmatrix).copy()
    boxbounds = np.c_[np.zeros(ndim), boxlength]
    return SingleSnapshot(
        timestep=0, nparticle=nparticle, particle_type=particle_type, positions=positions,
        boxlength=boxlength, boxbounds=boxbounds, realbounds=boxbounds, hmatrix=hmatrix,
    )


def all_pairs(snapshot, ppp):
    """[(i, j, distance)] for i<j"""
    out = []
    for i in range(snapshot.nparticle):
        for j in range(i + 1, snapshot.nparticle):
            d = np.linalg.norm(ref_min_image(snapshot.positions[j] - snapshot.positions[i], snapshot.hmatrix, ppp))
            out.append((i, j, d))
    return out


def shell_volumes(ndim, maxbin, rdelta):
    edges = np.linspace(0, maxbin * rdelta, maxbin + 1)
    unit = 4.0 / 3 * math.pi if ndim == 3 else math.pi
    return edges, unit * (edges[1:] ** ndim - edges[:-1] ** ndim)


def hist(values, edges, weights=None):
    return np.histogram(values, bins=edges, weights=weights)[0]


def ref_gr(snapshots, ppp, rdelta):
    snap0 = snapshots.snapshots[0]
    ndim = len(ppp)
    nparticle = snap0.nparticle
    volume = np.prod(snap0.boxlength)
    maxbin = int(snap0.boxlength.min() / 2.0 / rdelta)
    edges, shells = shell_volumes(ndim, maxbin, rdelta)
    types = np.unique(snap0.particle_type)
    counts = {t: int((snap0.particle_type == t).sum()) for t in types}
    ntypes = len(types)
    columns = {"gr": np.zeros(maxbin)}
    if 1 < ntypes <= 5:
        for a in range(1, ntypes + 1):
            columns[f"gr{a}{a}"] = np.zeros(maxbin)
        for a in range(1, ntypes + 1):
            for b in range(a + 1, ntypes + 1):
                columns[f"gr{a}{b}"] = np.zeros(maxbin)
    for snap in snapshots.snapshots:
        pairs = all_pairs(snap, ppp)
        columns["gr"] += hist([d for _, _, d in pairs], edges)
        if 1 < ntypes <= 5:
            for i, j, d in pairs:
                a, b = sorted((snap.particle_type[i], snap.particle_type[j]))
                columns[f"gr{a}{b}"] += hist([d], edges)
    nsnap = snapshots.nsnapshots
    result = {"r": edges[1:] - 0.5 * rdelta}
    result["gr"] = columns["gr"] * 2 / nsnap / nparticle / (shells * nparticle / volume)
    for key, value in columns.items():
        if key == "gr":
            continue
        a, b = int(key[2]), int(key[3])
        if a == b:
            result[key] = value * 2 / nsnap / counts[a] / (shells * counts[a] / volume)
        else:
            result[key] = value / nsnap / shells * volume / counts[a] / counts[b]
    return pd.DataFrame(result)


def ref_conditional(snapshot, condition, conditiontype, ppp, rdelta):
    ndim = len(ppp)
    nparticle = snapshot.nparticle
    volume = np.prod(snapshot.boxlength)
    maxbin = int(snapshot.boxlength.min() / 2.0 / rdelta)
    edges, shells = shell_volumes(ndim, maxbin, rdelta)
    pairs = all_pairs(snapshot, ppp)
    dist = np.array([d for _, _, d in pairs])
    weights = np.zeros(len(pairs))
    natom = nparticle
    for k, (i, j, _) in enumerate(pairs):
        if condition.dtype == bool:
            weights[k] = float(condition[i] and condition[j])
            natom = int(condition.sum())
        elif conditiontype == "vector":
            weights[k] = np.real(np.sum(condition[j] * np.conj(condition[i])))
        elif conditiontype == "tensor":
            weights[k] = np.trace(condition[i] @ condition[j])
        else:
            weights[k] = np.real(condition[j] * np.conj(condition[i]))
    result = {"r": edges[1:] - 0.5 * rdelta}
    result["gr"] = hist(dist, edges) * 2 / nparticle / (shells * nparticle / volume)
    result["gA"] = hist(dist, edges, weights) * 2 / natom / (shells * natom / volume)
    if condition.dtype != bool and condition.dtype != complex and conditiontype is None:
        m2 = condition.mean() ** 2
        result["gA_norm"] = (result["gA"] - m2) / ((condition**2).mean() - m2)
    return pd.DataFrame(result)


def assert_frames_close(got, want, label):
    assert list(got.columns) == list(want.columns), (label, list(got.columns), list(want.columns))
    assert got.shape == want.shape, (label, got.shape, want.shape)
    g = got.to_numpy(dtype=float)
    w = want.to_numpy(dtype=float)
    assert np.allclose(g, w, rtol=1e-10, atol=1e-12), (label, np.abs(g - w).max())


CELLS = {
    "3d-ortho": np.diag([4.0, 4.4, 5.2]),
    "3d-triclinic": np.array([[4.0, 0.0, 0.0], [-1.1, 4.4, 0.0], [0.7, -0.9, 5.2]]),
    "2d-ortho": np.diag([6.0, 5.0]),
    "2d-triclinic": np.array([[6.0, 0.0], [-1.7, 5.0]]),
}


def main():
    rng = np.random.default_rng(11)
    tmpdir = tempfile.mkdtemp()
    try:
        for name, hmatrix in CELLS.items():
            ndim = hmatrix.shape[0]
            ppp = np.ones(ndim, dtype=int)
            rdelta = 0.13
            # ---- gr class for 1..6 species (6 -> overall g(r) only)
            for ntypes in (1, 2, 3, 4, 5, 6):
                nparticle = 26
                snaps = [make_snapshot(rng, nparticle, hmatrix, ntypes) for _ in range(2)]
                snaps[1] = SingleSnapshot(**{**snaps[1].__dict__, "particle_type": snaps[0].particle_type})
                snapshots = Snapshots(nsnapshots=2, snapshots=snaps)
                outfile = os.path.join(tmpdir, f"gr_{name}_{ntypes}.csv")
                got = gr(snapshots, ppp=ppp, rdelta=rdelta, outputfile=outfile).getresults()
                want = ref_gr(snapshots, ppp, rdelta)
                assert_frames_close(got, want, (name, ntypes))
                saved = pd.read_csv(outfile)
                assert list(saved.columns) == list(got.columns)
                assert np.allclose(saved.to_numpy(), got.to_numpy(dtype=float), atol=1e-6)

            # ---- conditional_gr
            nparticle = 22
            snap = make_snapshot(rng, nparticle, hmatrix, 2)
            conditions = {
                "bool": (rng.uniform(size=nparticle) > 0.4, None),
                "scalar": (rng.normal(size=nparticle), None),
                "complex": (rng.normal(size=nparticle) + 1j * rng.normal(size=nparticle), None),
                "vector-real": (rng.normal(size=(nparticle, ndim)), "vector"),
                "vector-complex": (rng.normal(size=(nparticle, 5)) + 1j * rng.normal(size=(nparticle, 5)), "vector"),
                "tensor": (rng.normal(size=(nparticle, ndim, ndim)), "tensor"),
            }
            for cname, (condition, ctype) in conditions.items():
                got = conditional_gr(snap, condition=condition, conditiontype=ctype, ppp=ppp, rdelta=rdelta)
                want = ref_conditional(snap, condition, ctype, ppp, rdelta)
                assert_frames_close(got, want, (name, cname))
            try:
                conditional_gr(snap, condition=conditions["vector-real"][0], conditiontype="matrix", ppp=ppp, rdelta=rdelta)
            except ValueError:
                pass
            else:
                raise AssertionError("invalid conditiontype must raise ValueError")
    finally:
        shutil.rmtree(tmpdir, ignore_errors=True)
    print("OK")
    return 0


if __name__ == "__main__":
    sys.exit(main())
