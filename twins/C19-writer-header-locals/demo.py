"""Demo for the syntactic refactoring of write_dump_header / write_data_header.

Checks (a) the exact header text against an independent %-formatting reference
and (b) the loop writer -> dump reader: timestep, particle number and box
bounds are read back unchanged, in 2D and 3D, with and without extra columns,
for list and ndarray box bounds, negative bounds and unsorted atom ids.
"""
import os
import shutil
import sys
import tempfile

import logging

import numpy as np

logging.disable(logging.CRITICAL)

from PyMatterSim.reader.lammps_reader_helper import read_lammps_wrapper
from PyMatterSim.writer.lammps_writer import write_data_header, write_dump_header


def ref_dump_header(timestep, nparticle, bounds, addson):
    rows = [[float(v) for v in row] for row in bounds]
    lines = ["ITEM: TIMESTEP", "%s" % timestep, "ITEM: NUMBER OF ATOMS", "%s" % nparticle,
             "ITEM: BOX BOUNDS pp pp pp"]
    for lo, hi in rows:
        lines.append("%.6f %.6f" % (lo, hi))
    if len(rows) == 2:
        lines.append("-0.500000 0.500000")
        lines.append("ITEM: ATOMS id type x y %s" % (addson,))
    else:
        lines.append("ITEM: ATOMS id type x y z %s" % (addson,))
    return "\n".join(lines) + "\n"


def ref_data_header(nparticle, ntype, bounds):
    rows = [[float(v) for v in row] for row in bounds]
    out = "LAMMPS data file\n\n%d atoms\n%d atom types\n\n" % (nparticle, ntype)
    for (lo, hi), tag in zip(rows, ("x", "y", "z")):
        out += "%.6f %.6f %slo %shi\n" % (lo, hi, tag, tag)
    if len(rows) == 2:
        out += "-0.5 0.5 zlo zhi\n"
    return out + "\nAtoms #atomic\n\n"


def main():
    rng = np.random.default_rng(19)
    tmp = tempfile.mkdtemp()
    failures = 0
    try:
        cases = []
        for ndim in (2, 3):
            for trial in range(4):
                lo = rng.uniform(-20.0, 5.0, size=ndim)
                hi = lo + rng.uniform(1.0, 30.0, size=ndim)
                bounds = np.column_stack((lo, hi))
                if trial % 2:
                    bounds = bounds.tolist()  # plain nested lists are accepted too
                addson = [None, "", "order", "order Q6"][trial]
                cases.append((ndim, bounds, addson))
        # a few hand-picked values: integers, tiny and large magnitudes
        cases.append((2, [[0, 10], [-3, 7]], "q"))
        cases.append((3, np.array([[-1e-7, 1e5], [0.0000005, 2.5], [-123456.789, 0.125]]), "a b c"))

        for icase, (ndim, bounds, addson) in enumerate(cases):
            natoms = int(rng.integers(1, 12))
            nframes = 3
            path = os.path.join(tmp, "case%d.atom" % icase)
            barr = np.array(bounds, dtype=float)
            stamps, npart, allpos, alltypes = [], [], [], []
            with open(path, "w", encoding="utf-8") as fh:
                for iframe in range(nframes):
                    timestep = int(rng.integers(0, 10**9))
                    if addson is None:
                        head = write_dump_header(timestep, natoms, bounds)
                    else:
                        head = write_dump_header(timestep, natoms, bounds, addson)
                    if head != ref_dump_header(timestep, natoms, bounds, addson):
                        print("dump header text mismatch in case", icase)
                        failures += 1
                    fh.write(head)
                    pos = barr[:, 0] + rng.uniform(0.05, 0.95, size=(natoms, ndim)) * (barr[:, 1] - barr[:, 0])
                    pos = np.round(pos, 6)
                    types = rng.integers(1, 4, size=natoms)
                    for idx in rng.permutation(natoms):  # unsorted ids
                        coords = " ".join("%.6f" % c for c in pos[idx])
                        fh.write("%d %d %s 0.5\n" % (idx + 1, types[idx], coords))
                    stamps.append(timestep)
                    npart.append(natoms)
                    allpos.append(pos)
                    alltypes.append(types)

            snaps = read_lammps_wrapper(path, ndim)
            if snaps.nsnapshots != nframes:
                print("frame count mismatch in case", icase)
                failures += 1
                continue
            expected_bounds = np.array([[float("%.6f" % v) for v in row] for row in barr])
            for iframe, snap in enumerate(snaps.snapshots):
                ok = (snap.timestep == stamps[iframe]
                      and snap.nparticle == npart[iframe]
                      and snap.boxbounds.shape == (ndim, 2)
                      and np.array_equal(snap.boxbounds, expected_bounds)
                      and np.array_equal(snap.particle_type, alltypes[iframe])
                      and np.allclose(snap.positions, allpos[iframe], rtol=0, atol=1e-9))
                if not ok:
                    print("round trip mismatch in case", icase, "frame", iframe)
                    failures += 1

            ntype = int(rng.integers(1, 5))
            if write_data_header(natoms, ntype, bounds) != ref_data_header(natoms, ntype, bounds):
                print("data header text mismatch in case", icase)
                failures += 1
    finally:
        shutil.rmtree(tmp, ignore_errors=True)

    if failures:
        print("FAILED:", failures)
        return 1
    print("writer-header-locals demo OK (%d cases)" % len(cases))
    return 0


if __name__ == "__main__":
    sys.exit(main())
