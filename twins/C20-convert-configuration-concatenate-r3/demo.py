"""demo for the numpy respelling in convert_configuration (np.sum / np.concatenate(axis=1))

Calls convert_configuration on 2D and 3D snapshots (box at the origin corner, box centred on the
origin, arbitrary origins, float32 coordinates, several frames with different particle numbers)
and compares boxes and centred / z-padded coordinates with values built independently here.
Then runs cal_neighbors on the same snapshots and checks that the cell areas / volumes written to
the overall file add up to the box area / volume (the coordinates reached freud correctly).
"""

import os
import shutil
import sys
import tempfile

import numpy as np

from PyMatterSim.neighbors.freud_neighbors import cal_neighbors, convert_configuration
from PyMatterSim.reader.reader_utils import SingleSnapshot, Snapshots


def snapshot(ndim, nparticle, lengths, origin, rng, dtype=np.float64):
    lengths = np.asarray(lengths, dtype=float)
    origin = np.asarray(origin, dtype=float)
    bounds = np.column_stack((origin, origin + lengths))
    positions = (origin + rng.random((nparticle, ndim)) * lengths).astype(dtype)
    return SingleSnapshot(
        timestep=0,
        nparticle=nparticle,
        particle_type=np.ones(nparticle, dtype=int),
        positions=positions,
        boxlength=lengths.copy(),
        boxbounds=bounds,
        realbounds=bounds.copy(),
        hmatrix=np.diag(lengths),
    )


def expected_points(snap):
    ndim = snap.positions.shape[1]
    result = np.zeros((snap.nparticle, 3))
    for d in range(ndim):
        lo, hi = snap.boxbounds[d]
        if (lo, hi) == (-snap.boxlength[d] / 2, snap.boxlength[d] / 2):
            result[:, d] = snap.positions[:, d]  # already centred
        else:
            result[:, d] = snap.positions[:, d] - (lo + snap.boxlength[d] / 2)
    return result


def main():
    rng = np.random.default_rng(41)
    groups = {
        "2d": [
            snapshot(2, 30, [6.0, 7.0], [0.0, 0.0], rng),
            snapshot(2, 30, [5.0, 5.0], [-2.5, -2.5], rng),  # centred: bounds sum to zero
            snapshot(2, 30, [4.0, 6.5], [1.5, -3.0], rng),
            snapshot(2, 30, [4.0, 6.5], [-9.0, -11.0], rng),  # negative sum of bounds
        ],
        "2d-float32": [snapshot(2, 17, [4.0, 4.0], [0.0, 0.0], rng, dtype=np.float32)],
        "3d": [
            snapshot(3, 25, [4.0, 5.0, 6.0], [0.0, 0.0, 0.0], rng),
            snapshot(3, 25, [5.0, 5.0, 5.0], [-2.5, -2.5, -2.5], rng),
            snapshot(3, 25, [4.0, 4.5, 5.0], [2.0, -7.0, 0.5], rng),
        ],
        "2d-varying-n": [snapshot(2, n, [5.0, 6.0], [0.5, 0.5], rng) for n in (12, 19, 1)],
    }
    tmp = tempfile.mkdtemp()
    try:
        for name, frames in groups.items():
            snaps = Snapshots(nsnapshots=len(frames), snapshots=frames)
            originals = [s.positions.copy() for s in frames]
            boxes, points = convert_configuration(snaps)
            assert isinstance(boxes, list) and isinstance(points, list)
            assert len(boxes) == len(points) == len(frames)
            for snap, box, pts, orig in zip(frames, boxes, points, originals):
                ndim = snap.positions.shape[1]
                assert isinstance(pts, np.ndarray) and pts.shape == (snap.nparticle, 3), (name, pts.shape)
                assert pts.dtype == np.float64, (name, pts.dtype)
                want = expected_points(snap)
                assert np.array_equal(pts, want), (name, np.abs(pts - want).max())
                assert (np.abs(pts[:, :ndim]) <= snap.boxlength / 2 + 1e-6).all()
                if ndim == 2:
                    assert not np.signbit(pts[:, 2]).any() and (pts[:, 2] == 0).all()
                    assert box.is2D and (box.Lx, box.Ly, box.Lz) == (snap.boxlength[0], snap.boxlength[1], 0.0)
                else:
                    assert (not box.is2D) and (box.Lx, box.Ly, box.Lz) == tuple(snap.boxlength)
                assert (box.xy, box.xz, box.yz) == (0.0, 0.0, 0.0)
                assert np.array_equal(snap.positions, orig), "input must not be modified"

            if name == "2d-varying-n":
                continue  # a single particle has no Voronoi neighbours to write
            base = os.path.join(tmp, name)
            cal_neighbors(snaps, outputfile=base)
            with open(base + ".overall.dat", encoding="utf-8") as f:
                rows = [line.split() for line in f.readlines()[1:]]
            start = 0
            for snap in frames:
                block = rows[start : start + snap.nparticle]
                start += snap.nparticle
                assert [int(r[0]) for r in block] == list(range(1, snap.nparticle + 1))
                total = sum(float(r[2]) for r in block)
                assert abs(total - np.prod(snap.boxlength)) < 1e-6 * snap.nparticle + 1e-5, (name, total)
            assert start == len(rows)
    finally:
        shutil.rmtree(tmp)
    print("OK")
    return 0


if __name__ == "__main__":
    sys.exit(main())
