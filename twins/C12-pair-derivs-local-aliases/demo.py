"""
Demo for the purely syntactic refactoring of PairInteractions
(lennard_jones / inverse_power_law / harmonic_hertz / caller).

The lists [s1, s1rc, s2] returned by the public methods are compared with
the derivatives of the DOCUMENTED potentials s(r), obtained independently by
high-precision numerical differentiation (mpmath, 40 digits) of s(r) itself,
so no closed form of the derivative is re-typed here.

Run: PYTHONPATH=<worktree> /venv/bin/python demo.py     (exit code 0 = OK)
"""
import itertools
import sys

import mpmath as mp
import numpy as np

from PyMatterSim.static.hessians import (InteractionParams, ModelName,
                                         PairInteractions)

mp.mp.dps = 40
RTOL = 1e-11
failures = []


def check(label, got, ref, scale):
    """|got-ref| <= RTOL*scale, scale = size of the terms that are summed"""
    err = abs(mp.mpf(float(got)) - ref)
    if not err <= RTOL * scale:
        failures.append(f"{label}: got {float(got)!r}, expected {mp.nstr(ref, 17)}")


def derivs(pot, r):
    """first and second derivative of the callable pot at r (mpmath)"""
    r = mp.mpf(r)
    return mp.diff(pot, r, 1), mp.diff(pot, r, 2)


def lj(eps, sig):
    return lambda x: 4 * eps * ((sig / x)**12 - (sig / x)**6)


def lj_abs(eps, sig):  # magnitude of the summed terms, for the tolerance
    return lambda x: 4 * eps * ((sig / x)**12 + (sig / x)**6)


def ipl(eps, sig, n, A):
    return lambda x: A * eps * (sig / x)**n


def hertz(eps, sig, alpha):
    return lambda x: eps / alpha * (1 - x / sig)**alpha


sigmas = [1.0, 1.1, 0.73]
epsilons = [1.0, 0.35]
rcuts = [2.5, 1.3]
rfactors = [0.61, 0.9545454545454546, 2 ** (1 / 6), 1.7, 3.2]   # r / sigma
ncases = 0
for conv in (float, np.float64):
    for sig, eps, rc, rf, shift in itertools.product(
            sigmas, epsilons, rcuts, rfactors, (True, False)):
        r = rf * sig
        rc = rc * sig
        pair = PairInteractions(conv(r), conv(eps), conv(sig), conv(rc), shift=shift)
        m = [mp.mpf(v) for v in (r, eps, sig, rc)]
        mr, meps, msig, mrc = m

        # ---- Lennard-Jones -------------------------------------------
        d1, d2 = derivs(lj(meps, msig), mr)
        a1, a2 = derivs(lj_abs(meps, msig), mr)
        c1, _ = derivs(lj(meps, msig), mrc)
        ca1, _ = derivs(lj_abs(meps, msig), mrc)
        for res in (pair.lennard_jones(),
                    pair.caller(InteractionParams(ModelName.lennard_jones))):
            assert isinstance(res, list) and len(res) == 3
            check(f"LJ s1 r={r} shift={shift}", res[0], d1, abs(a1))
            check(f"LJ s2 r={r} shift={shift}", res[2], d2, abs(a2))
            if shift:
                check(f"LJ s1rc rc={rc}", res[1], c1, abs(ca1))
            elif res[1] != 0:
                failures.append(f"LJ s1rc must be 0 without shift, got {res[1]!r}")
        # selector must not be fooled by foreign parameters
        res = pair.caller(InteractionParams(ModelName.lennard_jones, ipl_n=3,
                                            ipl_A=7, harmonic_hertz_alpha=2.5))
        check("LJ via caller with foreign params", res[0], d1, abs(a1))

        # ---- inverse power law ---------------------------------------
        for n, A in ((10, 1.0), (12, 2.5), (7.5, 0.4), (4, None)):
            mA = mp.mpf(1.0 if A is None else A)
            mn = mp.mpf(n)
            d1, d2 = derivs(ipl(meps, msig, mn, mA), mr)
            c1, _ = derivs(ipl(meps, msig, mn, mA), mrc)
            results = []
            if A is None:       # default prefactor of the method
                results.append(pair.inverse_power_law(n=n))
                A = 1.0
            else:
                results.append(pair.inverse_power_law(n=n, A=A))
                results.append(pair.inverse_power_law(n, A))
            results.append(pair.caller(InteractionParams(
                ModelName.inverse_power_law, ipl_n=n, ipl_A=A,
                harmonic_hertz_alpha=3.0)))
            for res in results:
                assert isinstance(res, list) and len(res) == 3
                check(f"IPL s1 n={n} A={A} r={r}", res[0], d1, abs(d1))
                check(f"IPL s2 n={n} A={A} r={r}", res[2], d2, abs(d2))
                if shift:
                    check(f"IPL s1rc n={n} A={A} rc={rc}", res[1], c1, abs(c1))
                elif res[1] != 0:
                    failures.append(f"IPL s1rc must be 0 without shift, got {res[1]!r}")

        # ---- harmonic / hertz ----------------------------------------
        # fractional exponents only for overlapping pairs (r < sigma)
        alphas = (2.0, 2.5, 3.0, 2) if r < sig else (2.0, 3.0)
        for alpha in alphas:
            d1, d2 = derivs(hertz(meps, msig, mp.mpf(alpha)), mr)
            for res in (pair.harmonic_hertz(alpha=alpha),
                        pair.harmonic_hertz(alpha),
                        pair.caller(InteractionParams(
                            ModelName.harmonic_hertz, ipl_n=10, ipl_A=2.0,
                            harmonic_hertz_alpha=alpha))):
                assert isinstance(res, list) and len(res) == 3
                check(f"HH s1 alpha={alpha} r={r}", res[0], d1, abs(d1) + meps / msig * mp.mpf("1e-4"))
                check(f"HH s2 alpha={alpha} r={r}", res[2], d2, abs(d2) + meps / msig**2 * mp.mpf("1e-4"))
                if res[1] != 0:
                    failures.append(f"HH s1rc must be 0, got {res[1]!r}")
        ncases += 1

# array-valued distances keep working element-wise
rr = np.linspace(0.8, 2.4, 9)
pair = PairInteractions(rr, 1.3, 1.1, 2.5, shift=True)
for name, res in (("lj", pair.lennard_jones()), ("ipl", pair.inverse_power_law(9.0, 2.0))):
    for k, r in enumerate(rr):
        one = PairInteractions(r, 1.3, 1.1, 2.5, shift=True)
        ref = one.lennard_jones() if name == "lj" else one.inverse_power_law(9.0, 2.0)
        if not (np.isclose(res[0][k], ref[0], rtol=1e-13, atol=0)
                and np.isclose(res[2][k], ref[2], rtol=1e-13, atol=0)
                and np.isclose(res[1], ref[1], rtol=1e-13, atol=0)):
            failures.append(f"array input {name} element {k}")

if failures:
    print(f"{len(failures)} FAILURES")
    for f in failures[:20]:
        print("  ", f)
    sys.exit(1)
print(f"OK: {ncases} parameter sets x 3 models agree with d s/dr, d2 s/dr2 of the documented potentials")
sys.exit(0)
