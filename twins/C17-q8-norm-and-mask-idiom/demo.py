"""Demo for the idiom rewrite inside PyMatterSim.static.geometric.q8_tetrahedral.

Checks the public function against
  * the exact value 1 on a perfect diamond lattice (bonds crossing the boundary),
  * an independent brute-force reference (fractional-coordinate minimum image,
    full argsort for the four nearest neighbours, explicit pair-angle sum)
    on random configurations: orthogonal box, triclinic box with positive and
    negative tilts, a non-periodic direction, the minimal N = 5 system and a
    two-frame trajectory with an output file.
Exits 0 when everything agrees.
"""
import os
import shutil
import sys
import tempfile

import numpy as np

from PyMatterSim.reader.reader_utils import SingleSnapshot, Snapshots
from PyMatterSim.static.geometric import q8_tetrahedral


def make_snapshot(positions, hmatrix, step=0):
    positions = np.asarray(positions, dtype=float)
    hmatrix = np.asarray(hmatrix, dtype=float)
    boxlength = np.diag(hmatrix).copy()
    bounds = np.column_stack((np.zeros(len(boxlength)), boxlength))
    return SingleSnapshot(
        timestep=step,
        nparticle=positions.shape[0],
        particle_type=np.ones(positions.shape[0], dtype=int),
        positions=positions,
        boxlength=boxlength,
        boxbounds=bounds,
        realbounds=bounds,
        hmatrix=hmatrix,
    )


def reference(positions, hmatrix, ppp):
    positions = np.asarray(positions, dtype=float)
    hmatrix = np.asarray(hmatrix, dtype=float)
    npart = positions.shape[0]
    hinv = np.linalg.inv(hmatrix)
    out = np.zeros(npart)
    for i in range(npart):
        best = []
        for j in range(npart):
            if j == i:
                continue
            frac = (positions[j] - positions[i]) @ hinv
            frac = frac - np.rint(frac) * np.asarray(ppp)
            vec = frac @ hmatrix
            best.append((float(np.sqrt(vec @ vec)), vec))
        best.sort(key=lambda item: item[0])
        four = best[:4]
        acc = 0.0
        for a in range(3):
            for b in range(a + 1, 4):
                cosine = float(four[a][1] @ four[b][1]) / (four[a][0] * four[b][0])
                acc += (cosine + 1.0 / 3.0) ** 2
        out[i] = 1.0 - 3.0 / 32.0 * acc
    return out


def diamond(ncell, a):
    basis = np.array(
        [[0, 0, 0], [0, 2, 2], [2, 0, 2], [2, 2, 0], [1, 1, 1], [1, 3, 3], [3, 1, 3], [3, 3, 1]],
        dtype=float,
    ) / 4.0
    cells = np.array([[i, j, k] for i in range(ncell) for j in range(ncell) for k in range(ncell)], dtype=float)
    frac = (cells[:, None, :] + basis[None, :, :]).reshape(-1, 3)
    return frac * a, np.diag([ncell * a] * 3)


def main():
    failures = 0
    rng = np.random.default_rng(20260929)
    tmpdir = tempfile.mkdtemp()
    try:
        # 1. perfect tetrahedral coordination -> exactly one (to rounding)
        pos, hmat = diamond(2, 1.7)
        pos = pos + 0.123  # shift so that bonds cross the periodic boundary
        res = q8_tetrahedral(Snapshots(1, [make_snapshot(pos, hmat)]))
        if res.shape != (1, 64) or not np.allclose(res, 1.0, rtol=0, atol=1e-12):
            print("FAIL diamond orthogonal", np.abs(res - 1).max())
            failures += 1
        else:
            print("ok   diamond orthogonal: max |q-1| =", np.abs(res - 1).max())

        # 2. random configurations against the brute-force reference
        boxes = {
            "orthogonal": np.diag([6.0, 7.0, 5.5]),
            "triclinic+": np.array([[6.0, 0, 0], [1.1, 6.5, 0], [0.7, -0.4, 5.8]]),
            "triclinic-": np.array([[6.0, 0, 0], [-2.3, 6.5, 0], [-1.2, 1.9, 5.8]]),
        }
        for name, hmat in boxes.items():
            for ppp in ([1, 1, 1], [1, 1, 0], [0, 0, 0]):
                npart = 40
                pos = rng.uniform(0, 1, size=(npart, 3)) @ hmat
                got = q8_tetrahedral(Snapshots(1, [make_snapshot(pos, hmat)]), ppp=np.array(ppp))
                want = reference(pos, hmat, ppp)
                if got.shape != (1, npart) or not np.allclose(got[0], want, rtol=1e-10, atol=1e-10):
                    print(f"FAIL {name} ppp={ppp}: max diff", np.abs(got[0] - want).max())
                    failures += 1
                else:
                    print(f"ok   {name} ppp={ppp}")

        # 3. minimal system N = 5 (every other particle is one of the four neighbours)
        hmat = np.array([[4.0, 0, 0], [-0.9, 4.2, 0], [0.5, 0.6, 3.9]])
        pos = rng.uniform(0, 1, size=(5, 3)) @ hmat
        got = q8_tetrahedral(Snapshots(1, [make_snapshot(pos, hmat)]))
        want = reference(pos, hmat, [1, 1, 1])
        if not np.allclose(got[0], want, rtol=1e-10, atol=1e-10):
            print("FAIL N=5", got, want)
            failures += 1
        else:
            print("ok   N=5")

        # 4. two frames + output file
        hmat = np.diag([5.0, 5.0, 5.0])
        frames = [rng.uniform(0, 5, size=(25, 3)) for _ in range(2)]
        snaps = Snapshots(2, [make_snapshot(p, hmat, step=k) for k, p in enumerate(frames)])
        outfile = os.path.join(tmpdir, "q8.npy")
        got = q8_tetrahedral(snaps, outputfile=outfile)
        want = np.array([reference(p, hmat, [1, 1, 1]) for p in frames])
        saved = np.load(outfile)
        if not (np.allclose(got, want, rtol=1e-10, atol=1e-10) and np.array_equal(saved, got)):
            print("FAIL two frames / output file")
            failures += 1
        else:
            print("ok   two frames / output file")
    finally:
        shutil.rmtree(tmpdir, ignore_errors=True)
    return 1 if failures else 0


if __name__ == "__main__":
    sys.exit(main())
