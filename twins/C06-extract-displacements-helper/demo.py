"""Standalone demo for a behaviour-preserving refactoring of PyMatterSim/dynamic/dynamics.py.

Run as:  PYTHONPATH=<worktree> /venv/bin/python demo.py

Synthetic trajectories (2D and 3D, orthogonal and triclinic cells with negative
tilt, unwrapped / wrapped / both coordinate sets, per-frame boolean selections of
varying size, shuffled neighbour files with unequal coordination numbers, slow and
fast mode, non-default qconst / a / dt / max_neighbors) are pushed through the
public API (Dynamics.relaxation, Dynamics.sq4, LogDynamics.relaxation,
cage_relative, alpha2factor) and compared with a straightforward reference
implementation of the definitions written below.  Exits 0 when everything agrees.
"""

import logging
import os
import shutil
import sys
import tempfile
import warnings

import numpy as np

from PyMatterSim.dynamic.dynamics import Dynamics, LogDynamics, cage_relative
from PyMatterSim.reader.reader_utils import SingleSnapshot, Snapshots
from PyMatterSim.utils.funcs import alpha2factor

FOCUS = "extract-displacements-helper"
TOL = 1e-9
FAILURES = []


def check(name, got, expected, tol=TOL):
    got = np.asarray(got, dtype=float)
    expected = np.asarray(expected, dtype=float)
    if got.shape != expected.shape:
        FAILURES.append(f"{name}: shape {got.shape} != {expected.shape}")
        return
    if got.size == 0:
        return
    err = np.max(np.abs(got - expected) / (1.0 + np.abs(expected)))
    if not np.isfinite(err) or err > tol:
        FAILURES.append(f"{name}: max scaled error {err:.3e}")


# --------------------------------------------------------------------------
# synthetic input
# --------------------------------------------------------------------------
def make_cell(ndim, triclinic, rng):
    lengths = rng.uniform(6.0, 8.0, size=ndim)
    h = np.diag(lengths)
    if triclinic:
        # rows are cell vectors; negative and positive tilts
        h[1, 0] = -0.23 * lengths[0]
        if ndim == 3:
            h[2, 0] = 0.17 * lengths[0]
            h[2, 1] = -0.11 * lengths[1]
    return lengths, h


def make_traj(ndim, nframes, npart, rng, triclinic=False, step=0.12, stride=50, kind="diffusive"):
    """return (xu_snapshots, x_snapshots) describing the same motion"""
    lengths, h = make_cell(ndim, triclinic, rng)
    hinv = np.linalg.inv(h)
    ptype = rng.integers(1, 3, size=npart)
    ptype[0], ptype[1] = 1, 2
    frac = rng.uniform(0.0, 1.0, size=(npart, ndim))
    pos = frac @ h
    velocity = rng.normal(scale=step, size=(npart, ndim))
    xu_list, x_list = [], []
    bounds = np.column_stack((np.zeros(ndim), lengths))
    for n in range(nframes):
        if n > 0:
            if kind == "diffusive":
                pos = pos + rng.normal(scale=step, size=(npart, ndim))
            elif kind == "ballistic":
                pos = pos + velocity
            elif kind == "mixed":
                jump = rng.normal(scale=step, size=(npart, ndim))
                jump[: npart // 2] *= 0.05  # arrested half
                pos = pos + jump
            else:
                raise ValueError(kind)
        scaled = pos @ hinv
        wrapped = (scaled - np.floor(scaled)) @ h
        common = dict(
            timestep=1000 + n * stride,
            nparticle=npart,
            particle_type=ptype.copy(),
            boxlength=lengths.copy(),
            boxbounds=bounds.copy(),
            realbounds=bounds.copy(),
            hmatrix=h.copy(),
        )
        xu_list.append(SingleSnapshot(positions=pos.copy(), **common))
        x_list.append(SingleSnapshot(positions=wrapped.copy(), **common))
    return Snapshots(nframes, xu_list), Snapshots(nframes, x_list)


def make_neighbors(nframes, npart, rng, max_cn=5):
    """list (per frame) of lists (per particle) of 0-based neighbour ids, unequal lengths"""
    frames = []
    for _ in range(nframes):
        frame = []
        for i in range(npart):
            cn = int(rng.integers(1, max_cn + 1))
            others = np.delete(np.arange(npart), i)
            frame.append(list(rng.choice(others, size=cn, replace=False)))
        frames.append(frame)
    return frames


def write_neighbors(filename, frames, rng):
    """neighbour file in the library's format; lines in shuffled (unsorted id) order"""
    with open(filename, "w", encoding="utf-8") as f:
        for frame in frames:
            f.write("id cn neighborlist\n")
            for i in rng.permutation(len(frame)):
                ids = " ".join(str(int(j) + 1) for j in frame[i])
                f.write(f"{i + 1} {len(frame[i])} {ids}\n")


# --------------------------------------------------------------------------
# reference implementation of the definitions
# --------------------------------------------------------------------------
def ref_displacement(snaps, n0, n1, pbc, ppp, neighbors, max_neighbors):
    d = snaps.snapshots[n1].positions - snaps.snapshots[n0].positions
    if pbc:
        h = snaps.snapshots[n0].hmatrix
        s = np.linalg.solve(h.T, d.T).T  # fractional coordinates, d = s @ h
        s = s - np.rint(s) * np.asarray(ppp)[None, :]
        d = s @ h
    if neighbors is not None:
        out = np.empty_like(d)
        for i in range(d.shape[0]):
            neigh = [int(j) for j in neighbors[n0][i][:max_neighbors]]
            out[i] = d[i] - np.mean([d[j] for j in neigh], axis=0)
        d = out
    return d


def ref_pair(d, diam, qconst, a, cal_type, sel):
    if sel is not None:
        d = d[sel]
        diam = diam[sel]
    q = qconst / diam
    fs = np.mean([np.cos(q[i] * d[i, k]) for i in range(d.shape[0]) for k in range(d.shape[1])])
    dr2 = np.array([sum(x * x for x in row) for row in d])
    cut2 = (a * diam) ** 2
    overlap = np.mean(dr2 < cut2) if cal_type == "slow" else np.mean(dr2 > cut2)
    return fs, overlap, np.mean(dr2), np.mean(dr2 ** 2)


def ref_alpha2_prefactor(ndim):
    return {2: 1.0 / 2.0, 3: 3.0 / 5.0}[ndim]


def ref_linear(snaps, ndim, dt, diameters, qconst, a, cal_type, pbc, ppp, condition, neighbors, max_neighbors):
    T = snaps.nsnapshots
    diam = np.array([diameters[int(t)] for t in snaps.snapshots[0].particle_type])
    rows = []
    stride = snaps.snapshots[1].timestep - snaps.snapshots[0].timestep
    nsel = len(diam) if condition is None else int(np.sum(condition[0]))
    for k in range(1, T):
        vals = []
        for m in range(0, T - k):
            d = ref_displacement(snaps, m, m + k, pbc, ppp, neighbors, max_neighbors)
            sel = None if condition is None else condition[m]
            vals.append(ref_pair(d, diam, qconst, a, cal_type, sel))
        vals = np.array(vals)
        fs, q1, r2, r4 = vals.mean(axis=0)
        q2 = np.mean(vals[:, 1] ** 2)
        rows.append([k * stride * dt, fs, q1, nsel * (q2 - q1 ** 2), r2,
                     ref_alpha2_prefactor(ndim) * r4 / r2 ** 2 - 1.0])
    return np.array(rows)


def ref_log(snaps, ndim, dt, diameters, qconst, a, cal_type, pbc, ppp, condition, neighbors, max_neighbors):
    T = snaps.nsnapshots
    diam = np.array([diameters[int(t)] for t in snaps.snapshots[0].particle_type])
    rows = []
    for n in range(1, T):
        d = ref_displacement(snaps, 0, n, pbc, ppp, neighbors, max_neighbors)
        fs, q1, r2, r4 = ref_pair(d, diam, qconst, a, cal_type, condition)
        t = (snaps.snapshots[n].timestep - snaps.snapshots[0].timestep) * dt
        rows.append([t, fs, q1, 0.0, r2, ref_alpha2_prefactor(ndim) * r4 / r2 ** 2 - 1.0])
    return np.array(rows)


def ref_qvectors(ndim, numofq):
    nhalf = int(numofq / 2)
    grids = np.meshgrid(*([np.arange(-nhalf, nhalf)] * ndim), indexing="ij")
    vecs = np.column_stack([g.ravel() for g in grids])
    norm = np.sqrt((vecs ** 2).sum(axis=1).astype(float))
    keep = (norm == np.round(norm)) & (norm > 0)
    return vecs[keep]


def ref_sq4(dyn_snaps, sq_snaps, ndim, dt, diameters, a, cal_type, pbc, ppp, condition, neighbors,
            max_neighbors, t, qrange):
    T = dyn_snaps.nsnapshots
    diam = np.array([diameters[int(tp)] for tp in dyn_snaps.snapshots[0].particle_type])
    cut2 = (a * diam) ** 2
    stride = dyn_snaps.snapshots[1].timestep - dyn_snaps.snapshots[0].timestep
    lag = int(round(t / (stride * dt)))
    twopidl = 2 * np.pi / sq_snaps.snapshots[0].boxlength
    qint = ref_qvectors(ndim, int(qrange * 2.0 / twopidl.min()))
    total = {}
    for n in range(T - lag):
        d = ref_displacement(dyn_snaps, n, n + lag, pbc, ppp, neighbors, max_neighbors)
        dr2 = (d ** 2).sum(axis=1)
        mobile = dr2 < cut2 if cal_type == "slow" else dr2 > cut2
        if condition is not None:
            mobile = np.logical_and(mobile, np.asarray(condition[n]).astype(bool))
        snap = sq_snaps.snapshots[n]
        qv = qint * (2 * np.pi / snap.boxlength)[None, :]
        pos = snap.positions[mobile]
        rho = np.exp(-1j * (qv @ pos.T)).sum(axis=1) / np.sqrt(pos.shape[0])
        sq = np.round((rho * rho.conj()).real, 8)
        qn = np.round(np.linalg.norm(qv, axis=1), 8)
        for key in np.unique(qn):
            total.setdefault(key, []).append(sq[qn == key].mean())
    keys = sorted(total)
    return np.array([[key, np.mean(total[key])] for key in keys])


# --------------------------------------------------------------------------
# cases
# --------------------------------------------------------------------------
def run_case(tag, tmpdir, rng, ndim, nframes, npart, triclinic, coords, cal_type, use_condition,
             use_neighbors, kind, dt=0.002, qconst=2 * np.pi, a=0.3, max_neighbors=30, sq4_lag=None):
    diameters = {1: 1.0, 2: 0.8}
    xu, x = make_traj(ndim, nframes, npart, rng, triclinic=triclinic, kind=kind)
    if coords == "xu":
        kw = dict(xu_snapshots=xu, x_snapshots=None, ppp=np.zeros(ndim, dtype=int))
        pbc, dyn_snaps, sq_snaps = False, xu, xu
    elif coords == "x":
        kw = dict(xu_snapshots=None, x_snapshots=x, ppp=np.ones(ndim, dtype=int))
        pbc, dyn_snaps, sq_snaps = True, x, x
    else:
        kw = dict(xu_snapshots=xu, x_snapshots=x, ppp=np.ones(ndim, dtype=int))
        pbc, dyn_snaps, sq_snaps = False, xu, x
    ppp = kw["ppp"]

    neighbors, neighborfile = None, ""
    if use_neighbors:
        neighbors = make_neighbors(nframes, npart, rng)
        neighborfile = os.path.join(tmpdir, f"neigh_{tag}.dat")
        write_neighbors(neighborfile, neighbors, rng)

    condition = None
    if use_condition:
        # per-frame masks with a different number of selected particles in each frame
        condition = rng.uniform(size=(nframes, npart)) < 0.6
        condition[:, :3] = True
        condition[0, 3:6] = False
        condition[-1, 3:5] = True

    opts = dict(dt=dt, diameters=diameters, a=a, cal_type=cal_type, neighborfile=neighborfile,
                max_neighbors=max_neighbors)

    # ---- linear sampling ------------------------------------------------
    dyn = Dynamics(**kw, **opts)
    outfile = os.path.join(tmpdir, f"lin_{tag}.csv")
    res = dyn.relaxation(qconst=qconst, condition=condition, outputfile=outfile)
    if list(res.columns) != "t isf Qt X4_Qt msd alpha2".split():
        FAILURES.append(f"{tag}: columns {list(res.columns)}")
    expected = ref_linear(dyn_snaps, ndim, dt, diameters, qconst, a, cal_type, pbc, ppp, condition,
                          neighbors, max_neighbors)
    check(f"{tag}/linear", res.values, expected)
    check(f"{tag}/linear-csv", np.loadtxt(outfile, delimiter=",", skiprows=1, ndmin=2), expected)
    # a second call on the same object gives the same answer (no state leaks between calls)
    check(f"{tag}/linear-again", dyn.relaxation(qconst=qconst, condition=condition).values, expected)

    # wrapped-only input gives the numbers of unwrapped-only input (no displacement > L/2)
    if coords == "x":
        dyn_u = Dynamics(xu_snapshots=xu, x_snapshots=None, ppp=np.zeros(ndim, dtype=int), **opts)
        check(f"{tag}/wrapped==unwrapped",
              res.values, dyn_u.relaxation(qconst=qconst, condition=condition).values, tol=1e-8)

    # ---- four-point structure factor -------------------------------------
    if sq4_lag is not None:
        stride = dyn_snaps.snapshots[1].timestep - dyn_snaps.snapshots[0].timestep
        t = sq4_lag * stride * dt
        qrange = 3.0
        cond4 = None
        if use_condition:
            cond4 = condition.astype(float)  # sq4 accepts 0/1 floats as in the test-suite
        s4file = os.path.join(tmpdir, f"s4_{tag}.csv")
        s4 = dyn.sq4(t=t, qrange=qrange, condition=cond4, outputfile=s4file)
        if list(s4.columns) != ["q", "Sq"]:
            FAILURES.append(f"{tag}: sq4 columns {list(s4.columns)}")
        exp4 = ref_sq4(dyn_snaps, sq_snaps, ndim, dt, diameters, a, cal_type, pbc, ppp, cond4, neighbors,
                       max_neighbors, t, qrange)
        check(f"{tag}/sq4", s4.values, exp4, tol=1e-7)
        if cond4 is not None:
            # boolean masks give the same as 0/1 floats
            check(f"{tag}/sq4-boolmask", dyn.sq4(t=t, qrange=qrange, condition=condition).values, exp4, tol=1e-7)

    # ---- log sampling (first frame is the only origin) -------------------
    logdyn = LogDynamics(**kw, **opts)
    cond_log = None if condition is None else condition[0]
    logfile = os.path.join(tmpdir, f"log_{tag}.csv")
    reslog = logdyn.relaxation(qconst=qconst, condition=cond_log, outputfile=logfile)
    exp_log = ref_log(dyn_snaps, ndim, dt, diameters, qconst, a, cal_type, pbc, ppp, cond_log,
                      neighbors, max_neighbors)
    check(f"{tag}/log", reslog.values, exp_log)
    check(f"{tag}/log-csv", np.loadtxt(logfile, delimiter=",", skiprows=1, ndmin=2), exp_log)
    # row k of the log variant == single-origin value; first lag of linear with T=2 coincides
    if nframes == 2 and condition is None:
        check(f"{tag}/log==linear(T=2)", reslog.values[:, [0, 1, 2, 4, 5]], res.values[:, [0, 1, 2, 4, 5]])


def direct_checks(rng):
    # alpha2 prefactor
    check("alpha2factor(3)", alpha2factor(3), 0.6, tol=1e-15)
    check("alpha2factor(2)", alpha2factor(2), 0.5, tol=1e-15)
    check("alpha2factor()", alpha2factor(), 0.6, tol=1e-15)
    for bad in (1, 4, 0):
        try:
            alpha2factor(bad)
            FAILURES.append(f"alpha2factor({bad}) did not raise")
        except ValueError:
            pass
    # cage_relative on a zero-padded table with unequal coordination numbers
    for ndim in (2, 3):
        d = rng.normal(size=(7, ndim))
        table = np.zeros((7, 5), dtype=np.int32)
        expected = np.empty_like(d)
        for i in range(7):
            cn = 1 + i % 4
            neigh = rng.choice(np.delete(np.arange(7), i), size=cn, replace=False)
            table[i, 0] = cn
            table[i, 1:cn + 1] = neigh
            expected[i] = d[i] - d[neigh].sum(axis=0) / cn
        before = d.copy()
        out = cage_relative(d, table)
        check(f"cage_relative/{ndim}d", out, expected, tol=1e-13)
        if not np.array_equal(d, before) or out is d:
            FAILURES.append("cage_relative modified its input")
        if out.dtype != d.dtype or out.shape != d.shape:
            FAILURES.append("cage_relative dtype/shape changed")


def main():
    warnings.simplefilter("ignore")
    logging.disable(logging.CRITICAL)
    rng = np.random.default_rng(20240606)
    tmpdir = tempfile.mkdtemp()
    try:
        direct_checks(rng)
        cases = [
            # tag, ndim, T, N, triclinic, coords, mode, condition, neighbours, kind, extra
            ("2d-xu-slow", 2, 5, 14, False, "xu", "slow", False, False, "diffusive", dict(sq4_lag=2)),
            ("2d-x-tri-fast-cond", 2, 6, 15, True, "x", "fast", True, False, "mixed", dict(sq4_lag=2, a=0.05)),
            ("2d-both-slow-cond-nb", 2, 4, 13, True, "both", "slow", True, True, "diffusive", dict(sq4_lag=1)),
            ("3d-xu-fast-nb", 3, 5, 12, False, "xu", "fast", False, True, "ballistic",
             dict(qconst=5.3, a=0.45, dt=0.005)),
            ("3d-x-tri-slow-cond-nb", 3, 4, 12, True, "x", "slow", True, True, "diffusive",
             dict(max_neighbors=3, sq4_lag=2, a=0.5)),
            ("3d-both-slow", 3, 3, 11, False, "both", "slow", True, False, "mixed", dict(sq4_lag=1, a=0.6)),
            ("3d-x-two-frames", 3, 2, 10, True, "x", "slow", False, False, "diffusive", dict()),
            ("2d-xu-two-frames-nb", 2, 2, 9, False, "xu", "fast", False, True, "diffusive", dict(sq4_lag=1, a=0.1)),
        ]
        for tag, ndim, T, N, tri, coords, mode, cond, nb, kind, extra in cases:
            run_case(tag, tmpdir, rng, ndim, T, N, tri, coords, mode, cond, nb, kind, **extra)
    finally:
        shutil.rmtree(tmpdir, ignore_errors=True)

    if FAILURES:
        print(f"[{FOCUS}] FAILED:")
        for line in FAILURES:
            print("  ", line)
        return 1
    print(f"[{FOCUS}] all checks passed")
    return 0


if __name__ == "__main__":
    sys.exit(main())
