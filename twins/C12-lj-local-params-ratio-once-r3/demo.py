"""Demo for the twin `lj-local-params-ratio-once`.

Exercises PairInteractions.lennard_jones (directly, through caller and through
HessianMatrix.diagonalize_hessian) together with the two other models, for
both shift settings and python-float / numpy-float inputs, and compares the
returned triple [s1, s1rc, s2] with derivatives obtained symbolically (sympy)
from the documented potentials.  An extra check changes the attributes of one
PairInteractions instance between calls: the parameters must be read at call
time, nothing may be cached between calls.  A small 2D and 3D (triclinic,
negative tilt) hessian is compared with a straightforward reference assembled
in this file.

Exits 0 on the unchanged tree and on the refactored tree.
"""
import itertools
import os
import shutil
import sys
import tempfile
import warnings

import numpy as np
import sympy as sp

from PyMatterSim.reader.reader_utils import SingleSnapshot
from PyMatterSim.static.hessians import (HessianMatrix, InteractionParams,
                                         ModelName, PairInteractions)

warnings.simplefilter("ignore")
RTOL = 1e-10

# ---------------------------------------------------------------- references
r_, e_, s_, n_, A_, a_ = sp.symbols("r epsilon sigma n A alpha", positive=True)
POTENTIALS = {
    ModelName.lennard_jones: 4 * e_ * ((s_ / r_)**12 - (s_ / r_)**6),
    ModelName.inverse_power_law: A_ * e_ * (s_ / r_)**n_,
    ModelName.harmonic_hertz: e_ / a_ * (1 - r_ / s_)**a_,
}
DERIVS = {
    key: (sp.lambdify((r_, e_, s_, n_, A_, a_), sp.diff(pot, r_), "mpmath"),
          sp.lambdify((r_, e_, s_, n_, A_, a_), sp.diff(pot, r_, 2), "mpmath"))
    for key, pot in POTENTIALS.items()
}


def reference(model, r, eps, sig, rc, shift, n, A, alpha):
    """[s', s'(rc) or 0, s''] from symbolic differentiation of s(r)"""
    d1, d2 = DERIVS[model]
    args = (eps, sig, n, A, alpha)
    s1 = float(d1(r, *args))
    s2 = float(d2(r, *args))
    if shift and model != ModelName.harmonic_hertz:
        s1rc = float(d1(rc, *args))
    else:
        s1rc = 0.0
    return [s1, s1rc, s2]


def close(a, b):
    return abs(a - b) <= RTOL * max(abs(a), abs(b), 1e-300)


def check_triples():
    rng = np.random.default_rng(7)
    nchecked = 0
    for trial in range(60):
        sig = float(rng.uniform(0.8, 1.6))
        r = float(rng.uniform(0.35, 0.98)) * sig       # 1 - r/sigma > 0
        eps = float(rng.uniform(0.2, 3.0))
        rc = float(rng.uniform(1.2, 3.0))
        n = [6, 10, 12, 7.5, 18][trial % 5]
        A = float(rng.uniform(0.2, 3.0))
        alpha = [2.0, 2.5, 3, 4.5][trial % 4]
        if trial % 2:
            r, eps, sig, rc = (np.float64(v) for v in (r, eps, sig, rc))
        for shift in (True, False):
            pair = PairInteractions(r, eps, sig, rc, shift=shift)
            params = {
                ModelName.lennard_jones: InteractionParams(
                    ModelName.lennard_jones,
                    # parameters of the other models must be ignored
                    ipl_n=3, ipl_A=9.0, harmonic_hertz_alpha=7),
                ModelName.inverse_power_law: InteractionParams(
                    ModelName.inverse_power_law, ipl_n=n, ipl_A=A,
                    harmonic_hertz_alpha=7),
                ModelName.harmonic_hertz: InteractionParams(
                    ModelName.harmonic_hertz, ipl_n=3, ipl_A=9.0,
                    harmonic_hertz_alpha=alpha),
            }
            direct = {
                ModelName.lennard_jones: pair.lennard_jones(),
                ModelName.inverse_power_law: pair.inverse_power_law(n=n, A=A),
                ModelName.harmonic_hertz: pair.harmonic_hertz(alpha=alpha),
            }
            for model, ip in params.items():
                got = pair.caller(ip)
                assert isinstance(got, list) and len(got) == 3, got
                # the selector returns the triple of the requested model
                assert got == direct[model], (model, got, direct[model])
                exp = reference(model, float(r), float(eps), float(sig),
                                float(rc), shift, n, A, alpha)
                for g, x in zip(got, exp):
                    assert close(float(g), x), (model, shift, got, exp)
                if not shift or model == ModelName.harmonic_hertz:
                    assert got[1] == 0
                nchecked += 1
    return nchecked


# ------------------------------------------------------- hessian reference
def min_image(vec, hmatrix):
    """brute-force minimum image of vec in the cell spanned by rows of hmatrix"""
    ndim = len(vec)
    best = None
    for shifts in itertools.product((-1, 0, 1), repeat=ndim):
        cand = vec + np.array(shifts) @ hmatrix
        if best is None or np.linalg.norm(cand) < np.linalg.norm(best):
            best = cand
    return best


def reference_hessian(pos, types, hmatrix, masses, eps, sig, rcut, shift,
                      model, n, A, alpha):
    npart, ndim = pos.shape
    hess = np.zeros((npart * ndim, npart * ndim))
    for i in range(npart):
        for j in range(npart):
            if i == j:
                continue
            ti, tj = types[i] - 1, types[j] - 1
            rji = min_image(pos[i] - pos[j], hmatrix)
            dist = float(np.linalg.norm(rji))
            if dist > rcut[ti, tj]:
                continue
            s1, s1rc, s2 = reference(model, dist, float(eps[ti, tj]),
                                     float(sig[ti, tj]), float(rcut[ti, tj]),
                                     shift, n, A, alpha)
            unit = rji / dist
            proj = np.outer(unit, unit)
            block = s2 * proj + (s1 - s1rc) / dist * (np.eye(ndim) - proj)
            hess[i * ndim:(i + 1) * ndim, i * ndim:(i + 1) * ndim] += \
                block / np.sqrt(masses[ti + 1] * masses[ti + 1])
            hess[i * ndim:(i + 1) * ndim, j * ndim:(j + 1) * ndim] = \
                -block / np.sqrt(masses[ti + 1] * masses[tj + 1])
    return hess


def check_hessians(tmpdir):
    rng = np.random.default_rng(11)
    nchecked = 0
    for ndim in (2, 3):
        npart = 16
        hmatrix = np.eye(ndim) * 6.0
        hmatrix[1, 0] = -0.8                      # negative tilt
        if ndim == 3:
            hmatrix[2, 0] = 0.5
            hmatrix[2, 1] = -0.4
        pos = rng.uniform(0, 1, (npart, ndim)) @ hmatrix
        types = rng.integers(1, 3, npart)
        snapshot = SingleSnapshot(
            timestep=0, nparticle=npart, particle_type=types, positions=pos,
            boxlength=np.diag(hmatrix).copy(), boxbounds=np.zeros((ndim, 2)),
            realbounds=np.zeros((ndim, 2)), hmatrix=hmatrix)
        masses = {1: 1.0, 2: 2.5}
        eps = np.array([[1.0, 1.5], [1.5, 0.5]])
        sig = np.array([[1.0, 1.2], [1.2, 1.4]])
        cases = [
            (InteractionParams(ModelName.lennard_jones), True, sig * 1.6),
            (InteractionParams(ModelName.inverse_power_law, ipl_n=12, ipl_A=1.5),
             False, sig * 1.8),
            (InteractionParams(ModelName.inverse_power_law, ipl_n=7.5, ipl_A=1.0),
             True, sig * 1.8),
            (InteractionParams(ModelName.harmonic_hertz, harmonic_hertz_alpha=2.5),
             True, sig * 1.0),
        ]
        for ip, shift, rcut in cases:
            hm = HessianMatrix(snapshot, masses, eps, sig, rcut,
                               np.ones(ndim, dtype=int), shiftpotential=shift)
            base = os.path.join(tmpdir, f"h{ndim}")
            hm.diagonalize_hessian(ip, saveevecs=False, savehessian=True,
                                   outputfile=base)
            got = np.load(base + ".hessianmatrix.npy")
            exp = reference_hessian(pos, types, hmatrix, masses, eps, sig, rcut,
                                    shift, ip.model_name, ip.ipl_n, ip.ipl_A,
                                    ip.harmonic_hertz_alpha)
            assert np.count_nonzero(exp) > 0
            scale = np.abs(exp).max()
            assert np.abs(got - exp).max() <= 1e-9 * scale, \
                (ndim, ip, np.abs(got - exp).max(), scale)
            nchecked += 1
    return nchecked


def check_lj_no_state():
    """lennard_jones reads r, epsilon, sigma, r_c, shift at call time"""
    rng = np.random.default_rng(3)
    pair = PairInteractions(1.0, 1.0, 1.0, 2.5, shift=True)
    before = dict(vars(pair))
    for trial in range(40):
        pair.r = float(rng.uniform(0.7, 2.4))
        pair.epsilon = float(rng.uniform(0.1, 2.0))
        pair.sigma = float(rng.uniform(0.8, 1.3))
        pair.r_c = float(rng.uniform(2.0, 3.0))
        pair.shift = bool(trial % 3)
        state = dict(vars(pair))
        got = pair.lennard_jones()
        assert dict(vars(pair)) == state            # no attribute added / changed
        assert set(state) == set(before)
        exp = reference(ModelName.lennard_jones, pair.r, pair.epsilon,
                        pair.sigma, pair.r_c, pair.shift, 0, 0, 0)
        for g, x in zip(got, exp):
            assert close(float(g), x), (got, exp)
        # closed form written out independently (sigma/r)**12 and (sigma/r)**6
        p6 = (pair.sigma / pair.r)**6
        p12 = (pair.sigma / pair.r)**12
        assert close(got[0], -24 * pair.epsilon / pair.r * (2 * p12 - p6))
        assert close(got[2], 24 * pair.epsilon / pair.r**2 * (26 * p12 - 7 * p6))
        if not pair.shift:
            assert got[1] == 0 and isinstance(got[1], int)


def main():
    tmpdir = tempfile.mkdtemp()
    try:
        ntriples = check_triples()
        nhess = check_hessians(tmpdir)
        check_lj_no_state()
    finally:
        shutil.rmtree(tmpdir)
    print(f"OK: {ntriples} triples and {nhess} hessians agree with the references")
    return 0


if __name__ == "__main__":
    sys.exit(main())
