"""Demo for spatial_average: mean over a particle and its listed neighbours.

Run: PYTHONPATH=<worktree> /venv/bin/python demo.py
Exits 0 on the unchanged and on the refactored tree.
"""
import os
import shutil
import sys
import tempfile

import numpy as np

from PyMatterSim.utils.coarse_graining import spatial_average

rng = np.random.default_rng(11)
failures = 0


def check(name, ok):
    global failures
    if not ok:
        failures += 1
    print(("ok   " if ok else "FAIL ") + name)


def random_neighbor_table(nsnap, npart, maxcn):
    """per frame: list of (particle index, [neighbour indices]) in file (unsorted) order"""
    frames = []
    for _ in range(nsnap):
        rows = []
        for i in rng.permutation(npart):
            cn = int(rng.integers(0, maxcn + 1))
            others = [k for k in range(npart) if k != i]
            rows.append((int(i), [int(k) for k in rng.choice(others, size=cn, replace=False)]))
        # make sure the edge cases are present: an isolated particle and a full row
        rows[0] = (rows[0][0], [])
        full = [k for k in range(npart) if k != rows[1][0]][:maxcn]
        rows[1] = (rows[1][0], full)
        frames.append(rows)
    return frames


def write_table(path, frames):
    with open(path, "w", encoding="utf-8") as f:
        for rows in frames:
            f.write("id     cn     neighborlist\n")
            for i, nb in rows:
                f.write("%d %d %s\n" % (i + 1, len(nb), " ".join(str(k + 1) for k in nb)))


def reference(prop, frames, nmax):
    """mean over the particle itself and its (first nmax) listed neighbours"""
    ref = np.zeros(prop.shape, dtype=prop.dtype)
    for n, rows in enumerate(frames):
        for i, nb in rows:
            nb = nb[:nmax]
            acc = prop[n, i].copy() if prop.ndim > 2 else prop[n, i]
            for j in nb:
                acc = acc + prop[n, j]
            ref[n, i] = acc / (1 + len(nb))
    return ref


tmp = tempfile.mkdtemp()
try:
    nsnap, npart, maxcn = 3, 12, 7
    frames = random_neighbor_table(nsnap, npart, maxcn)
    nfile = os.path.join(tmp, "neighborlist.dat")
    write_table(nfile, frames)

    shapes = {"scalar": (nsnap, npart), "vector2": (nsnap, npart, 2),
              "vector3": (nsnap, npart, 3), "tensor": (nsnap, npart, 3, 3)}
    for name, shape in shapes.items():
        for kind in ("float", "complex"):
            prop = rng.normal(size=shape)
            if kind == "complex":
                prop = prop + 1j * rng.normal(size=shape)
            before = prop.copy()
            for nmax in (30, maxcn, 3):          # default, exactly max cn, truncating
                got = spatial_average(prop, nfile, Nmax=nmax)
                ref = reference(prop, frames, nmax)
                tag = f"{name} {kind} Nmax={nmax}"
                check(tag + " values", got.shape == prop.shape and got.dtype == prop.dtype
                      and np.allclose(got, ref, rtol=1e-12, atol=1e-14))
            check(f"{name} {kind} input untouched", np.array_equal(prop, before))

    # isolated particle keeps its own value, frame by frame
    prop = rng.normal(size=(nsnap, npart, 2))
    got = spatial_average(prop, nfile)
    for n, rows in enumerate(frames):
        lonely = rows[0][0]
        check(f"frame {n} isolated particle unchanged", np.array_equal(got[n, lonely], prop[n, lonely]))

    # output file holds the returned array
    outfile = os.path.join(tmp, "cg.npy")
    got = spatial_average(prop, nfile, Nmax=30, outputfile=outfile)
    check("output file equals return value", np.array_equal(np.load(outfile), got))

    # single frame, all particles with the same coordination number (no zero padding)
    frames1 = [[(i, [(i + 1) % 5, (i + 4) % 5]) for i in (3, 0, 4, 2, 1)]]
    nfile1 = os.path.join(tmp, "ring.dat")
    write_table(nfile1, frames1)
    prop1 = np.array([[1.0, 2.0, 4.0, 8.0, 16.0]])
    got = spatial_average(prop1, nfile1)
    expect = np.array([[19.0, 7.0, 14.0, 28.0, 25.0]]) / 3
    check("ring hand values", np.allclose(got, expect, rtol=1e-13))
finally:
    shutil.rmtree(tmp)

print("failures:", failures)
sys.exit(1 if failures else 0)
