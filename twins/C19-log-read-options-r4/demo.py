"""Demo for the refactoring 'log-read-options'.

Exercises PyMatterSim.reader.simulation_log.read_lammpslog on synthetic LAMMPS
log files with 0, 1, 2 and 4 run sections (different column sets and lengths
per section, a section with a single row, text between the sections, file
ending with / without trailing text or a blank line) and on an unfinished log.
Every complete thermodynamic section must come back in full: same column
names, same number of rows, same values (compared with the arrays the file was
written from).  Exits 0 on success.
"""
import logging
import os
import shutil
import sys
import tempfile

import numpy as np

from PyMatterSim.reader.simulation_log import read_lammpslog

logging.disable(logging.CRITICAL)

COLUMN_SETS = [
    ["Step", "Temp", "E_pair", "TotEng", "Press"],
    ["Step", "Temp", "PotEng", "KinEng", "TotEng", "Press", "Volume"],
    ["Step", "CPU", "Temp"],
    ["Step", "Temp", "Density", "Lx", "Ly", "Lz", "Pxy"],
]


def make_section(rng, columns, nrows, first_step):
    table = np.round(rng.normal(scale=50.0, size=(nrows, len(columns))), 6)
    table[:, 0] = first_step + 100 * np.arange(nrows)
    lines = [" ".join(columns) + " "]
    for row in table:
        lines.append("%8d " % int(row[0]) + " ".join("%.6f" % v for v in row[1:]))
    return table, lines


def write_log(fname, rng, nrows_list, tail, finished=True):
    """returns list of (columns, table) of the sections written"""
    sections = []
    lines = ["LAMMPS (2 Aug 2023)", "units lj", "", "Reading data file ...",
             "  orthogonal box = (0 0 0) to (10 10 10)"]
    step = 0
    for k, nrows in enumerate(nrows_list):
        columns = COLUMN_SETS[k % len(COLUMN_SETS)]
        lines.append("run %d" % (100 * nrows))
        lines.append("Per MPI rank memory allocation (min/avg/max) = 3.1 | 3.1 | 3.1 Mbytes")
        table, sec_lines = make_section(rng, columns, nrows, step)
        lines.extend(sec_lines)
        last = (k == len(nrows_list) - 1)
        if finished or not last:
            lines.append("Loop time of 1.23 on 4 procs for %d steps with 500 atoms" % (100 * nrows))
            lines.append("Performance: 1000.0 tau/day, 80.0 timesteps/s")
            lines.append("Total # of neighbors = 12345")
        sections.append((columns, table))
        step += 100 * nrows
    lines.extend(tail)
    with open(fname, "w", encoding="utf-8") as f:
        f.write("\n".join(lines) + "\n")
    return sections


def check_frame(frame, columns, table):
    assert list(frame.columns) == columns, (list(frame.columns), columns)
    assert frame.shape == table.shape, (frame.shape, table.shape)
    values = frame.values.astype(float)
    assert np.allclose(values, table, rtol=1e-12, atol=1e-12)
    assert np.array_equal(frame["Step"].values, table[:, 0].astype(int))


def main():
    rng = np.random.default_rng(77)
    tmp = tempfile.mkdtemp()
    try:
        cases = [
            ([], ["Total wall time: 0:00:00"]),
            ([5], ["Total wall time: 0:00:01"]),
            ([5], []),
            ([1], ["Total wall time: 0:00:01"]),
            ([7, 3], ["Total wall time: 0:00:02", ""]),
            ([4, 1, 12, 2], ["Total wall time: 0:00:09"]),
            ([30, 30], []),
        ]
        for n, (nrows_list, tail) in enumerate(cases):
            fname = os.path.join(tmp, "log_%d.lammps" % n)
            sections = write_log(fname, rng, nrows_list, tail)
            frames = read_lammpslog(fname)
            assert isinstance(frames, list)
            assert len(frames) == len(sections), (n, len(frames), len(sections))
            for frame, (columns, table) in zip(frames, sections):
                check_frame(frame, columns, table)

        # unfinished log: the last section has no "Loop time of" line; the
        # complete sections must still be returned in full, and the unfinished
        # one is a leading part of what was written (never invented rows).
        fname = os.path.join(tmp, "log_unfinished.lammps")
        sections = write_log(fname, rng, [6, 9], [], finished=False)
        frames = read_lammpslog(fname)
        assert len(frames) == 2
        check_frame(frames[0], *sections[0])
        columns, table = sections[1]
        nread = frames[1].shape[0]
        assert 0 < nread <= table.shape[0]
        check_frame(frames[1], columns, table[:nread])
    finally:
        shutil.rmtree(tmp, ignore_errors=True)
    print("log-read-options demo: OK")
    return 0


if __name__ == "__main__":
    sys.exit(main())
