"""demo for the refactoring 'coarse-graining-itertools'
(time_average: the append loop for the middle snapshot ids became a list comprehension;
gaussian_blurring: the nested index loops filling the grid became enumerate(itertools.product(...)))

run: PYTHONPATH=<worktree> /venv/bin/python demo.py [--dump out.pkl]
exits 0 on the unchanged and on the refactored tree.
"""
import logging
import os
import pickle
import shutil
import sys
import tempfile
import warnings

import numpy as np

from PyMatterSim.reader.reader_utils import SingleSnapshot, Snapshots
from PyMatterSim.utils.coarse_graining import gaussian_blurring, time_average

logging.disable(logging.CRITICAL)


def make_snapshots(rng, nparticle, hmatrix, lower, nsnap, step=50):
    ndim = hmatrix.shape[0]
    lower = np.asarray(lower, dtype=float)
    boxlength = np.diag(hmatrix).copy()
    bounds = np.column_stack((lower, lower + boxlength))
    snaps = []
    for n in range(nsnap):
        positions = lower + rng.uniform(0, 1, size=(nparticle, ndim)) @ hmatrix
        snaps.append(SingleSnapshot(
            timestep=1000 + step * n, nparticle=nparticle,
            particle_type=rng.integers(1, 3, size=nparticle).astype(np.int32),
            positions=positions, boxlength=boxlength.copy(), boxbounds=bounds.copy(),
            realbounds=bounds.copy(), hmatrix=hmatrix.copy()))
    return Snapshots(nsnap, snaps)


def fingerprint(snapshots, *arrays):
    out = []
    for s in snapshots.snapshots:
        for arr in (s.particle_type, s.positions, s.boxlength, s.boxbounds, s.realbounds, s.hmatrix):
            out.append((arr.dtype.str, arr.shape, arr.tobytes()))
    for arr in arrays:
        out.append((arr.dtype.str, arr.shape, arr.tobytes()))
    return out


# ------------------------------------------------------------------ time_average
def check_time_average(rng, dump):
    nsnap, nparticle, step, dt = 9, 7, 50, 0.002
    snapshots = make_snapshots(rng, nparticle, np.diag([5.0, 5.0]), [0, 0], nsnap, step)
    interval = step * dt
    props = {
        "real": rng.normal(size=(nsnap, nparticle)),
        "complex": rng.normal(size=(nsnap, nparticle)) + 1j * rng.normal(size=(nsnap, nparticle)),
    }
    for pname, prop in props.items():
        for window in (1, 2, 3, 4, 5, 8, 9):          # odd and even windows, up to the whole trajectory
            period = (window + 0.4) * interval
            fp = fingerprint(snapshots, prop)
            averaged, middle = time_average(snapshots, prop, time_period=period, dt=dt)
            assert fingerprint(snapshots, prop) == fp
            nout = nsnap - window
            assert averaged.shape == (nout, nparticle) and averaged.dtype == np.complex128
            expect = np.array([prop[n:n + window].sum(axis=0) / window for n in range(nout)]).reshape(nout, nparticle)
            assert np.allclose(averaged, expect, rtol=1e-12, atol=1e-13)
            assert middle.shape == (nout,)
            assert np.array_equal(middle, np.arange(nout) + window // 2)
            if nout:
                assert middle.dtype.kind == "i"
            again, middle2 = time_average(snapshots, prop, time_period=period, dt=dt)
            assert np.array_equal(averaged, again) and np.array_equal(middle, middle2)
            assert middle.dtype == middle2.dtype
            dump[f"time_average/{pname}/{window}"] = (averaged, middle)
    # default time_period=0.0: windows of length zero -> NaN rows, ids 0..nsnap-1 (behaviour of today)
    with warnings.catch_warnings():
        warnings.simplefilter("ignore")
        averaged, middle = time_average(snapshots, props["real"])
    assert averaged.shape == (nsnap, nparticle) and np.isnan(averaged).all()
    assert np.array_equal(middle, np.arange(nsnap))
    dump["time_average/default"] = (averaged, middle)


# ------------------------------------------------------------------ gaussian_blurring
def ref_gaussian_blurring(snapshots, condition, ngrids, sigma, ppp, cut):
    ndim = len(ngrids)
    ppp = np.asarray(ppp)[:ndim]
    ngrid = int(np.prod(ngrids))
    positions = np.zeros((snapshots.nsnapshots, ngrid, ndim))
    values = np.zeros((condition.shape[0], ngrid) + condition.shape[2:])
    for n, snap in enumerate(snapshots.snapshots):
        axes = [np.linspace(snap.boxbounds[d, 0], snap.boxbounds[d, 1], ngrids[d]) for d in range(ndim)]
        mesh = np.meshgrid(*axes, indexing="ij")
        positions[n] = np.stack([m.ravel() for m in mesh], axis=1)      # C order: last axis fastest
        hinv = np.linalg.inv(snap.hmatrix)
        for g in range(ngrid):
            d = positions[n, g] - snap.positions
            s = d @ hinv
            d = (s - np.rint(s) * ppp) @ snap.hmatrix
            r = np.sqrt((d * d).sum(axis=1))
            for p in range(snap.nparticle):
                if r[p] < cut:
                    w = np.exp(-r[p] ** 2 / (2 * sigma**2)) / np.sqrt(2 * sigma**2 * np.pi)
                    values[n, g] += w * condition[n, p]
    return positions, values


def check_gaussian_blurring(rng, tmpdir, dump):
    cases = {
        # name: (hmatrix, lower, ngrids, ppp, trailing shape of the property)
        "2d_scalar": (np.diag([6.0, 4.0]), [-3.0, 1.0], [5, 3], [1, 1, 1], ()),
        "2d_vector_tri": (np.array([[6.0, 0.0], [-1.5, 4.0]]), [0.0, 0.0], [3, 4], [1, 1], (2,)),
        "2d_tensor_nopbc_y": (np.diag([5.0, 5.0]), [2.0, -7.0], [4, 2], [1, 0], (2, 2)),
        "3d_scalar_tri": (np.array([[5.0, 0, 0], [0.7, 4.0, 0], [-0.6, 0.9, 6.0]]), [0, 0, 0], [3, 2, 4], [1, 1, 1], ()),
        "3d_vector": (np.diag([4.0, 5.0, 6.0]), [-2.0, 0.5, 10.0], [2, 4, 3], [1, 1, 0], (3,)),
        "3d_tensor": (np.diag([4.0, 4.0, 4.0]), [0, 0, 0], [1, 3, 2], [1, 1, 1], (3, 3)),
        "2d_single_cell_grid": (np.diag([6.0, 4.0]), [0.0, 0.0], [1, 1], [1, 1], ()),
    }
    for name, (hmatrix, lower, ngrids, ppp, tail) in cases.items():
        nsnap, nparticle = 2, 17
        snapshots = make_snapshots(rng, nparticle, hmatrix, lower, nsnap)
        condition = rng.normal(size=(nsnap, nparticle) + tail)
        ngrids_arr = np.array(ngrids)
        ppp_arr = np.array(ppp)
        sigma, cut = 1.3, 2.6
        fp = fingerprint(snapshots, condition, ngrids_arr, ppp_arr)
        out = os.path.join(tmpdir, name)
        pos, val = gaussian_blurring(snapshots, condition, ngrids_arr, sigma=sigma, ppp=ppp_arr,
                                     gaussian_cut=cut, outputfile=out)
        assert fingerprint(snapshots, condition, ngrids_arr, ppp_arr) == fp
        rpos, rval = ref_gaussian_blurring(snapshots, condition, ngrids, sigma, ppp, cut)
        assert pos.shape == rpos.shape and val.shape == rval.shape
        assert np.array_equal(pos, rpos), name          # grid points: same linspace values, same order
        assert np.allclose(val, rval, rtol=1e-10, atol=1e-12), name
        assert np.array_equal(np.load(out + "_positions.npy"), pos)
        assert np.array_equal(np.load(out + "_properties.npy"), val)
        # plain python list for ngrids and a second call: identical, and no file without outputfile
        listing = sorted(os.listdir(tmpdir))
        pos2, val2 = gaussian_blurring(snapshots, condition, list(ngrids), sigma=sigma, ppp=ppp_arr, gaussian_cut=cut)
        assert sorted(os.listdir(tmpdir)) == listing
        assert np.array_equal(pos, pos2) and np.array_equal(val, val2)
        dump["gaussian_blurring/" + name] = (pos, val)

    # wrong rank of the property is still rejected
    snapshots = make_snapshots(rng, 5, np.diag([3.0, 3.0]), [0, 0], 1)
    try:
        gaussian_blurring(snapshots, rng.normal(size=5), np.array([2, 2]), ppp=np.array([1, 1]))
    except ValueError as err:
        assert "Wrong input condition variable" in str(err)
    else:
        raise AssertionError("expected ValueError")


def main():
    rng = np.random.default_rng(909)
    tmpdir = tempfile.mkdtemp()
    dump = {}
    try:
        check_time_average(rng, dump)
        check_gaussian_blurring(rng, tmpdir, dump)
    finally:
        shutil.rmtree(tmpdir, ignore_errors=True)
    if "--dump" in sys.argv:
        with open(sys.argv[sys.argv.index("--dump") + 1], "wb") as f:
            pickle.dump(dump, f)
    print("coarse-graining-itertools demo OK")


if __name__ == "__main__":
    main()
