"""Demo for static.boo.boo_3d.sij_ql_Ql.

Synthetic 3D trajectories (orthogonal and triclinic with negative tilt, two frames), neighbour
file with unequal coordination numbers (zero padded table) written with shuffled line order:
  * sij table (id, CN, sij...) agrees with an independent reference built from scipy's
    spherical harmonics, for local and coarse-grained, l = 4 and 6, two cut-offs c;
  * the files written (csv of bond counts, txt of sij) hold the returned / computed values;
  * snapshot arrays and the neighbour file are unchanged, repeated calls agree bit for bit;
  * ql_Ql (same object) is unchanged by sij_ql_Ql in between.
"""

import os
import shutil
import sys
import tempfile

import numpy as np
import pandas as pd
from scipy.special import sph_harm_y

from PyMatterSim.reader.reader_utils import SingleSnapshot, Snapshots
from PyMatterSim.static.boo import boo_3d


def make_snapshots(nparticle, nframes, tilt, rng):
    boxlength = np.array([5.0, 5.5, 6.0])
    hmatrix = np.diag(boxlength)
    hmatrix[1, 0] = tilt
    frames = []
    for n in range(nframes):
        positions = rng.random((nparticle, 3)) @ hmatrix
        bounds = np.column_stack((np.zeros(3), boxlength))
        frames.append(
            SingleSnapshot(
                timestep=n,
                nparticle=nparticle,
                particle_type=np.ones(nparticle, dtype=int),
                positions=positions,
                boxlength=boxlength.copy(),
                boxbounds=bounds,
                realbounds=bounds.copy(),
                hmatrix=hmatrix.copy(),
            )
        )
    return Snapshots(nsnapshots=nframes, snapshots=frames)


def min_image(d, hmatrix):
    frac = d @ np.linalg.inv(hmatrix)
    frac = frac - np.rint(frac)
    return frac @ hmatrix


def build_neighbors(snapshots, rng):
    """k nearest neighbours with k varying from particle to particle (1 .. 9)"""
    lists = []
    for s in snapshots.snapshots:
        frame = []
        for i in range(s.nparticle):
            d = min_image(s.positions - s.positions[i], s.hmatrix)
            dist = np.sqrt((d * d).sum(axis=1))
            dist[i] = np.inf
            k = int(rng.integers(1, 10))
            frame.append(np.argsort(dist)[:k])
        lists.append(frame)
    return lists


def write_neighbors(path, lists, rng):
    with open(path, "w", encoding="utf-8") as f:
        for frame in lists:
            f.write("id   cn   neighborlist\n")
            order = rng.permutation(len(frame))  # unsorted ids
            for i in order:
                f.write("%d %d " % (i + 1, len(frame[i])) + " ".join(str(j + 1) for j in frame[i]) + " \n")


def reference(snapshots, lists, l, coarse, c):
    ms = np.arange(-l, l + 1)
    tables = []
    counts = []
    for s, frame in zip(snapshots.snapshots, lists):
        q = np.zeros((s.nparticle, 2 * l + 1), dtype=complex)
        for i, neigh in enumerate(frame):
            d = min_image(s.positions[neigh] - s.positions[i], s.hmatrix)
            r = np.sqrt((d * d).sum(axis=1))
            polar = np.arccos(d[:, 2] / r)
            azimuth = np.arctan2(d[:, 1], d[:, 0])
            q[i] = sph_harm_y(l, ms[np.newaxis, :], polar[:, np.newaxis], azimuth[:, np.newaxis]).mean(axis=0)
        if coarse:
            big = np.zeros_like(q)
            for i, neigh in enumerate(frame):
                big[i] = (q[i] + q[neigh].sum(axis=0)) / (1 + len(neigh))
            q = big
        norm = np.sqrt((np.abs(q) ** 2).sum(axis=1))
        rows = []
        nbond = []
        for i, neigh in enumerate(frame):
            sij = [(q[i] * np.conj(q[j])).sum().real / (norm[i] * norm[j]) for j in neigh]
            rows.append(sij)
            nbond.append(sum(1 for v in np.float32(sij) if v > c))
        tables.append(rows)
        counts.append(nbond)
    return tables, counts


def freeze(snapshots):
    out = []
    for s in snapshots.snapshots:
        for a in (s.particle_type, s.positions, s.boxlength, s.boxbounds, s.realbounds, s.hmatrix):
            out.append(np.array(a, copy=True))
    return out


def same(a, b):
    return all(x.dtype == y.dtype and x.shape == y.shape and x.tobytes() == y.tobytes() for x, y in zip(a, b))


def stack(result):
    """sij_ql_Ql returns a list of per-frame arrays (or one array once a file was requested)"""
    if isinstance(result, list):
        return np.concatenate(result, axis=0)
    return np.asarray(result)


def main():
    rng = np.random.default_rng(99)
    tmpdir = tempfile.mkdtemp()
    failures = 0
    try:
        for name, tilt, nparticle in (("ortho", 0.0, 26), ("tilt", -1.7, 31)):
            snapshots = make_snapshots(nparticle, 2, tilt, rng)
            lists = build_neighbors(snapshots, rng)
            nfile = os.path.join(tmpdir, name + ".neighbor.dat")
            write_neighbors(nfile, lists, rng)
            with open(nfile, "rb") as f:
                nbytes = f.read()
            before = freeze(snapshots)
            Nmax = 12
            for l in (4, 6):
                obj = boo_3d(snapshots, l=l, neighborfile=nfile, Nmax=Nmax)
                ql_first = obj.ql_Ql(coarse_graining=False)
                for coarse in (False, True):
                    for c in (0.7, 0.2):
                        tag = f"{name} l={l} coarse={coarse} c={c}"
                        res = obj.sij_ql_Ql(coarse_graining=coarse, c=c)
                        if not isinstance(res, list) or len(res) != 2:
                            print(f"FAIL {tag}: expected one table per frame")
                            failures += 1
                            continue
                        tables, counts = reference(snapshots, lists, l, coarse, c)
                        for n, table in enumerate(res):
                            if table.shape != (nparticle, 2 + Nmax):
                                print(f"FAIL {tag}: shape {table.shape}")
                                failures += 1
                                continue
                            for i in range(nparticle):
                                k = len(lists[n][i])
                                ok = (
                                    table[i, 0] == i + 1
                                    and table[i, 1] == k
                                    and np.allclose(table[i, 2 : 2 + k], tables[n][i], rtol=0, atol=2e-6)
                                    and (table[i, 2 + k :] == 0).all()
                                )
                                if not ok:
                                    print(f"FAIL {tag}: frame {n} particle {i} differs from the reference")
                                    failures += 1
                        # files
                        pcsv = os.path.join(tmpdir, "q.csv")
                        ptxt = os.path.join(tmpdir, "s.txt")
                        res_file = obj.sij_ql_Ql(coarse_graining=coarse, c=c, outputqlQl=pcsv, outputsij=ptxt)
                        full = stack(res)
                        maxcn = int(full[:, 1].max())
                        if res_file.shape != (2 * nparticle, 2 + maxcn) or (
                            res_file.tobytes() != np.ascontiguousarray(full[:, : 2 + maxcn]).tobytes()
                        ):
                            print(f"FAIL {tag}: values returned with files differ from those without")
                            failures += 1
                        csv = pd.read_csv(pcsv)
                        if list(csv.columns) != ["id", "sum_sij", "num_neighbors"]:
                            print(f"FAIL {tag}: csv columns {list(csv.columns)}")
                            failures += 1
                        exp_ids = np.tile(np.arange(1, nparticle + 1), 2)
                        exp_cn = np.array([len(x) for frame in lists for x in frame])
                        # bond counts: compare where the reference is not within rounding of the cut-off
                        exp_counts = np.array([x for frame in counts for x in frame])
                        got_counts = (full[:, 2:] > c).sum(axis=1)
                        if not (
                            (csv["id"].values == exp_ids).all()
                            and (csv["num_neighbors"].values == exp_cn).all()
                            and (csv["sum_sij"].values == got_counts).all()
                        ):
                            print(f"FAIL {tag}: csv does not hold the computed values")
                            failures += 1
                        margin = min(abs(v - c) for fr in tables for row in fr for v in row)
                        if margin > 1e-5 and not (got_counts == exp_counts).all():
                            print(f"FAIL {tag}: bond counts differ from the reference")
                            failures += 1
                        txt = np.loadtxt(ptxt, skiprows=1)
                        with open(ptxt, "r", encoding="utf-8") as f:
                            header = f.readline()
                        if header != "id CN sij\n" or txt.shape != res_file.shape or not np.allclose(
                            txt, res_file, rtol=0, atol=0.51e-6
                        ):
                            print(f"FAIL {tag}: sij text file does not hold the returned values")
                            failures += 1
                        # repeated call
                        res2 = obj.sij_ql_Ql(coarse_graining=coarse, c=c)
                        if stack(res2).tobytes() != full.tobytes():
                            print(f"FAIL {tag}: repeated call differs")
                            failures += 1
                if obj.ql_Ql(coarse_graining=False).tobytes() != ql_first.tobytes():
                    print(f"FAIL {name} l={l}: ql changed after sij_ql_Ql calls")
                    failures += 1
            if not same(before, freeze(snapshots)):
                print(f"FAIL {name}: snapshot arrays were modified")
                failures += 1
            with open(nfile, "rb") as f:
                if f.read() != nbytes:
                    print(f"FAIL {name}: neighbour file was modified")
                    failures += 1
            print(f"ok   {name}")
    finally:
        shutil.rmtree(tmpdir, ignore_errors=True)
    if failures:
        print(f"{failures} failure(s)")
        return 1
    print("all checks passed")
    return 0


if __name__ == "__main__":
    sys.exit(main())
