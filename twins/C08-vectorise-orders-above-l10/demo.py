"""
demo for the refactoring "vectorise-orders-above-l10" (kind 4, loop restructuring):
SphHarm_above evaluates all orders m = -l..l with one broadcast call over np.arange(-l, l + 1)
instead of a python loop appending one order at a time.

Exercises SphHarm_above directly (l = 11..20, 25, and l <= 10 where it must agree with the closed forms;
negative / positive / +-pi azimuth, python and numpy scalars and integer types) and through sph_harm_l / boo_3d;
compares with an independent Legendre-recursion reference, the sum rule, the conjugation symmetry and the
literature q_12 of fcc / icosahedral shells.
Run: PYTHONPATH=<worktree> /venv/bin/python demo.py   (exit code 0 = all checks passed)
"""
import logging
import math
import os
import shutil
import sys
import tempfile

import numpy as np

from PyMatterSim.utils import spherical_harmonics as sh

ATOL = 1e-9          # the closed forms carry coefficients up to 1e5 -> cancellation ~1e-11
CHECKS = 0


def check(cond, msg):
    """count a check, abort with exit code 1 when it fails"""
    global CHECKS
    CHECKS += 1
    if not cond:
        print("FAIL:", msg)
        sys.exit(1)


def ref_ylm(l, theta, phi):
    """
    independent reference: orthonormal Condon-Shortley Y_lm(polar theta, azimuth phi), m=-l..l,
    from the standard upward recursion of the associated Legendre functions
    """
    x, s = math.cos(theta), math.sin(theta)
    out = np.zeros(2 * l + 1, dtype=np.complex128)
    for m in range(0, l + 1):
        pmm = (-1.0) ** m * float(np.prod(np.arange(2 * m - 1, 0, -2, dtype=float))) * s ** m
        if l == m:
            plm = pmm
        else:
            pm1 = x * (2 * m + 1) * pmm
            if l == m + 1:
                plm = pm1
            else:
                for ll in range(m + 2, l + 1):
                    plm = ((2 * ll - 1) * x * pm1 - (ll + m - 1) * pmm) / (ll - m)
                    pmm, pm1 = pm1, plm
        norm = math.sqrt((2 * l + 1) / (4 * math.pi) * math.factorial(l - m) / math.factorial(l + m))
        ylm = norm * plm * complex(math.cos(m * phi), math.sin(m * phi))
        out[l + m] = ylm
        out[l - m] = (-1) ** m * ylm.conjugate()
    return out


def angle_samples():
    """random angles plus the edge cases: poles, equator, phi = 0, +-pi, tiny negative phi"""
    rng = np.random.default_rng(7)
    thetas = list(rng.uniform(0, np.pi, 25)) + [0.0, np.pi, np.pi / 2, 1e-7, np.pi - 1e-7, 0.3, 2.9, 1.1]
    phis = list(rng.uniform(-np.pi, np.pi, 25)) + [0.0, np.pi, -np.pi, -1e-12, np.pi / 2, -np.pi / 2, 3.0, -3.0]
    return list(zip(thetas, phis))


def check_against_reference(degrees, caller, label):
    """values, order m=-l..l, shape, dtype, sum rule and conjugation symmetry"""
    for l in degrees:
        for theta, phi in angle_samples():
            for typ in (float, np.float64):   # boo.py passes np.float64 scalars
                got = caller(l, typ(theta), typ(phi))
                check(isinstance(got, np.ndarray) and got.shape == (2 * l + 1,), f"{label} l={l} shape")
                check(got.dtype == np.complex128, f"{label} l={l} dtype {got.dtype}")
                ref = ref_ylm(l, theta, phi)
                check(np.allclose(got, ref, rtol=0, atol=ATOL),
                      f"{label} l={l} theta={theta} phi={phi} max dev {np.abs(got - ref).max():.3e}")
                check(abs((np.abs(got) ** 2).sum() - (2 * l + 1) / (4 * np.pi)) < ATOL, f"{label} l={l} sum rule")
                signs = (-1.0) ** np.arange(-l, l + 1)
                check(np.allclose(got[::-1], signs * np.conj(got), rtol=0, atol=ATOL), f"{label} l={l} Y_l,-m")


def bond_order(l, bonds):
    """Steinhardt q_l of a set of bond vectors through the public dispatcher sph_harm_l"""
    bonds = np.asarray(bonds, dtype=float)
    dist = np.linalg.norm(bonds, axis=1)
    theta = np.arccos(bonds[:, 2] / dist)
    phi = np.arctan2(bonds[:, 1], bonds[:, 0])
    qlm = sum(sh.sph_harm_l(l, theta[j], phi[j]) for j in range(len(bonds))) / len(bonds)
    return math.sqrt(4 * np.pi / (2 * l + 1) * (np.abs(qlm) ** 2).sum())


def check_literature_values(degrees):
    """q_l of the ideal fcc and icosahedral shells (Steinhardt et al. 1983: fcc q4=0.19094 q6=0.57452,
    icosahedron q6=0.66332; more digits from the reference recursion), shells rotated arbitrarily"""
    fcc = [(1, 1, 0), (1, -1, 0), (-1, 1, 0), (-1, -1, 0), (1, 0, 1), (1, 0, -1), (-1, 0, 1), (-1, 0, -1),
           (0, 1, 1), (0, 1, -1), (0, -1, 1), (0, -1, -1)]
    g = (1 + math.sqrt(5)) / 2
    ico = [(0, 1, g), (0, 1, -g), (0, -1, g), (0, -1, -g), (1, g, 0), (1, -g, 0), (-1, g, 0), (-1, -g, 0),
           (g, 0, 1), (g, 0, -1), (-g, 0, 1), (-g, 0, -1)]
    rot, _ = np.linalg.qr(np.random.default_rng(3).normal(size=(3, 3)))
    expected = {"fcc": {4: 0.190941, 6: 0.574524, 8: 0.403915, 10: 0.012857, 12: 0.600083},
                "ico": {4: 0.0, 6: 0.663325, 8: 0.0, 10: 0.362951, 12: 0.585423}}
    for name, shell in (("fcc", fcc), ("ico", ico)):
        bonds = np.array(shell, dtype=float) @ rot.T
        for l in degrees:
            q = bond_order(l, bonds)
            if l % 2 == 1:
                check(abs(q) < 1e-9, f"{name} q{l} must vanish by inversion symmetry, got {q}")
            elif l in expected[name]:
                check(abs(q - expected[name][l]) < 2e-6, f"{name} q{l}={q:.6f} expected {expected[name][l]}")
    for l in degrees:   # a single bond has q_l = 1 for every l (sum rule)
        check(abs(bond_order(l, [(0.3, -0.4, 0.5)]) - 1) < 1e-9, f"single bond q{l}")


def check_boo3d(degrees, tmpdir):
    """
    end to end: boo_3d in a triclinic cell with a negative tilt, unequal coordination numbers
    (zero-padded neighbour table), neighbour lines written in shuffled id order, two frames
    """
    from PyMatterSim.reader.reader_utils import SingleSnapshot, Snapshots
    from PyMatterSim.static.boo import boo_3d

    rng = np.random.default_rng(11)
    npart = 13
    hmatrix = np.array([[6.0, 0.0, 0.0], [-1.7, 5.5, 0.0], [0.9, -1.2, 5.0]])   # rows = cell vectors
    frames, tables = [], []
    nfile = os.path.join(tmpdir, "neighbors.dat")
    with open(nfile, "w", encoding="utf-8") as f:
        for n in range(2):
            pos = rng.uniform(0, 1, (npart, 3)) @ hmatrix
            frames.append(SingleSnapshot(timestep=n, nparticle=npart, particle_type=np.ones(npart, dtype=int),
                                         positions=pos, boxlength=np.array([6.0, 5.5, 5.0]),
                                         boxbounds=np.array([[0, 6.0], [0, 5.5], [0, 5.0]]),
                                         realbounds=np.array([[0, 6.0], [0, 5.5], [0, 5.0]]), hmatrix=hmatrix))
            table = {}
            f.write("id     cn     neighborlist\n")
            for i in rng.permutation(npart):
                cn = 1 if i == 0 else int(rng.integers(2, 8))
                table[i] = rng.choice(np.delete(np.arange(npart), i), size=cn, replace=False)
                f.write(f"{i + 1} {cn} " + " ".join(str(j + 1) for j in table[i]) + "\n")
            tables.append(table)
    snaps = Snapshots(nsnapshots=2, snapshots=frames)
    hinv = np.linalg.inv(hmatrix)
    for l in degrees:
        boo = boo_3d(snaps, l=l, neighborfile=nfile, Nmax=10)
        check(boo.smallqlm.shape == (2, npart, 2 * l + 1), f"boo_3d l={l} shape")
        ql = boo.ql_Ql()
        for n in range(2):
            pos = frames[n].positions
            for i in range(npart):
                ref = np.zeros(2 * l + 1, dtype=np.complex128)
                for j in tables[n][i]:
                    frac = (pos[j] - pos[i]) @ hinv
                    rij = (frac - np.rint(frac)) @ hmatrix          # minimum image in the triclinic cell
                    ref += ref_ylm(l, math.acos(rij[2] / np.linalg.norm(rij)), math.atan2(rij[1], rij[0]))
                ref /= len(tables[n][i])
                check(np.allclose(boo.smallqlm[n, i], ref, rtol=0, atol=ATOL), f"boo_3d l={l} frame {n} particle {i}")
                qref = math.sqrt(4 * np.pi / (2 * l + 1) * (np.abs(ref) ** 2).sum())
                check(abs(ql[n, i] - qref) < ATOL, f"boo_3d q{l} frame {n} particle {i}")
            check(abs(ql[n, 0] - 1) < ATOL, f"boo_3d q{l} of the singly coordinated particle must be 1")


def check_dispatch():
    """sph_harm_l(l) returns exactly the table of the requested degree, for several integer types"""
    for theta, phi in angle_samples()[::5]:
        for l in range(1, 11):
            direct = getattr(sh, f"SphHarm{l}")(theta, phi)
            for ll in (l, np.int64(l), np.int32(l)):
                check(np.array_equal(sh.sph_harm_l(ll, theta, phi), direct), f"dispatch l={l} ({type(ll).__name__})")
        for l in (11, 12, 17, 20):
            direct = sh.SphHarm_above(l, theta, phi)
            for ll in (l, np.int64(l)):
                check(np.array_equal(sh.sph_harm_l(ll, theta, phi), direct), f"dispatch l={l} ({type(ll).__name__})")
        for l in (0, -1, -11):
            check(sh.sph_harm_l(l, theta, phi) is None, f"dispatch l={l} is outside the supported degrees")
    check(abs(sh.SphHarm0() - 0.5 / math.sqrt(math.pi)) < 1e-15, "SphHarm0")


def check_above_consistent_with_tables():
    """the delegated branch and the closed forms implement the same definition"""
    for theta, phi in angle_samples():
        for l in range(1, 11):
            above = sh.SphHarm_above(l, theta, phi)
            check(above.shape == (2 * l + 1,) and above.dtype == np.complex128, f"above l={l} shape/dtype")
            check(np.allclose(above, getattr(sh, f"SphHarm{l}")(theta, phi), rtol=0, atol=ATOL), f"above vs table l={l}")
        for l in (np.int64(13), np.int32(14)):
            check(np.array_equal(sh.SphHarm_above(l, theta, phi), sh.SphHarm_above(int(l), theta, phi)), "numpy integer l")
        # azimuth phi and phi + 2 pi describe the same direction
        if phi < 0:
            check(np.allclose(sh.SphHarm_above(12, theta, phi), sh.SphHarm_above(12, theta, phi + 2 * np.pi),
                              rtol=0, atol=ATOL), "azimuth shift")
    check(sh.SphHarm_above(0, 0.7, -0.3).shape == (1,), "l = 0 has the single order m = 0")


def main(workdir):
    check_above_consistent_with_tables()
    check_against_reference(list(range(11, 21)) + [25], sh.SphHarm_above, "SphHarm_above")
    check_against_reference(range(9, 21), sh.sph_harm_l, "sph_harm_l")
    check_dispatch()
    check_literature_values([11, 12, 13, 14])
    check_boo3d([11, 12], workdir)


if __name__ == "__main__":
    logging.disable(logging.INFO)
    workdir = tempfile.mkdtemp()
    try:
        main(workdir)
    finally:
        shutil.rmtree(workdir, ignore_errors=True)
    print(f"OK ({CHECKS} checks)")
    sys.exit(0)
