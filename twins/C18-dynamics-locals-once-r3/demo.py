"""demo for the refactoring 'dynamics-locals-once'
(Dynamics.relaxation / Dynamics.sq4 / LogDynamics.relaxation: per-frame and per-call quantities are
looked up once in local variables instead of repeated attribute access inside the loops)

run: PYTHONPATH=<worktree> /venv/bin/python demo.py [--dump out.pkl]
exits 0 on the unchanged and on the refactored tree.
"""
import logging
import os
import pickle
import shutil
import sys
import tempfile

import numpy as np
import pandas as pd

from PyMatterSim.dynamic.dynamics import Dynamics, LogDynamics
from PyMatterSim.reader.reader_utils import SingleSnapshot, Snapshots
from PyMatterSim.static.sq import conditional_sq
from PyMatterSim.utils.wavevector import choosewavevector

logging.disable(logging.CRITICAL)

DT = 0.005
DIAMETERS = {1: 1.0, 2: 1.4}
A = 0.35


def make_trajectory(rng, nparticle, hmatrix, nsnap, timesteps, wrapped):
    """random walk in a (possibly triclinic) cell; 'wrapped' folds the coordinates into the cell"""
    ndim = hmatrix.shape[0]
    types = rng.integers(1, 3, size=nparticle).astype(np.int32)
    types[:2] = [1, 2]
    frac = rng.uniform(0, 1, size=(nparticle, ndim))
    pos = frac @ hmatrix
    boxlength = np.diag(hmatrix).copy()
    bounds = np.column_stack((np.zeros(ndim), boxlength))
    xu, x = [], []
    for n in range(nsnap):
        if n:
            pos = pos + rng.normal(scale=0.22, size=pos.shape)
        s = pos @ np.linalg.inv(hmatrix)
        folded = (s - np.floor(s)) @ hmatrix
        for store, p in ((xu, pos), (x, folded)):
            store.append(SingleSnapshot(
                timestep=int(timesteps[n]), nparticle=nparticle, particle_type=types.copy(),
                positions=p.copy(), boxlength=boxlength.copy(), boxbounds=bounds.copy(),
                realbounds=bounds.copy(), hmatrix=hmatrix.copy()))
    return Snapshots(nsnap, xu), Snapshots(nsnap, x)


def fingerprint(*objs):
    out = []
    for obj in objs:
        if isinstance(obj, Snapshots):
            for s in obj.snapshots:
                for arr in (s.particle_type, s.positions, s.boxlength, s.boxbounds, s.realbounds, s.hmatrix):
                    out.append((arr.dtype.str, arr.shape, arr.tobytes()))
        elif obj is not None:
            out.append((obj.dtype.str, obj.shape, obj.tobytes()))
    return out


def write_neighbors(rng, path, nparticle, nsnap):
    """neighbour file with unequal coordination numbers (zero padded table after reading)"""
    tables = []
    with open(path, "w", encoding="utf-8") as f:
        for _ in range(nsnap):
            f.write("id   cn   neighborlist\n")
            table = []
            for i in range(nparticle):
                cn = int(rng.integers(1, 6))
                others = np.delete(np.arange(nparticle), i)
                neigh = rng.choice(others, size=cn, replace=False)
                table.append(neigh)
                f.write(f"{i + 1} {cn} " + " ".join(str(j + 1) for j in neigh) + "\n")
            tables.append(table)
    return tables


# ---------------------------------------------------------------- reference implementation
def ref_unwrap(d, hmatrix, ppp):
    s = np.linalg.solve(hmatrix.T, d.T).T
    s = s - np.rint(s) * np.asarray(ppp)[None, :]
    return s @ hmatrix


def ref_displacement(snaps, n0, n1, pbc, ppp, table):
    d = snaps.snapshots[n1].positions - snaps.snapshots[n0].positions
    if pbc:
        d = ref_unwrap(d, snaps.snapshots[n0].hmatrix, ppp)
    if table is not None:
        d = np.array([d[i] - d[table[i]].mean(axis=0) for i in range(len(d))])
    return d


def ref_observables(d, qc, a2, cal_type):
    r2 = (d * d).sum(axis=1)
    isf = np.mean(np.cos(d * qc[:, None]))
    q = np.mean(r2 < a2) if cal_type == "slow" else np.mean(r2 > a2)
    return isf, q, r2.mean(), (r2 * r2).mean()


def ref_linear(snaps, pbc, ppp, qconst, cal_type, condition, tables):
    nsnap = snaps.nsnapshots
    ndim = len(ppp)
    diam = np.array([DIAMETERS[t] for t in snaps.snapshots[0].particle_type])
    rows = []
    nsel = len(diam)
    for lag in range(1, nsnap):
        acc = []
        for n0 in range(nsnap - lag):
            d = ref_displacement(snaps, n0, n0 + lag, pbc, ppp, None if tables is None else tables[n0])
            qc, a2 = qconst / diam, (diam * A) ** 2
            if condition is not None:
                sel = condition[n0]
                d, qc, a2 = d[sel], qc[sel], a2[sel]
            acc.append(ref_observables(d, qc, a2, cal_type))
        acc = np.array(acc)
        isf, q, r2, r4 = acc.mean(axis=0)
        rows.append([isf, q, (acc[:, 1] ** 2).mean() - q * q, r2, ndim / (ndim + 2.0) * r4 / r2**2 - 1])
    # the library scales chi4 by the number of particles selected in the LAST evaluated pair (n0=0, lag=nsnap-1)
    if condition is not None:
        nsel = int(np.count_nonzero(condition[0])) if condition.dtype == bool else len(condition[0])
    rows = np.array(rows)
    rows[:, 2] *= nsel
    t0 = snaps.snapshots[0].timestep
    time = np.array([(s.timestep - t0) * DT for s in snaps.snapshots[1:]])
    return np.column_stack((time, rows))


def ref_log(snaps, pbc, ppp, qconst, cal_type, condition, table):
    ndim = len(ppp)
    diam = np.array([DIAMETERS[t] for t in snaps.snapshots[0].particle_type])
    rows = []
    for n in range(1, snaps.nsnapshots):
        d = ref_displacement(snaps, 0, n, pbc, ppp, table)
        qc, a2 = qconst / diam, (diam * A) ** 2
        if condition is not None:
            d, qc, a2 = d[condition], qc[condition], a2[condition]
        isf, q, r2, r4 = ref_observables(d, qc, a2, cal_type)
        rows.append([(snaps.snapshots[n].timestep - snaps.snapshots[0].timestep) * DT,
                     isf, q, 0.0, r2, ndim / (ndim + 2.0) * r4 / r2**2 - 1])
    return np.array(rows)


def ref_sq4(dyn_snaps, sq_snaps, pbc, ppp, cal_type, n_t, qrange, condition, tables):
    ndim = len(ppp)
    diam = np.array([DIAMETERS[t] for t in dyn_snaps.snapshots[0].particle_type])
    twopidl = 2 * np.pi / sq_snaps.snapshots[0].boxlength
    qvector = choosewavevector(ndim=ndim, numofq=int(qrange * 2.0 / twopidl.min()), onlypositive=False)
    total = 0
    nframes = dyn_snaps.nsnapshots - n_t
    for n in range(nframes):
        d = ref_displacement(dyn_snaps, n, n + n_t, pbc, ppp, None if tables is None else tables[n])
        r2 = (d * d).sum(axis=1)
        mobile = r2 < (diam * A) ** 2 if cal_type == "slow" else r2 > (diam * A) ** 2
        if condition is not None:
            mobile = mobile & condition[n].astype(bool)
        total = total + conditional_sq(sq_snaps.snapshots[n], qvector=qvector, condition=mobile)[1]
    return total / nframes


# ---------------------------------------------------------------- checks
def check_csv(path, frame):
    written = pd.read_csv(path)
    assert list(written.columns) == list(frame.columns)
    assert written.shape == frame.shape
    assert np.allclose(written.values, frame.values, rtol=1e-12, atol=1e-14, equal_nan=True)


def run_case(name, rng, tmpdir, hmatrix, ppp, nsnap, mode, cal_type, use_condition, use_neighbors, dump):
    ndim = hmatrix.shape[0]
    nparticle = 23
    qconst = 2 * np.pi * 0.9

    # ------------ linear output
    timesteps = 1000 + 40 * np.arange(nsnap)
    xu, x = make_trajectory(rng, nparticle, hmatrix, nsnap, timesteps, wrapped=True)
    neighborfile, tables = "", None
    if use_neighbors:
        neighborfile = os.path.join(tmpdir, name + ".neighbor.dat")
        tables = write_neighbors(rng, neighborfile, nparticle, nsnap)
    condition = None
    if use_condition:
        condition = rng.uniform(size=(nsnap, nparticle)) < 0.6
        condition[:, :3] = True
        condition[0, 5:] = condition[0, 5:] & (rng.uniform(size=nparticle - 5) < 0.5)  # unequal selections
    kwargs = dict(dt=DT, ppp=np.array(ppp), diameters=DIAMETERS, a=A, cal_type=cal_type,
                  neighborfile=neighborfile, max_neighbors=12)
    if mode == "xu":
        dyn = Dynamics(xu_snapshots=xu, **kwargs)
        dyn_snaps, sq_snaps, pbc = xu, xu, False
    elif mode == "x":
        dyn = Dynamics(x_snapshots=x, **kwargs)
        dyn_snaps, sq_snaps, pbc = x, x, True
    else:
        dyn = Dynamics(xu_snapshots=xu, x_snapshots=x, **kwargs)
        dyn_snaps, sq_snaps, pbc = xu, x, False
    fp = fingerprint(xu, x, condition)

    out = os.path.join(tmpdir, name + ".relax.csv")
    first = dyn.relaxation(qconst=qconst, condition=condition, outputfile=out)
    assert fingerprint(xu, x, condition) == fp
    assert list(first.columns) == "t isf Qt X4_Qt msd alpha2".split()
    expect = ref_linear(dyn_snaps, pbc, ppp, qconst, cal_type, condition, tables)
    assert first.shape == expect.shape
    assert np.allclose(first.values, expect, rtol=1e-9, atol=1e-10), np.abs(first.values - expect).max()
    check_csv(out, first)
    diam = np.array([DIAMETERS[t] for t in xu.snapshots[0].particle_type])
    assert np.array_equal(dyn.q_const, qconst / diam)      # attribute still published as before

    # sq4 in between, then relaxation again: identical
    n_t = 2
    t = n_t * 40 * DT
    out4 = os.path.join(tmpdir, name + ".sq4.csv")
    s4 = dyn.sq4(t=t, qrange=3.0, condition=condition, outputfile=out4)
    assert fingerprint(xu, x, condition) == fp
    # (wavevectors / positions for S4 come from the x trajectory when both are given)
    expect4 = ref_sq4(dyn_snaps, sq_snaps, pbc, ppp, cal_type, n_t, 3.0, condition, tables)
    assert list(s4.columns) == list(expect4.columns)
    assert np.allclose(s4.values, expect4.values, rtol=1e-9, atol=1e-9)
    check_csv(out4, s4)
    second = dyn.relaxation(qconst=qconst, condition=condition)
    assert np.array_equal(first.values, second.values)
    s4b = dyn.sq4(t=t, qrange=3.0, condition=condition)
    assert np.array_equal(s4.values, s4b.values)
    dump[name + "/linear"] = (first.values, s4.values)

    # ------------ log output (single reference frame, 1-d condition)
    log_steps = 500 + np.array([0, 1, 2, 4, 8, 16, 32, 64])[:nsnap] * 10
    lxu, lx = make_trajectory(rng, nparticle, hmatrix, nsnap, log_steps, wrapped=True)
    lneighbor, ltable = "", None
    if use_neighbors:
        lneighbor = os.path.join(tmpdir, name + ".log.neighbor.dat")
        ltable = write_neighbors(rng, lneighbor, nparticle, 1)[0]
    lcondition = None
    if use_condition:
        lcondition = rng.uniform(size=nparticle) < 0.5
        lcondition[:2] = True
    lkwargs = dict(kwargs, neighborfile=lneighbor)
    if mode == "x":
        logdyn = LogDynamics(x_snapshots=lx, **lkwargs)
        lsnaps, lpbc = lx, True
    else:
        logdyn = LogDynamics(xu_snapshots=lxu, **lkwargs)
        lsnaps, lpbc = lxu, False
    fp = fingerprint(lxu, lx, lcondition)
    outl = os.path.join(tmpdir, name + ".log.csv")
    lfirst = logdyn.relaxation(qconst=qconst, condition=lcondition, outputfile=outl)
    assert fingerprint(lxu, lx, lcondition) == fp
    lexpect = ref_log(lsnaps, lpbc, ppp, qconst, cal_type, lcondition, ltable)
    assert lfirst.shape == lexpect.shape
    assert np.allclose(lfirst.values, lexpect, rtol=1e-9, atol=1e-10)
    check_csv(outl, lfirst)
    # other selections in between must not leak into a repeated call
    logdyn.relaxation(qconst=1.0, condition=np.arange(nparticle) % 2 == 0)
    logdyn.relaxation(qconst=3.0, condition=None)
    lsecond = logdyn.relaxation(qconst=qconst, condition=lcondition)
    assert np.array_equal(lfirst.values, lsecond.values)
    # integer index selection (unsorted, with a repeat) is a valid fancy index too
    index_condition = np.array([7, 3, 3, 11, 0])
    lidx = logdyn.relaxation(qconst=qconst, condition=index_condition)
    lidx_expect = ref_log(lsnaps, lpbc, ppp, qconst, cal_type, index_condition, ltable)
    assert np.allclose(lidx.values, lidx_expect, rtol=1e-9, atol=1e-10)
    dump[name + "/log"] = (lfirst.values, lidx.values)


def main():
    rng = np.random.default_rng(4242)
    tmpdir = tempfile.mkdtemp()
    dump = {}
    h3 = np.diag([6.0, 6.5, 7.0])
    h2 = np.diag([7.0, 6.0])
    h3_tri = np.array([[6.0, 0.0, 0.0], [-1.3, 6.5, 0.0], [0.8, -0.9, 7.0]])   # negative tilt
    h2_tri = np.array([[7.0, 0.0], [1.7, 6.0]])
    try:
        #        name              hmatrix  ppp        nsnap mode   cal_type cond   neigh
        cases = [
            ("3d_xu_slow",         h3,     [0, 0, 0], 6,    "xu",   "slow", False, False),
            ("3d_x_tri_fast_cond", h3_tri, [1, 1, 1], 5,    "x",    "fast", True,  False),
            ("2d_x_tri_slow_cage", h2_tri, [1, 1],    6,    "x",    "slow", True,  True),
            ("2d_xu_fast_cage",    h2,     [0, 0],    5,    "xu",   "fast", False, True),
            ("3d_x_partial_pbc",   h3,     [1, 0, 1], 4,    "x",    "slow", False, False),
            ("2d_both_slow_cond",  h2,     [0, 0],    5,    "both", "slow", True,  False),
        ]
        for case in cases:
            run_case(case[0], rng, tmpdir, *case[1:], dump=dump)
    finally:
        shutil.rmtree(tmpdir, ignore_errors=True)
    if "--dump" in sys.argv:
        with open(sys.argv[sys.argv.index("--dump") + 1], "wb") as f:
            pickle.dump(dump, f)
    print("dynamics-locals-once demo OK")


if __name__ == "__main__":
    main()
