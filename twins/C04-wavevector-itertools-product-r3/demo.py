"""Demo for the itertools.product rewrite of utils.wavevector.choosewavevector.

1. choosewavevector(ndim, numofq, onlypositive) is compared (values, order,
   dtype) with an independent construction of "all non-zero integer vectors of
   [-nhalf, nhalf)^ndim whose norm is an integer", in lexicographic order,
   for even / odd / tiny numofq and every onlypositive option.
2. sq(...).getresults() with the DEFAULT wave-vector set is compared with a
   direct density-mode evaluation on that independent set (2D and 3D,
   orthogonal boxes with unequal edges, unary and binary).
"""
import sys
from math import isqrt, sqrt

import numpy as np
import pandas as pd

from PyMatterSim.reader.reader_utils import SingleSnapshot, Snapshots
from PyMatterSim.static.sq import sq
from PyMatterSim.utils.wavevector import choosewavevector


def reference_vectors(ndim, numofq, onlypositive=False):
    nhalf = int(numofq / 2)
    axis = list(range(-nhalf, nhalf))
    # lexicographic enumeration written with explicit recursion
    def walk(prefix):
        if len(prefix) == ndim:
            yield tuple(prefix)
            return
        for value in axis:
            yield from walk(prefix + [value])
    rows = []
    for vec in walk([]):
        n2 = sum(v * v for v in vec)
        if n2 == 0 or isqrt(n2) ** 2 != n2:
            continue
        if onlypositive is True and min(vec) < 0:
            continue
        if isinstance(onlypositive, str):
            along = "xyz".index(onlypositive)
            if along >= ndim:
                pass  # 'z' in 2D: no directional filter is applied by the library
            elif not (vec[along] > 0 and all(v == 0 for k, v in enumerate(vec) if k != along)):
                continue
        rows.append(vec)
    return np.array(rows, dtype=np.int32).reshape(-1, ndim)


def make_snapshots(rng, ndim, types, nframes, box):
    types = np.asarray(types)
    box = np.asarray(box, dtype=float)
    frames = [SingleSnapshot(
        timestep=step, nparticle=len(types), particle_type=types,
        positions=rng.random((len(types), ndim)) * box, boxlength=box,
        boxbounds=np.column_stack((np.zeros(ndim), box)), realbounds=None,
        hmatrix=np.diag(box)) for step in range(nframes)]
    return Snapshots(nsnapshots=nframes, snapshots=frames)


def reference_sq(snapshots, nvec):
    first = snapshots.snapshots[0]
    q = 2 * np.pi * nvec / first.boxlength[None, :]
    ptype = first.particle_type
    kinds = np.unique(ptype)
    cols = {"Sq": np.zeros(len(q))}
    if len(kinds) == 2:
        cols.update({"Sq11": np.zeros(len(q)), "Sq22": np.zeros(len(q)), "Sq12": np.zeros(len(q))})
    for snap in snapshots.snapshots:
        phase = np.exp(-1j * snap.positions @ q.T)
        rho = phase.sum(axis=0)
        cols["Sq"] += (rho * rho.conj()).real / len(ptype)
        if len(kinds) == 2:
            r1 = phase[ptype == 1].sum(axis=0)
            r2 = phase[ptype == 2].sum(axis=0)
            n1, n2 = (ptype == 1).sum(), (ptype == 2).sum()
            cols["Sq11"] += (r1 * r1.conj()).real / n1
            cols["Sq22"] += (r2 * r2.conj()).real / n2
            cols["Sq12"] += (r1 * r2.conj()).real / sqrt(n1 * n2)
    frame = pd.DataFrame({"q": np.linalg.norm(q, axis=1), **cols})
    for col in cols:
        frame[col] /= snapshots.nsnapshots
    frame = frame.round(6)
    return frame.groupby(frame["q"]).mean().reset_index()


def main():
    # 1. the wave-vector table itself
    nchecked = 0
    for ndim in (2, 3):
        for numofq in (0, 1, 2, 3, 4, 5, 6, 9, 10, 13):
            for onlypositive in (False, True, "x", "y", "z"):
                got = choosewavevector(ndim, numofq, onlypositive)
                ref = reference_vectors(ndim, numofq, onlypositive)
                assert got.dtype == np.int32, got.dtype
                assert got.shape == ref.shape, (ndim, numofq, onlypositive, got.shape, ref.shape)
                assert np.array_equal(got, ref), (ndim, numofq, onlypositive)
                nchecked += 1
    # default third argument
    assert np.array_equal(choosewavevector(3, 8), reference_vectors(3, 8, False))
    assert np.array_equal(choosewavevector(2, 27), reference_vectors(2, 27, False))
    print(f"ok   choosewavevector identical to the reference in {nchecked} configurations")

    # 2. S(q) on the default wave-vector set
    rng = np.random.default_rng(77)
    for ndim, ids in ((2, [1]), (3, [1]), (2, [1, 2]), (3, [1, 2])):
        box = [5.9, 7.7, 6.8][:ndim]
        types = rng.choice(ids, size=17)
        types[:len(ids)] = ids
        snaps = make_snapshots(rng, ndim, types, 2, box)
        for qrange, onlypositive in ((4.5, False), (6.0, True), (7.0, "x")):
            got = sq(snaps, qrange=qrange, onlypositive=onlypositive).getresults()
            numofq = int(qrange * 2.0 / (2 * np.pi / np.asarray(box)).min())
            ref = reference_sq(snaps, reference_vectors(ndim, numofq, onlypositive))
            assert list(got.columns) == list(ref.columns)
            assert got.shape == ref.shape, (got.shape, ref.shape)
            diff = np.abs(got.to_numpy() - ref.to_numpy()).max()
            assert diff < 2e-6, diff
            print(f"ok   {ndim}D ids={ids} qrange={qrange} onlypositive={onlypositive!r} max|diff|={diff:.1e}")
    print("ALL OK")
    return 0


if __name__ == "__main__":
    sys.exit(main())
