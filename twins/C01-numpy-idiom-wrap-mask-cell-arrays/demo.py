"""Demo for _twin/numpy-idiom-wrap-mask-cell-arrays.
Focus: wrapping of the orthogonal "x" style (atoms on the faces, one box length outside, 2D/3D,
empty frames) and the triclinic realbounds / boxlength / hmatrix arrays of read_lammps.

Synthetic LAMMPS dumps -> read_lammps_wrapper / DumpReader, compared
against expected values computed independently here (from the generating
parameters and with a tiny reference parser written below)."""
import os
import shutil
import sys
import tempfile

import logging

import numpy as np

from PyMatterSim.reader.dump_reader import DumpReader
from PyMatterSim.reader.lammps_reader_helper import read_lammps_wrapper
from PyMatterSim.reader.reader_utils import DumpFileType

RTOL = 1e-12
logging.disable(logging.INFO)   # keep the output short


def close(a, b, scale=1.0):
    a = np.asarray(a, dtype=float)
    b = np.asarray(b, dtype=float)
    if a.shape != b.shape:
        return False
    if a.size == 0:
        return True
    return bool(np.all(np.abs(a - b) <= RTOL * max(scale, 1.0)))


def make_frame(rng, ndim, style, triclinic, natoms, timestep, tilt_sign=1,
               extra_cols=0, z_column=True, sort_ids=False):
    """returns (text, expected dict)"""
    lo = rng.uniform(-7.0, 5.0, size=3)
    length = rng.uniform(3.0, 11.0, size=3)
    if ndim == 2:
        lo[2], length[2] = -0.5, 1.0
    hi = lo + length
    xy = xz = yz = 0.0
    if triclinic:
        xy = tilt_sign * rng.uniform(0.3, 0.45) * length[0]
        if ndim == 3:
            xz = -tilt_sign * rng.uniform(0.1, 0.4) * length[0]
            yz = tilt_sign * rng.uniform(0.1, 0.4) * length[1]
    # cell rows a, b, c (lower triangular)
    hfull = np.array([[length[0], 0, 0], [xy, length[1], 0], [xz, yz, length[2]]])
    scaled = rng.uniform(0.02, 0.98, size=(natoms, 3))
    if ndim == 2:
        scaled[:, 2] = 0.5
    cart = lo + scaled @ hfull          # s0*a + s1*b + s2*c + origin
    types = rng.integers(1, 4, size=natoms)
    ids = np.arange(1, natoms + 1)
    order = np.arange(natoms) if sort_ids else rng.permutation(natoms)

    lines = ["ITEM: TIMESTEP", str(timestep), "ITEM: NUMBER OF ATOMS", str(natoms)]
    if triclinic:
        xlo_b = lo[0] + min(0.0, xy, xz, xy + xz)
        xhi_b = hi[0] + max(0.0, xy, xz, xy + xz)
        ylo_b = lo[1] + min(0.0, yz)
        yhi_b = hi[1] + max(0.0, yz)
        lines.append("ITEM: BOX BOUNDS xy xz yz pp pp pp")
        lines.append(" ".join(repr(float(v)) for v in (xlo_b, xhi_b, xy)))
        lines.append(" ".join(repr(float(v)) for v in (ylo_b, yhi_b, xz)))
        lines.append(" ".join(repr(float(v)) for v in (lo[2], hi[2], yz)))
        bounds_file = np.array([[xlo_b, xhi_b], [ylo_b, yhi_b], [lo[2], hi[2]]])
    else:
        lines.append("ITEM: BOX BOUNDS pp pp pp")
        for d in range(3):
            lines.append(" ".join(repr(float(v)) for v in (lo[d], hi[d])))
        bounds_file = np.column_stack((lo, hi))

    ncoord = 3 if (ndim == 3 or z_column) else 2
    suffix = {"x": "", "xs": "s", "xu": "u"}[style]
    header = "ITEM: ATOMS id type " + " ".join(c + suffix for c in "xyz"[:ncoord])
    header += "".join(f" c_extra{k}" for k in range(extra_cols))
    lines.append(header)

    written = np.zeros((natoms, 3))
    expected_pos = cart.copy()
    if style == "xs":
        written[:] = scaled
        # what the file encodes: origin + s . h, with the numbers as written
    elif style == "xu":
        # unwrapped: arbitrary image shifts, returned verbatim
        shift = rng.integers(-3, 4, size=(natoms, 3)).astype(float)
        if ndim == 2:
            shift[:, 2] = 0
        written[:] = cart + shift @ hfull
        expected_pos = written.copy()
    else:  # wrapped 'x'
        written[:] = cart
        if not triclinic:
            # excursions of at most one box length on some atoms / axes
            exc = rng.integers(-1, 2, size=(natoms, 3)).astype(float)
            if ndim == 2:
                exc[:, 2] = 0
            written[:] = cart + exc * length
            # expected: moved back by exactly one box length where outside
            expected_pos = written.copy()
            lo_r, hi_r = bounds_file[:, 0], bounds_file[:, 1]
            ln = hi_r - lo_r
            for a in range(natoms):
                for d in range(3):
                    if expected_pos[a, d] < lo_r[d]:
                        expected_pos[a, d] = expected_pos[a, d] + ln[d]
                    if expected_pos[a, d] > hi_r[d]:
                        expected_pos[a, d] = expected_pos[a, d] - ln[d]
        else:
            expected_pos = written.copy()

    for a in order:
        fields = [str(ids[a]), str(types[a])]
        fields += [repr(float(v)) for v in written[a, :ncoord]]
        fields += [repr(float(rng.normal())) for _ in range(extra_cols)]
        lines.append(" ".join(fields))

    expected = dict(
        timestep=timestep, nparticle=natoms, particle_type=types,
        positions=expected_pos[:, :ndim],
        boxlength=length[:ndim],
        boxbounds=bounds_file[:ndim],
        realbounds=(np.column_stack((lo, hi))[:ndim] if triclinic else None),
        hmatrix=(hfull[:ndim, :ndim] if triclinic else np.diag(length[:ndim])),
        scale=float(np.max(np.abs(np.concatenate((lo, hi)))) + 4 * np.max(length)),
    )
    return "\n".join(lines) + "\n", expected


def reference_parse(path, ndim):
    """Straightforward independent re-implementation (pure python floats)."""
    with open(path, "r", encoding="utf-8") as fh:
        rows = fh.read().split("\n")
    frames = []
    p = 0
    while p < len(rows) and rows[p].startswith("ITEM: TIMESTEP"):
        step = int(rows[p + 1])
        n = int(rows[p + 3])
        tric = "xy" in rows[p + 4].split()
        box = [[float(v) for v in rows[p + 5 + d].split()] for d in range(3)]
        cols = rows[p + 8].split()[2:]
        atoms = [r.split() for r in rows[p + 9:p + 9 + n]]
        p += 9 + n
        pos = [[0.0] * ndim for _ in range(n)]
        typ = [0] * n
        if tric:
            xy, xz, yz = box[0][2], box[1][2], box[2][2]
            xlo = box[0][0] - min(0.0, xy, xz, xy + xz)
            xhi = box[0][1] - max(0.0, xy, xz, xy + xz)
            ylo = box[1][0] - min(0.0, yz)
            yhi = box[1][1] - max(0.0, yz)
            zlo, zhi = box[2][0], box[2][1]
            org = [xlo, ylo, zlo]
            h = [[xhi - xlo, 0.0, 0.0], [xy, yhi - ylo, 0.0], [xz, yz, zhi - zlo]]
        else:
            org = [box[d][0] for d in range(3)]
            h = [[(box[d][1] - box[d][0]) if d == e else 0.0 for e in range(3)]
                 for d in range(3)]
        for a in atoms:
            i = int(a[0]) - 1
            typ[i] = int(a[1])
            c = [float(v) for v in a[2:2 + ndim]]
            if "xs" in cols:
                c = [org[e] + sum(c[d] * h[d][e] for d in range(ndim))
                     for e in range(ndim)]
            elif "x" in cols and not tric:
                for e in range(ndim):
                    if c[e] < box[e][0]:
                        c[e] = c[e] + h[e][e]
                    if c[e] > box[e][1]:
                        c[e] = c[e] - h[e][e]
            pos[i] = c
        frames.append(dict(
            timestep=step, nparticle=n, particle_type=np.array(typ, dtype=int),
            positions=np.array(pos, dtype=float).reshape(n, ndim),
            boxlength=np.array([h[d][d] for d in range(ndim)]),
            boxbounds=np.array([box[d][:2] for d in range(ndim)]),
            realbounds=(np.array([[org[d], org[d] + h[d][d]] for d in range(ndim)])
                        if tric else None),
            hmatrix=np.array([row[:ndim] for row in h[:ndim]]),
        ))
    return frames


def check_snapshot(snap, exp, scale, label, errors):
    def bad(what):
        errors.append(f"{label}: {what}")
    if snap.timestep != exp["timestep"]:
        bad("timestep")
    if snap.nparticle != exp["nparticle"]:
        bad("nparticle")
    if not np.array_equal(snap.particle_type, exp["particle_type"]):
        bad("particle_type")
    for key in ("positions", "boxlength", "boxbounds", "hmatrix"):
        if not close(getattr(snap, key), exp[key], scale):
            bad(key)
    if exp["realbounds"] is None:
        if snap.realbounds is not None:
            bad("realbounds should be None")
    elif snap.realbounds is None or not close(snap.realbounds, exp["realbounds"], scale):
        bad("realbounds")


def run_case(tmpdir, name, ndim, frames_spec, seed, errors, use_dumpreader=False):
    rng = np.random.default_rng(seed)
    text, exps = "", []
    for k, spec in enumerate(frames_spec):
        t, e = make_frame(rng, ndim=ndim, timestep=1000 * k + 7 * (k % 3), **spec)
        text += t
        exps.append(e)
    path = os.path.join(tmpdir, name + ".atom")
    with open(path, "w", encoding="utf-8") as fh:
        fh.write(text)
    if use_dumpreader:
        reader = DumpReader(path, ndim=ndim, filetype=DumpFileType.LAMMPS)
        reader.read_onefile()
        got = reader.snapshots
    else:
        got = read_lammps_wrapper(path, ndim=ndim)
    if got.nsnapshots != len(exps) or len(got.snapshots) != len(exps):
        errors.append(f"{name}: frame count {got.nsnapshots} != {len(exps)}")
        return
    ref = reference_parse(path, ndim)
    if len(ref) != len(exps):
        errors.append(f"{name}: reference parser frame count")
        return
    for k, (snap, exp, rf) in enumerate(zip(got.snapshots, exps, ref)):
        check_snapshot(snap, exp, exp["scale"], f"{name}[{k}] vs generator", errors)
        check_snapshot(snap, rf, exp["scale"], f"{name}[{k}] vs reference", errors)


def standard_cases():
    cases = []
    for ndim in (2, 3):
        for style in ("x", "xs", "xu"):
            for tric in (False, True):
                for sign in ((1, -1) if tric else (1,)):
                    nm = f"d{ndim}_{style}_{'tri' if tric else 'ort'}_{'p' if sign > 0 else 'n'}"
                    spec = [
                        dict(style=style, triclinic=tric, natoms=17, tilt_sign=sign,
                             extra_cols=2),
                        dict(style=style, triclinic=tric, natoms=23, tilt_sign=sign,
                             extra_cols=0, z_column=False),
                        dict(style=style, triclinic=tric, natoms=1, tilt_sign=sign),
                        dict(style=style, triclinic=tric, natoms=9, tilt_sign=sign,
                             sort_ids=True, extra_cols=1),
                    ]
                    cases.append((nm, ndim, spec))
        cases.append((f"d{ndim}_single_frame", ndim,
                      [dict(style="xs", triclinic=True, natoms=31, tilt_sign=-1)]))
        cases.append((f"d{ndim}_empty_frame", ndim,
                      [dict(style="x", triclinic=False, natoms=0),
                       dict(style="xs", triclinic=True, natoms=0),
                       dict(style="xs", triclinic=False, natoms=0),
                       dict(style="x", triclinic=False, natoms=5)]))
    return cases


def _write(tmpdir, name, text):
    path = os.path.join(tmpdir, name)
    with open(path, "w", encoding="utf-8") as fh:
        fh.write(text)
    return path


def extra_boundary_wrap(tmpdir, errors):
    """orthogonal 'x' style: atoms exactly on lo / hi stay, atoms outside move by one L"""
    for ndim in (2, 3):
        lo = [0.0, -5.0, 2.0][:ndim] + ([-0.5] if ndim == 2 else [])
        hi = [10.0, 5.0, 8.0][:ndim] + ([0.5] if ndim == 2 else [])
        raw = [  # id, type, coords (3 columns always written)
            (4, 2, [0.0, -5.0, 2.0]),       # exactly on the lower faces: unchanged
            (1, 1, [10.0, 5.0, 8.0]),       # exactly on the upper faces: unchanged
            (3, 3, [-0.125, 5.5, 1.0]),     # below x, above y, below z
            (2, 1, [10.25, -9.75, 13.5]),   # above x, below y, above z
            (5, 2, [3.0, 0.0, 5.0]),        # inside
        ]
        if ndim == 2:
            raw = [(i, t, c[:2] + [0.0]) for i, t, c in raw]
        exp = {4: [0.0, -5.0, 2.0], 1: [10.0, 5.0, 8.0], 3: [9.875, -4.5, 7.0],
               2: [0.25, 0.25, 7.5], 5: [3.0, 0.0, 5.0]}
        text = ""
        for step in (0, 5):
            text += "ITEM: TIMESTEP\n%d\nITEM: NUMBER OF ATOMS\n5\nITEM: BOX BOUNDS pp pp pp\n" % step
            for d in range(3):
                text += "%r %r\n" % (lo[d], hi[d])
            text += "ITEM: ATOMS id type x y z\n"
            for i, t, c in raw:
                text += "%d %d %r %r %r\n" % (i, t, c[0], c[1], c[2])
        got = read_lammps_wrapper(_write(tmpdir, "wrap%d.atom" % ndim, text), ndim)
        if got.nsnapshots != 2:
            errors.append("boundary_wrap: frame count")
            continue
        for k, snap in enumerate(got.snapshots):
            want = np.array([exp[i][:ndim] for i in range(1, 6)])
            if not np.array_equal(snap.positions, want):   # all values exactly representable
                errors.append("boundary_wrap d%d[%d]: positions" % (ndim, k))
            if not np.array_equal(snap.particle_type, [1, 1, 3, 2, 2]):
                errors.append("boundary_wrap d%d[%d]: types" % (ndim, k))
            if snap.timestep != (0, 5)[k] or snap.nparticle != 5:
                errors.append("boundary_wrap d%d[%d]: header" % (ndim, k))
            if not np.array_equal(snap.hmatrix, np.diag([10.0, 10.0, 6.0][:ndim])):
                errors.append("boundary_wrap d%d[%d]: hmatrix" % (ndim, k))
            if not np.array_equal(snap.boxbounds, np.column_stack((lo, hi))[:ndim]):
                errors.append("boundary_wrap d%d[%d]: boxbounds" % (ndim, k))
            if snap.realbounds is not None:
                errors.append("boundary_wrap d%d[%d]: realbounds" % (ndim, k))


def extra_scaled_outside(tmpdir, errors):
    """xs style with scaled values outside [0, 1) and descending ids; no wrapping applied"""
    for ndim in (2, 3):
        for tric in (False, True):
            lo = np.array([-2.0, 1.0, -3.0])
            ln = np.array([8.0, 4.0, 16.0])
            xy, xz, yz = (-2.0, 1.0, -0.5) if tric else (0.0, 0.0, 0.0)
            if ndim == 2:
                lo[2], ln[2], xz, yz = -0.5, 1.0, 0.0, 0.0
            hi = lo + ln
            h = np.array([[ln[0], 0, 0], [xy, ln[1], 0], [xz, yz, ln[2]]])
            s = np.array([[-0.25, 1.5, 0.75], [0.0, 0.0, 0.0], [1.0, 1.0, 1.0],
                          [0.5, -0.125, 2.25], [0.375, 0.625, 0.5]])
            if ndim == 2:
                s[:, 2] = 0.0
            n = len(s)
            text = "ITEM: TIMESTEP\n42\nITEM: NUMBER OF ATOMS\n%d\n" % n
            if tric:
                text += "ITEM: BOX BOUNDS xy xz yz pp pp pp\n"
                text += "%r %r %r\n" % (float(lo[0] + min(0.0, xy, xz, xy + xz)),
                                        float(hi[0] + max(0.0, xy, xz, xy + xz)), xy)
                text += "%r %r %r\n" % (float(lo[1] + min(0.0, yz)), float(hi[1] + max(0.0, yz)), xz)
                text += "%r %r %r\n" % (float(lo[2]), float(hi[2]), yz)
            else:
                text += "ITEM: BOX BOUNDS pp pp pp\n"
                for d in range(3):
                    text += "%r %r\n" % (float(lo[d]), float(hi[d]))
            text += "ITEM: ATOMS id type xs ys zs q\n"
            for a in range(n - 1, -1, -1):   # descending ids
                text += "%d %d %r %r %r 0.5\n" % (a + 1, a % 2 + 1, float(s[a, 0]), float(s[a, 1]), float(s[a, 2]))
            path = _write(tmpdir, "xs_out_%d_%d.atom" % (ndim, tric), text)
            rd = DumpReader(path, ndim=ndim)
            rd.read_onefile()
            got = rd.snapshots
            if got.nsnapshots != 1:
                errors.append("scaled_outside: frame count")
                continue
            snap = got.snapshots[0]
            want = (lo + s @ h)[:, :ndim]    # all values exactly representable here
            if not close(snap.positions, want, 50.0):
                errors.append("scaled_outside d%d tric=%s: positions" % (ndim, tric))
            if not np.array_equal(snap.particle_type, np.arange(n) % 2 + 1):
                errors.append("scaled_outside d%d tric=%s: types" % (ndim, tric))
            if not close(snap.hmatrix, h[:ndim, :ndim], 50.0):
                errors.append("scaled_outside d%d tric=%s: hmatrix" % (ndim, tric))
            if not close(snap.boxlength, ln[:ndim], 50.0):
                errors.append("scaled_outside d%d tric=%s: boxlength" % (ndim, tric))
            if tric and not close(snap.realbounds, np.column_stack((lo, hi))[:ndim], 50.0):
                errors.append("scaled_outside d%d tric=%s: realbounds" % (ndim, tric))


def extra_dispatch(tmpdir, errors):
    """DumpReader.read_onefile dispatch for the other LAMMPS text formats"""
    text = ""
    for step in (10, 20, 30):
        text += ("ITEM: TIMESTEP\n%d\nITEM: NUMBER OF ATOMS\n4\nITEM: BOX BOUNDS pp pp pp\n"
                 "0.0 4.0\n-1.0 1.0\n-0.5 0.5\nITEM: ATOMS id type x y vx vy\n"
                 "3 2 1.0 0.5 0.25 -0.75\n1 1 3.5 -0.5 1.5 2.5\n4 3 2.0 0.0 -3.0 4.0\n2 2 0.5 0.25 8.0 %d.0\n" % (step, step))
    path = _write(tmpdir, "vec.atom", text)
    rd = DumpReader(path, ndim=2, filetype=DumpFileType.LAMMPSVECTOR, columnsids=[5, 6])
    rd.read_onefile()
    ok = rd.snapshots.nsnapshots == 3
    for k, snap in enumerate(rd.snapshots.snapshots):
        want = np.array([[1.5, 2.5], [8.0, (10.0, 20.0, 30.0)[k]], [0.25, -0.75], [-3.0, 4.0]])
        ok = ok and np.array_equal(snap.positions, want) and snap.timestep == (10, 20, 30)[k]
        ok = ok and np.array_equal(snap.particle_type, [1, 2, 2, 3])
    if not ok:
        errors.append("dispatch: LAMMPSVECTOR")
    rd = DumpReader(path, ndim=2, filetype=DumpFileType.LAMMPSCENTER, moltypes={2: 7, 3: 9})
    rd.read_onefile()
    ok = rd.snapshots.nsnapshots == 3
    for snap in rd.snapshots.snapshots:
        ok = ok and snap.nparticle == 3 and np.array_equal(snap.particle_type, [7, 7, 9])
        ok = ok and np.array_equal(snap.positions, [[0.5, 0.25], [1.0, 0.5], [2.0, 0.0]])
    if not ok:
        errors.append("dispatch: LAMMPSCENTER")
    rd = DumpReader(path, ndim=2)   # default file type: LAMMPS
    rd.read_onefile()
    ok = rd.snapshots.nsnapshots == 3
    for snap in rd.snapshots.snapshots:
        ok = ok and np.array_equal(snap.positions, [[3.5, -0.5], [0.5, 0.25], [1.0, 0.5], [2.0, 0.0]])
        ok = ok and np.array_equal(snap.boxlength, [4.0, 2.0])
    if not ok:
        errors.append("dispatch: LAMMPS")


def all_extras(tmpdir, errors):
    extra_boundary_wrap(tmpdir, errors)
    extra_scaled_outside(tmpdir, errors)
    extra_dispatch(tmpdir, errors)


def main(extra=all_extras):
    tmpdir = tempfile.mkdtemp()
    errors = []
    try:
        for n, (name, ndim, spec) in enumerate(standard_cases()):
            run_case(tmpdir, name, ndim, spec, seed=100 + n, errors=errors,
                     use_dumpreader=(n % 2 == 1))
        if extra is not None:
            extra(tmpdir, errors)
    finally:
        shutil.rmtree(tmpdir, ignore_errors=True)
    if errors:
        for e in errors:
            print("MISMATCH", e)
        print(f"FAIL: {len(errors)} mismatches")
        sys.exit(1)
    print("OK: all frames match the expected values")
    sys.exit(0)


if __name__ == "__main__":
    main()
