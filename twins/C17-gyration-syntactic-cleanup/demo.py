"""Demo for the syntactic clean-up of PyMatterSim.static.shape.gyration_tensor.

Compares the public function against an independent reference (centred
second-moment tensor through a matrix product, symmetric eigen-solver,
documented descriptors) on 3D and 2D point clouds, including N = 2, a large
offset from the origin and a non-contiguous input view.
Exits 0 when everything agrees.
"""
import sys

import numpy as np

from PyMatterSim.static.shape import gyration_tensor


def reference(points):
    points = np.asarray(points, dtype=float)
    npart, ndim = points.shape
    centred = points - points.mean(axis=0)
    tensor = centred.T @ centred / npart
    lam = np.sort(np.linalg.eigvalsh(tensor))
    rg = np.sqrt(lam.sum())
    acyl = lam[1] - lam[0]
    fractal = np.log10(npart) / np.log10(rg)
    if ndim == 3:
        asph = 1.5 * lam[2] - 0.5 * lam.sum()
        kappa = (asph ** 2 + 0.75 * acyl ** 2) / rg ** 4
        return [rg, asph, acyl, kappa, fractal]
    return [rg, acyl, fractal]


def main():
    rng = np.random.default_rng(1717)
    cases = {
        "3d-random": rng.normal(size=(57, 3)) * np.array([3.0, 1.5, 0.7]),
        "3d-offset": rng.normal(size=(40, 3)) * 2.5 + np.array([100.0, -50.0, 25.0]),
        "3d-two-points": np.array([[0.0, 0.0, 0.0], [3.0, 4.0, 12.0]]),
        "3d-five-points": rng.uniform(-4, 4, size=(5, 3)),
        "2d-random": rng.normal(size=(33, 2)) * np.array([4.0, 1.2]),
        "2d-two-points": np.array([[1.0, 1.0], [4.0, 5.0]]),
        "2d-view": (rng.normal(size=(21, 4)) * 3.0)[:, ::2],
    }
    failures = 0
    for name, pts in cases.items():
        original = np.array(pts, copy=True)
        got = np.asarray(gyration_tensor(pts))
        # numpy's general eigen-solver may hand back a complex dtype with zero imaginary part
        if np.iscomplexobj(got):
            if np.any(got.imag != 0):
                print(f"FAIL {name}: complex descriptors {got}")
                failures += 1
            got = got.real
        want = np.asarray(reference(pts), dtype=float)
        if not np.array_equal(np.asarray(pts), original):
            print(f"FAIL {name}: input array was modified")
            failures += 1
        if got.shape != want.shape or not np.allclose(got, want, rtol=1e-9, atol=1e-9):
            print(f"FAIL {name}: got {got}, want {want}")
            failures += 1
        else:
            print(f"ok   {name}: {got}")

    # regular tetrahedron: isotropic tensor -> asphericity, acylindricity, anisotropy vanish
    tetra = np.array([[1, 1, 1], [1, -1, -1], [-1, 1, -1], [-1, -1, 1]], dtype=float) * 2.0
    res = np.real(gyration_tensor(tetra))
    if not (abs(res[0] - np.sqrt(12.0)) < 1e-9 and abs(res[1]) < 1e-9 and abs(res[2]) < 1e-9 and abs(res[3]) < 1e-9):
        print(f"FAIL tetrahedron: {res}")
        failures += 1
    else:
        print("ok   tetrahedron isotropic")

    # wrong dimensionality must still be rejected
    try:
        gyration_tensor(np.zeros((4, 4)))
    except ValueError:
        print("ok   4d input rejected")
    else:
        print("FAIL 4d input accepted")
        failures += 1

    return 1 if failures else 0


if __name__ == "__main__":
    sys.exit(main())
