"""Demo for the read_lammpslog refactoring (int() conversions, %-style logging).

Writes synthetic LAMMPS logs with 0..4 run sections (different column sets,
different lengths including an empty section, text between sections, optional
truncated last section) and checks that every complete section comes back in
full, and that the INFO message text is unchanged.
"""
import logging
import os
import shutil
import sys
import tempfile

import numpy as np

from PyMatterSim.reader.simulation_log import read_lammpslog

COLUMN_SETS = (
    ["Step", "Temp", "E_pair", "E_mol", "TotEng", "Press"],
    ["Step", "Temp", "PotEng", "Volume"],
    ["Step", "c_msd[4]", "Lx"],
)


def write_log(fname, sections, truncated_rows, trailing):
    """sections: list of (columns, int steps, float table)"""
    with open(fname, "w", encoding="utf-8") as f:
        f.write("LAMMPS (2 Aug 2023)\nunits lj\nStepwise comment that is not a header\n\n")
        for k, (columns, steps, table) in enumerate(sections):
            f.write("run %d\nPer MPI rank memory allocation (min/avg/max) = 3.1 | 3.1 | 3.1 Mbytes\n" % len(steps))
            f.write("   ".join(columns) + " \n")
            last = k == len(sections) - 1
            for i, step in enumerate(steps):
                f.write("%8d " % step + " ".join(repr(float(x)) for x in table[i]) + "\n")
            if last and truncated_rows:
                continue  # simulation killed: no "Loop time" line
            f.write("Loop time of 1.23 on 4 procs for %d steps with 100 atoms\n\n" % len(steps))
            f.write("Performance: 1 tau/day\nNlocal: 25 ave 30 max 20 min\n\n")
        if not truncated_rows:
            f.write(trailing)


def main():
    rng = np.random.default_rng(2019)
    records = []

    class Collect(logging.Handler):
        def emit(self, record):
            records.append(record.getMessage())

    log = logging.getLogger("PyMatterSim.reader.simulation_log")
    log.addHandler(Collect())
    for handler in list(log.handlers):  # keep the console quiet
        if isinstance(handler, logging.StreamHandler) and not isinstance(handler, Collect):
            log.removeHandler(handler)
    log.propagate = False

    tmp = tempfile.mkdtemp()
    ncheck = 0
    try:
        for nsection in range(0, 5):
            for truncated in (False, True):
                if truncated and nsection == 0:
                    continue
                for trailing in ("Total wall time: 0:00:01\n", "Total wall time: 0:00:01\n\n", "Total wall time: 0:00:01"):
                    sections = []
                    for k in range(nsection):
                        columns = COLUMN_SETS[int(rng.integers(len(COLUMN_SETS)))]
                        nrow = int(rng.integers(0, 12)) if k != 1 else 0  # second section empty
                        if truncated and k == nsection - 1:
                            nrow = int(rng.integers(3, 9))
                        steps = np.arange(nrow) * 100 + 1000 * k
                        table = rng.normal(0, 10.0 ** rng.integers(-3, 4), (nrow, len(columns) - 1))
                        sections.append((columns, steps, table))
                    fname = os.path.join(tmp, "log_%d_%d_%d.lammps" % (nsection, truncated, len(trailing)))
                    write_log(fname, sections, truncated, trailing)

                    del records[:]
                    got = read_lammpslog(fname)
                    assert isinstance(got, list) and len(got) == nsection
                    lengths = []
                    for k, (frame, (columns, steps, table)) in enumerate(zip(got, sections)):
                        assert list(frame.columns) == columns
                        lengths.append(len(frame))
                        if truncated and k == nsection - 1:
                            # incomplete last section: a prefix of the written rows
                            assert 0 < len(frame) <= len(steps)
                        else:
                            assert len(frame) == len(steps), (len(frame), len(steps))
                        m = len(frame)
                        assert np.array_equal(frame["Step"].to_numpy(), steps[:m])
                        # (the default pandas float parser is accurate to about 1 ulp, not exact)
                        assert np.allclose(frame[columns[1:]].to_numpy(dtype=float).reshape(m, len(columns) - 1), table[:m], rtol=1e-12, atol=0)
                        ncheck += 1
                    # the INFO line keeps its exact text
                    arr = np.array(lengths) if lengths else np.array([])
                    expected = f"Section Number: {nsection} \t Line Numbers: {str(arr)}"
                    assert records == [expected], (records, expected)
    finally:
        shutil.rmtree(tmp)
    print("log demo OK (%d sections checked)" % ncheck)
    return 0


if __name__ == "__main__":
    sys.exit(main())
