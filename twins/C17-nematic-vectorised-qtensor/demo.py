"""Demo for the loop restructuring in PyMatterSim.static.nematic.NematicOrder.tensor.

Compares the Q tensor (stored on the instance and written to disk) and the
returned scalar order parameter - trace form and eigenvalue form - against an
independent reference Q = (d u u^T - I)/2, optionally neighbour-averaged with
a zero-padded neighbour table of unequal coordination numbers (including
cn = 0) and unsorted particle ids in the neighbour file.
Inputs: unit vectors, non-normalised vectors, several frames, a single
particle, and orientation arrays that carry an extra third column.
Exits 0 when everything agrees.
"""
import os
import shutil
import sys
import tempfile
import warnings

import numpy as np

from PyMatterSim.reader.reader_utils import SingleSnapshot, Snapshots
from PyMatterSim.static.nematic import NematicOrder


def make_snapshots(frames):
    box = np.array([10.0, 10.0])
    bounds = np.column_stack((np.zeros(2), box))
    snaps = [
        SingleSnapshot(
            timestep=k,
            nparticle=vec.shape[0],
            particle_type=np.ones(vec.shape[0], dtype=int),
            positions=vec,
            boxlength=box,
            boxbounds=bounds,
            realbounds=bounds,
            hmatrix=np.diag(box),
        )
        for k, vec in enumerate(frames)
    ]
    return Snapshots(len(snaps), snaps)


def write_neighbors(path, tables, rng):
    """tables: per frame a list (per particle) of 0-based neighbour lists; rows written in shuffled id order"""
    with open(path, "w", encoding="utf-8") as handle:
        for table in tables:
            handle.write("id cn neighborlist\n")
            for i in rng.permutation(len(table)):
                row = [i + 1, len(table[i])] + [j + 1 for j in table[i]]
                handle.write(" ".join(str(v) for v in row) + "\n")


def reference(frames, tables=None):
    q_all = []
    for n, vec in enumerate(frames):
        q_frame = np.zeros((vec.shape[0], 2, 2))
        for i, u in enumerate(vec):
            u = np.asarray(u[:2], dtype=float)
            q_frame[i] = (2 * np.outer(u, u) - np.eye(2)) / 2
        if tables is not None:
            averaged = np.zeros_like(q_frame)
            for i, neigh in enumerate(tables[n]):
                averaged[i] = (q_frame[i] + sum(q_frame[j] for j in neigh)) / (1 + len(neigh))
            q_frame = averaged
        q_all.append(q_frame)
    q_all = np.array(q_all)
    trace = np.sqrt(2.0 * np.einsum("nixy,niyx->ni", q_all, q_all))
    eig = 2.0 * np.linalg.eigvalsh(q_all)[..., -1]
    return q_all, trace, eig


def check(name, frames, tmpdir, rng, tables=None, traceless=True):
    ok = True
    neighborfile = ""
    if tables is not None:
        neighborfile = os.path.join(tmpdir, name + ".neighbor.dat")
        write_neighbors(neighborfile, tables, rng)
    want_q, want_trace, want_eig = reference(frames, tables)
    suffix = ".QIJ_cg.npy" if tables is not None else ".QIJ_raw.npy"
    for eigvals, want, out_suffix in ((False, want_trace, ".Qtrace.npy"), (True, want_eig, ".eigval.npy")):
        obj = NematicOrder(make_snapshots(frames))
        out = os.path.join(tmpdir, f"{name}_{int(eigvals)}")
        with warnings.catch_warnings():
            # numpy's general eigen-solver may hand back a complex dtype with zero imaginary part
            warnings.simplefilter("ignore")
            got = obj.tensor(ndim=2, neighborfile=neighborfile, Nmax=6, eigvals=eigvals, outputfile=out)
        ok &= got.shape == want.shape and np.allclose(got, want, rtol=1e-10, atol=1e-10)
        ok &= np.asarray(obj.QIJ).shape == want_q.shape and np.allclose(obj.QIJ, want_q, rtol=1e-12, atol=1e-12)
        ok &= np.array_equal(np.load(out + suffix), obj.QIJ)
        ok &= np.array_equal(np.load(out + out_suffix), got)
    # in 2D, for unit vectors (traceless Q), the trace form equals twice the largest eigenvalue
    if traceless:
        ok &= np.allclose(want_trace, want_eig, rtol=1e-10, atol=1e-10)
    print(("ok   " if ok else "FAIL ") + name)
    return ok


def main():
    rng = np.random.default_rng(4242)
    tmpdir = tempfile.mkdtemp()
    failures = 0
    try:
        def unit(n):
            theta = rng.uniform(0, 2 * np.pi, size=n)
            return np.column_stack((np.cos(theta), np.sin(theta)))

        def table(n, maxcn=5):
            rows = []
            for i in range(n):
                cn = int(rng.integers(0, maxcn + 1))
                others = [j for j in range(n) if j != i]
                rows.append([int(j) for j in rng.choice(others, size=min(cn, len(others)), replace=False)])
            rows[0] = []          # a particle without neighbours
            return rows

        frames = [unit(17) for _ in range(3)]
        failures += not check("unit_raw", frames, tmpdir, rng)
        failures += not check("unit_cg", frames, tmpdir, rng, [table(17) for _ in frames])

        frames = [rng.normal(size=(11, 2)) * 1.7]
        failures += not check("nonunit_raw", frames, tmpdir, rng, traceless=False)
        failures += not check("nonunit_cg", frames, tmpdir, rng, [table(11)], traceless=False)

        frames = [np.column_stack((unit(9), rng.normal(size=9))) for _ in range(2)]
        failures += not check("extra_column_raw", frames, tmpdir, rng)
        failures += not check("extra_column_cg", frames, tmpdir, rng, [table(9) for _ in frames])

        failures += not check("single_particle", [unit(1)], tmpdir, rng)

        # perfectly aligned field: order parameter one, with and without averaging
        aligned = [np.tile(np.array([[np.cos(0.3), np.sin(0.3)]]), (8, 1))]
        obj = NematicOrder(make_snapshots(aligned))
        got = obj.tensor(outputfile=os.path.join(tmpdir, "aligned"))
        if not np.allclose(got, 1.0, rtol=0, atol=1e-12):
            print("FAIL aligned")
            failures += 1
        else:
            print("ok   aligned")
    finally:
        shutil.rmtree(tmpdir, ignore_errors=True)
    return 1 if failures else 0


if __name__ == "__main__":
    sys.exit(main())
