"""demo for the read_neighbors guard-clause / merged-branch refactoring

Exercises read_neighbors on synthetic neighbour-list and neighbour-property files:
unsorted ids, unequal coordination numbers (zero padding), several frames read from one
handle, Nmax larger / equal / smaller than the largest coordination number, negative and
signed-zero property values, and files written by cal_neighbors (2D and 3D).
Expected values come from a straightforward reference reader written here.
"""

import os
import shutil
import sys
import tempfile

import numpy as np

from PyMatterSim.neighbors.freud_neighbors import cal_neighbors
from PyMatterSim.neighbors.read_neighbors import read_neighbors
from PyMatterSim.reader.reader_utils import SingleSnapshot, Snapshots


def reference_read(lines, nparticle, Nmax):
    """independent reader: lines = header + nparticle rows (already split off the file)"""
    is_list = "neighborlist" in lines[0].split()
    table = np.zeros((nparticle, Nmax + 1))
    for row in lines[1 : nparticle + 1]:
        words = row.split()
        index = int(words[0]) - 1
        cn = min(int(words[1]), Nmax)
        values = np.array([float(w) for w in words[2 : 2 + cn]], dtype=float)
        if is_list:
            values = values - 1
        table[index, 0] = cn
        table[index, 1 : 1 + cn] = values
    biggest = int(table[:, 0].max())
    if biggest < Nmax:
        table = table[:, : biggest + 1]
    if is_list:
        table = table.astype(np.int32)
    return table


def check_file(path, nparticle, nframes, Nmax):
    with open(path, "r", encoding="utf-8") as f:
        lines = f.readlines()
    with open(path, "r", encoding="utf-8") as f:
        for n in range(nframes):
            got = read_neighbors(f, nparticle, Nmax)
            block = lines[n * (nparticle + 1) : (n + 1) * (nparticle + 1)]
            want = reference_read(block, nparticle, Nmax)
            assert got.dtype == want.dtype, (path, n, Nmax, got.dtype, want.dtype)
            assert got.shape == want.shape, (path, n, Nmax, got.shape, want.shape)
            assert np.array_equal(got, want), (path, n, Nmax)
            # signed zeros must survive as well
            assert np.array_equal(np.signbit(got), np.signbit(want)), (path, n, Nmax)
        assert f.readline() == "", "file pointer must be at the end after the last frame"


def synthetic_files(tmp):
    rng = np.random.default_rng(7)
    nparticle, nframes = 9, 3
    fl = open(os.path.join(tmp, "syn.neighbor.dat"), "w", encoding="utf-8")
    fw = open(os.path.join(tmp, "syn.prop.dat"), "w", encoding="utf-8")
    for n in range(nframes):
        fl.write("id   cn   neighborlist\n")
        fw.write("id   cn   some_property\n")
        order = rng.permutation(nparticle) if n != 1 else np.arange(nparticle)  # unsorted ids
        for i in order:
            cn = int(rng.integers(0 if n == 2 else 1, 8))
            if n == 0 and i == order[0]:
                cn = 7  # first row is the long one -> "Too Many neighbors" branch with i == 0
            ids = rng.choice(np.delete(np.arange(1, nparticle + 1), i), size=cn, replace=False) if cn <= 8 else []
            vals = rng.normal(size=cn)
            fl.write("%d %d " % (i + 1, cn) + "".join("%d " % v for v in ids) + "\n")
            words = ["%.6f" % v for v in vals]
            if cn > 1:
                words[1] = "-0.0"
            if cn > 2:
                words[2] = "1e-3"
            fw.write("%d %d " % (i + 1, cn) + " ".join(words) + "\n")
    fl.close()
    fw.close()
    return nparticle, nframes


def random_snapshots(ndim, nparticle, nframes, lengths, origin, seed):
    rng = np.random.default_rng(seed)
    lengths = np.asarray(lengths, dtype=float)
    origin = np.asarray(origin, dtype=float)
    bounds = np.column_stack((origin, origin + lengths))
    frames = []
    for n in range(nframes):
        frames.append(
            SingleSnapshot(
                timestep=n,
                nparticle=nparticle,
                particle_type=np.ones(nparticle, dtype=int),
                positions=origin + rng.random((nparticle, ndim)) * lengths,
                boxlength=lengths.copy(),
                boxbounds=bounds.copy(),
                realbounds=bounds.copy(),
                hmatrix=np.diag(lengths),
            )
        )
    return Snapshots(nsnapshots=nframes, snapshots=frames)


def main():
    tmp = tempfile.mkdtemp()
    try:
        nparticle, nframes = synthetic_files(tmp)
        for name in ("syn.neighbor.dat", "syn.prop.dat"):
            for Nmax in (200, 8, 7, 6, 3, 1):
                check_file(os.path.join(tmp, name), nparticle, nframes, Nmax)

        for ndim, lengths, origin, suffix in (
            (2, [6.0, 5.0], [-1.0, 2.5], ".edgelength.dat"),
            (3, [4.0, 4.5, 5.0], [0.5, -3.0, 1.0], ".facearea.dat"),
        ):
            snaps = random_snapshots(ndim, 24, 2, lengths, origin, seed=ndim)
            base = os.path.join(tmp, "voro%d" % ndim)
            cal_neighbors(snaps, outputfile=base)
            for ext in (".neighbor.dat", suffix):
                for Nmax in (200, 10, 4):
                    check_file(base + ext, 24, 2, Nmax)
    finally:
        shutil.rmtree(tmp)
    print("OK")
    return 0


if __name__ == "__main__":
    sys.exit(main())
