"""Demo for the loop restructuring of sq.ternary / sq.quarternary / sq.quinary.

Synthetic 2D / 3D trajectories with 3, 4 and 5 species (unsorted, unequal composition, one
species with a single particle, several frames, default and explicit wave vectors, onlypositive)
are analysed with static.sq.sq and every total / partial column (including all cross terms) is
compared with a vectorised reference of the density-mode definition.  Type ids that are not
1..n are covered too: the library routes "type k -> species k for k < n, everything else -> species n"
and normalises with the sorted unique counts; the reference reproduces that rule independently.
Exits 0 when everything agrees.
"""
import math
import os
import shutil
import sys
import tempfile

import numpy as np
import pandas as pd

from PyMatterSim.reader.reader_utils import SingleSnapshot, Snapshots
from PyMatterSim.static.sq import sq
from PyMatterSim.utils.wavevector import choosewavevector

ATOL = 2.0e-6


def make_snapshots(rng, ndim, types, nframes, box):
    box = np.asarray(box, dtype=float)
    n = len(types)
    frames = []
    for t in range(nframes):
        pos = rng.random((n, ndim)) * box * 1.4 - 0.2 * box
        frames.append(SingleSnapshot(
            timestep=t, nparticle=n, particle_type=np.asarray(types), positions=pos,
            boxlength=box, boxbounds=np.column_stack([np.zeros(ndim), box]),
            realbounds=None, hmatrix=np.diag(box)))
    return Snapshots(nsnapshots=nframes, snapshots=frames)


def column_names(nspecies):
    names = ["q", "Sq"] + [f"Sq{a}{a}" for a in range(1, nspecies + 1)]
    names += [f"Sq{a}{b}" for a in range(1, nspecies + 1) for b in range(a + 1, nspecies + 1)]
    return names


def reference(snaps, nvec, types, nspecies):
    box = snaps.snapshots[0].boxlength
    q = 2 * np.pi * nvec.astype(float) / box[None, :]
    # routing of the library: type k (k < nspecies) -> species k, everything else -> last species
    species = np.full(len(types), nspecies)
    for k in range(1, nspecies):
        species[types == k] = k
    counts = np.unique(types, return_counts=True)[1]
    assert len(counts) == nspecies
    cols = {c: 0.0 for c in column_names(nspecies)}
    cols["q"] = np.sqrt((q * q).sum(axis=1))
    for s in snaps.snapshots:
        phase = np.exp(-1j * (s.positions @ q.T))
        rho_all = phase.sum(axis=0)
        rho = {a: phase[species == a].sum(axis=0) for a in range(1, nspecies + 1)}
        cols["Sq"] = cols["Sq"] + np.abs(rho_all) ** 2 / len(types) / snaps.nsnapshots
        for a in range(1, nspecies + 1):
            for b in range(a, nspecies + 1):
                norm = math.sqrt(int(counts[a - 1]) * int(counts[b - 1])) * snaps.nsnapshots
                cols[f"Sq{a}{b}"] = cols[f"Sq{a}{b}"] + (rho[a] * rho[b].conj()).real / norm
    df = pd.DataFrame(cols).round(6)
    qr = df["q"].to_numpy()
    keys = np.unique(qr)
    return pd.DataFrame({c: (keys if c == "q" else np.array([df[c].to_numpy()[qr == k].mean() for k in keys]))
                         for c in df.columns})


def check(tag, got, exp, nspecies, types, canonical):
    assert list(got.columns) == column_names(nspecies), (tag, list(got.columns))
    assert got.shape == exp.shape, (tag, got.shape, exp.shape)
    np.testing.assert_allclose(got.to_numpy(), exp.to_numpy(), rtol=0, atol=ATOL, err_msg=str(tag))
    for a in range(1, nspecies + 1):
        assert (got[f"Sq{a}{a}"].to_numpy() >= 0).all(), (tag, a)
    if canonical:
        n = np.array([np.sum(types == a) for a in range(1, nspecies + 1)], dtype=float)
        total = sum(n[a] * got[f"Sq{a + 1}{a + 1}"] for a in range(nspecies))
        total = total + sum(2 * math.sqrt(n[a] * n[b]) * got[f"Sq{a + 1}{b + 1}"]
                            for a in range(nspecies) for b in range(a + 1, nspecies))
        np.testing.assert_allclose(total / n.sum(), got["Sq"], rtol=0, atol=2e-5, err_msg=str(tag))


def main():
    rng = np.random.default_rng(404)
    tmp = tempfile.mkdtemp()
    nrun = 0
    try:
        boxes = {2: [5.2, 6.6], 3: [4.1, 3.5, 5.0]}
        for ndim in (2, 3):
            box = boxes[ndim]
            for nspecies in (3, 4, 5):
                # unsorted canonical ids, unequal composition, last-but-one species has ONE particle
                types = rng.integers(1, nspecies + 1, size=20)
                types[types == nspecies - 1] = 1
                types[:nspecies] = np.arange(nspecies, 0, -1)
                for nframes in (1, 3):
                    snaps = make_snapshots(rng, ndim, types, nframes, box)
                    for onlypositive in (False, True):
                        calc = sq(snaps, qrange=5.0, onlypositive=onlypositive)
                        numofq = int(5.0 * 2.0 / (2 * np.pi / np.asarray(box)).min())
                        nvec = choosewavevector(ndim, numofq, onlypositive)
                        assert np.array_equal(calc.df_qvector.to_numpy(), nvec)
                        got = calc.getresults()
                        exp = reference(snaps, nvec, types, nspecies)
                        check((ndim, nspecies, nframes, onlypositive), got, exp, nspecies, types, True)
                        nrun += 1

                # explicit wave-vector list + both csv files
                nvec = rng.integers(-4, 5, size=(21, ndim))
                nvec = nvec[(nvec != 0).any(axis=1)]
                out = os.path.join(tmp, f"sq_{ndim}_{nspecies}.csv")
                got = sq(snaps, qvector=nvec, saveqvectors=True, outputfile=out).getresults()
                exp = reference(snaps, nvec, types, nspecies)
                check((ndim, nspecies, "explicit"), got, exp, nspecies, types, True)
                saved = pd.read_csv(out)
                assert list(saved.columns) == column_names(nspecies)
                np.testing.assert_allclose(saved.to_numpy(), got.to_numpy(), rtol=0, atol=1e-6)
                pervec = pd.read_csv(out[:-4] + "_qvectors.csv")
                assert list(pervec.columns) == [f"q{i}" for i in range(ndim)] + column_names(nspecies)
                assert len(pervec) == len(nvec)
                np.testing.assert_array_equal(pervec.iloc[:, :ndim].to_numpy(), nvec)
                nrun += 1

                # non-canonical ids: gaps / ids above n are routed to the last species,
                # an id range without "1" leaves the first accumulator empty
                for ids in (np.arange(1, nspecies + 1) * 2 - 1,      # 1,3,5,...
                            np.arange(2, nspecies + 2),              # 2,3,4,...
                            np.array([1, 2, 3, 4, 5][:nspecies - 1] + [9])):
                    types2 = ids[rng.integers(0, nspecies, size=17)]
                    types2[:nspecies] = ids
                    snaps2 = make_snapshots(rng, ndim, types2, 2, box)
                    nvec = choosewavevector(ndim, int(4.0 * 2.0 / (2 * np.pi / np.asarray(box)).min()))
                    got = sq(snaps2, qrange=4.0).getresults()
                    exp = reference(snaps2, nvec, types2, nspecies)
                    check((ndim, nspecies, tuple(ids)), got, exp, nspecies, types2, False)
                    nrun += 1
    finally:
        shutil.rmtree(tmp)
    print(f"demo OK ({nrun} runs)")
    return 0


if __name__ == "__main__":
    sys.exit(main())
