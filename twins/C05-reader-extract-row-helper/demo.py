"""Demo for the helper extraction in read_neighbors.

Synthetic multi-frame files are written to a temporary directory:
 * neighbour lists ("id cn neighborlist") and other per-neighbour properties
   ("id cn weights", real numbers) - the latter must NOT be shifted by -1;
 * rows in shuffled id order, unequal coordination numbers including 0,
   frames with different particle numbers;
 * Nmax larger than, equal to and smaller than the largest coordination number
   (truncation branch), Nmax = 1.
Consecutive frames are read from one open file and compared with a reference
parser written here; after the last frame the file must be exhausted.
A file produced by cutoffneighbors is read back as well.  Exits 0 on success.
"""
import os
import shutil
import sys
import tempfile

import numpy as np

from PyMatterSim.neighbors.calculate_neighbors import cutoffneighbors
from PyMatterSim.neighbors.read_neighbors import read_neighbors
from PyMatterSim.reader.reader_utils import SingleSnapshot, Snapshots


def reference_tables(text, nparticles, Nmax):
    """straightforward reference: parse the whole text, frame after frame"""
    lines = text.split("\n")
    pointer = 0
    tables = []
    for n in nparticles:
        is_list = "neighborlist" in lines[pointer].split()
        pointer += 1
        rows = {}
        for _ in range(n):
            tokens = lines[pointer].split()
            pointer += 1
            pid = int(tokens[0]) - 1
            cn = int(tokens[1])
            vals = [float(t) for t in tokens[2 : 2 + cn]]
            assert len(vals) == cn
            if is_list:
                vals = [v - 1 for v in vals]
            rows[pid] = vals[:Nmax]
        assert sorted(rows) == list(range(n))
        width = min(max(len(rows[p]) for p in rows), Nmax)
        table = np.zeros((n, width + 1))
        for p, vals in rows.items():
            table[p, 0] = len(vals)
            table[p, 1 : len(vals) + 1] = vals
        if is_list:
            table = table.astype(np.int32)
        tables.append(table)
    return tables


def synthetic_text(rng, nparticles, kind, max_cn):
    text = ""
    for n in nparticles:
        text += "id     cn     neighborlist\n" if kind == "list" else "id   cn   weights\n"
        for pid in rng.permutation(n) + 1:
            cn = int(rng.integers(0, max_cn + 1))
            if kind == "list":
                vals = [str(int(v)) for v in rng.integers(1, n + 1, size=cn)]
            else:
                vals = [repr(float(v)) for v in rng.normal(size=cn) * 10.0 ** rng.integers(-3, 4)]
            text += ("%d %d " % (pid, cn)) + " ".join(vals) + "\n"
    return text


def main():
    rng = np.random.default_rng(3)
    tmpdir = tempfile.mkdtemp()
    ncheck = 0
    try:
        fn = os.path.join(tmpdir, "prop.dat")
        for kind in ("list", "weights"):
            for nparticles in ([7, 7, 7], [5, 9, 1], [12]):
                for max_cn in (0, 1, 6):
                    text = synthetic_text(rng, nparticles, kind, max_cn)
                    with open(fn, "w", encoding="utf-8") as f:
                        f.write(text)
                    for Nmax in (200, 7, 6, 5, 3, 1):
                        refs = reference_tables(text, nparticles, Nmax)
                        with open(fn, "r", encoding="utf-8") as f:
                            for n, ref in zip(nparticles, refs):
                                got = read_neighbors(f, n, Nmax)
                                assert got.shape == ref.shape, (kind, Nmax, got.shape, ref.shape)
                                assert got.dtype == ref.dtype, (got.dtype, ref.dtype)
                                assert np.array_equal(got, ref), (kind, Nmax, got, ref)
                                ncheck += 1
                            assert f.read().strip() == ""  # file pointer at the end

        # default Nmax argument, and a hand-written example with known answer
        text = (
            "id cn neighborlist\n"
            "3 2 1 2\n"
            "1 4 2 3 4 5\n"
            "2 0\n"
            "5 1 1\n"
            "4 3 5 3 1\n"
        )
        with open(fn, "w", encoding="utf-8") as f:
            f.write(text + text.replace("neighborlist", "distance"))
        with open(fn, "r", encoding="utf-8") as f:
            first = read_neighbors(f, 5)
            second = read_neighbors(f, 5, Nmax=3)
        assert first.dtype == np.int32
        assert first.tolist() == [[4, 1, 2, 3, 4], [0, 0, 0, 0, 0], [2, 0, 1, 0, 0], [3, 4, 2, 0, 0], [1, 0, 0, 0, 0]]
        assert second.dtype == np.float64
        assert second.tolist() == [[3, 2, 3, 4], [0, 0, 0, 0], [2, 1, 2, 0], [3, 5, 3, 1], [1, 1, 0, 0]]

        # round trip through a writer of the library
        pos = rng.random((20, 3)) * 4.0
        hmatrix = np.array([[4.0, 0, 0], [-1.0, 4.0, 0], [0.5, -0.7, 4.0]])
        snap = SingleSnapshot(0, 20, np.ones(20, dtype=int), pos, np.diag(hmatrix).copy(), None, None, hmatrix)
        cutoffneighbors(Snapshots(2, [snap, snap]), r_cut=1.6, ppp=np.array([1, 1, 1]), fnfile=fn)
        with open(fn, "r", encoding="utf-8") as f:
            text = f.read()
        for Nmax in (200, 4):
            refs = reference_tables(text, [20, 20], Nmax)
            with open(fn, "r", encoding="utf-8") as f:
                for ref in refs:
                    got = read_neighbors(f, 20, Nmax)
                    assert got.dtype == np.int32 and np.array_equal(got, ref)
                    ncheck += 1
    finally:
        shutil.rmtree(tmpdir)
    print(f"read_neighbors demo OK ({ncheck} frame comparisons)")
    return 0


if __name__ == "__main__":
    sys.exit(main())
