"""Demo for the NematicOrder.tensor refactoring (coarse-graining options passed through a dictionary).

Run: PYTHONPATH=<worktree> /venv/bin/python demo.py [--dump FILE]
Exits 0 when the tensor / scalar outputs and the written files agree with an independent reference.
"""
import os
import pickle
import shutil
import sys
import tempfile

import numpy as np

from PyMatterSim.reader.reader_utils import SingleSnapshot, Snapshots
from PyMatterSim.static.nematic import NematicOrder


def make_orientations(frames):
    box = np.array([10.0, 10.0])
    bounds = np.column_stack((np.zeros(2), box))
    snaps = [SingleSnapshot(
        timestep=t * 5,
        nparticle=u.shape[0],
        particle_type=np.ones(u.shape[0], dtype=np.int32),
        positions=u,
        boxlength=box,
        boxbounds=bounds,
        realbounds=bounds,
        hmatrix=np.diag(box),
    ) for t, u in enumerate(frames)]
    return Snapshots(nsnapshots=len(snaps), snapshots=snaps)


def write_neighbors(path, neighbor_frames, rng):
    """id cn neighborlist format, 1-based ids, particle lines in shuffled (unsorted) order"""
    with open(path, "w", encoding="utf-8") as fout:
        for neighbors in neighbor_frames:
            fout.write("id     cn     neighborlist\n")
            for i in rng.permutation(len(neighbors)):
                items = [str(i + 1), str(len(neighbors[i]))] + [str(j + 1) for j in neighbors[i]]
                fout.write("     ".join(items) + "\n")


def reference(frames, neighbor_frames=None, nmax=None):
    nframe, npart = len(frames), frames[0].shape[0]
    Q = np.zeros((nframe, npart, 2, 2))
    for n, u in enumerate(frames):
        for i in range(npart):
            Q[n, i] = (2 * np.outer(u[i], u[i]) - np.eye(2)) / 2
    if neighbor_frames is not None:
        Qcg = np.zeros_like(Q)
        for n in range(nframe):
            for i in range(npart):
                used = list(neighbor_frames[n][i])[:nmax]
                Qcg[n, i] = (Q[n, i] + sum((Q[n, j] for j in used), np.zeros((2, 2)))) / (1 + len(used))
        Q = Qcg
    trace = np.sqrt(2.0 * np.einsum("nixy,niyx->ni", Q, Q))
    eig = 2.0 * np.linalg.eigvalsh(Q)[..., -1]
    return Q, trace, eig


def main():
    dump = sys.argv[sys.argv.index("--dump") + 1] if "--dump" in sys.argv else None
    rng = np.random.default_rng(4242)
    tmpdir = tempfile.mkdtemp()
    collected = {}
    try:
        nframe, npart = 3, 17
        angles = rng.uniform(0, 2 * np.pi, size=(nframe, npart))
        frames = [np.column_stack((np.cos(a), np.sin(a))) for a in angles]
        orient = make_orientations(frames)

        # unequal coordination numbers (0 ... 6), so the neighbour table is zero padded;
        # particle 0 appears as a genuine neighbour, particle 5 has no neighbour at all
        neighbor_frames = []
        for n in range(nframe):
            neighbors = []
            for i in range(npart):
                cn = 0 if i == 5 else int(rng.integers(1, 7))
                others = [j for j in range(npart) if j != i]
                chosen = list(rng.choice(others, size=cn, replace=False))
                if i in (3, 9) and 0 not in chosen:
                    chosen[0] = 0
                neighbors.append([int(j) for j in chosen])
            neighbor_frames.append(neighbors)
        neighborfile = os.path.join(tmpdir, "neighborlist.dat")
        write_neighbors(neighborfile, neighbor_frames, rng)

        def run(tag, reference_values, **kwargs):
            Qref, trace_ref, eig_ref = reference_values
            outputfile = os.path.join(tmpdir, tag)
            suffix = ".QIJ_cg.npy" if kwargs.get("neighborfile") else ".QIJ_raw.npy"
            nem = NematicOrder(orient)
            got_trace = nem.tensor(outputfile=outputfile, **kwargs)
            assert np.allclose(nem.QIJ, Qref, rtol=1e-12, atol=1e-14), tag
            assert np.allclose(got_trace, trace_ref, rtol=1e-12, atol=1e-14), tag
            assert np.array_equal(np.load(outputfile + suffix), nem.QIJ), tag
            assert np.array_equal(np.load(outputfile + ".Qtrace.npy"), got_trace), tag
            written = sorted(name for name in os.listdir(tmpdir) if name.startswith(tag + "."))
            assert written == sorted([tag + suffix, tag + ".Qtrace.npy"]), (tag, written)
            nem2 = NematicOrder(orient)
            got_eig = nem2.tensor(outputfile=outputfile + "_e", eigvals=True, **kwargs)
            assert np.array_equal(nem2.QIJ, nem.QIJ), tag
            assert np.allclose(got_eig, eig_ref, rtol=1e-12, atol=1e-14), tag
            assert np.array_equal(np.load(outputfile + "_e.eigval.npy"), got_eig), tag
            assert np.array_equal(np.load(outputfile + "_e" + suffix), nem.QIJ), tag
            written = sorted(name for name in os.listdir(tmpdir) if name.startswith(tag + "_e."))
            assert written == sorted([tag + "_e" + suffix, tag + "_e.eigval.npy"]), (tag, written)
            # 2D: scalar from the trace equals twice the largest eigenvalue
            assert np.allclose(got_trace, got_eig, rtol=1e-9, atol=1e-12), tag
            collected[tag] = (np.array(nem.QIJ), got_trace, got_eig)

        # raw tensor (no neighbour list): |Q| = 1 for unit vectors
        run("raw", reference(frames))
        assert np.allclose(collected["raw"][1], 1.0, rtol=0, atol=1e-12)
        # neighbour average, default Nmax = 30 (larger than every coordination number)
        run("cg", reference(frames, neighbor_frames, 30), neighborfile=neighborfile)
        assert not np.allclose(collected["cg"][1], 1.0)
        # explicit Nmax equal to the largest coordination number, and a truncating Nmax
        run("cg6", reference(frames, neighbor_frames, 6), neighborfile=neighborfile, Nmax=6)
        assert np.array_equal(collected["cg6"][0], collected["cg"][0])
        run("cg2", reference(frames, neighbor_frames, 2), neighborfile=neighborfile, Nmax=2)
        assert not np.allclose(collected["cg2"][0], collected["cg"][0])
        # particle without neighbours keeps its raw tensor
        assert np.array_equal(collected["cg"][0][:, 5], collected["raw"][0][:, 5])
        if dump:
            with open(dump, "wb") as fout:
                pickle.dump(collected, fout)
    finally:
        shutil.rmtree(tmpdir, ignore_errors=True)
    print("nematic-cg-options-dict demo: OK")
    return 0


if __name__ == "__main__":
    sys.exit(main())
